#!/usr/bin/env python3
"""Regenerate MANIFEST.json from contracts.PROPS and the not-applicable table (run after editing either)."""
import json, sys, os
sys.path.insert(0, os.path.dirname(os.path.abspath(__file__)))
from contracts import PROPS
from contracts.manifest_text import TEXT, NOT_APPLICABLE
ids = [json.loads(l)["id"] for l in open("properties.jsonl")]
checks = []
for pid in ids:
    if pid in PROPS:
        t = TEXT[pid]
        checks.append({"property_id": pid, "quick_cmd": "./check %s --tier quick" % pid, "thorough_cmd": "./check %s --tier thorough" % pid,
                       "evidence_file": "evidence/%s.json" % pid, "replay_cmd_template": "./check --replay {path}", "engine": "pyvc",
                       "level_claimed": {"category": "proof", "text": t["level"], "design_ref": PROPS[pid].get("design_ref", "DESIGN.md section 6")},
                       "level_note": t["note"], "technique": t["technique"]})
na = [{"property_id": p, "reason": NOT_APPLICABLE[p]} for p in ids if p not in PROPS]
m = {"version": 1, "setup_cmd": "python3-vt -m compileall -q pyvc contracts >/dev/null && echo setup-ok",
     "hooks": {"guard": "TWOSIGMA_MEMENTO_VERIF", "enable": "no hooks: contracts are sidecar files under /verif/contracts; /repo is read as source text on every run",
               "baseline_off_cmd": "cd /repo && /venv/bin/python -m pytest -ra -q -p no:cacheprovider --timeout=900 --continue-on-collection-errors", "source_commits": [], "add_only": True},
     "engines": [{"name": "pyvc", "path": "pyvc", "serves_properties": sorted(PROPS), "kind_free_text": "own AST->SMT verification-condition generator over a stated Python subset (symbolic execution per path, contracts in sidecar files, loop invariants, pointwise quantifier instantiation), discharged by z3 5.1 with cvc5 1.0.3 as second back end"}],
     "checks": checks, "not_applicable": na,
     "notes": "Contract-based deductive verification of the real source text. fix: commits in /repo are listed in known_findings.json."}
json.dump(m, open("MANIFEST.json", "w"), indent=1)
print("checks:", [c["property_id"] for c in checks], "n/a:", [x["property_id"] for x in na])
