"""D5 (property C05): MemoryStorageBackend.list_functions() lists functions that have no memoized call.

The memento table is a defaultdict(dict): looking up a call of a function nobody memoized (get_mementos / list_mementos) inserts an
empty row, and forget_call / forget_function leave an empty row behind; list_functions() enumerated the rows.  A plain dictionary keyed by
(function, argument hash) -- and the file-system backend -- list exactly the functions that have a live entry.

usage: d5_memory_backend_listing.py [<checkout>]     exit 1 when the defect shows, 0 otherwise
"""
import sys
sys.path.insert(0, sys.argv[1] if len(sys.argv) > 1 else "/repo")
import twosigma.memento as m  # noqa: E402
from twosigma.memento.storage_memory import MemoryStorageBackend  # noqa: E402
from twosigma.memento.reference import FunctionReferenceWithArgHash  # noqa: E402
from twosigma.memento.metadata import Memento, InvocationMetadata  # noqa: E402


@m.memento_function
def d5_fn(x):
    return x


bad = []
ref = d5_fn.fn_reference()
b = MemoryStorageBackend()
b.get_mementos([FunctionReferenceWithArgHash(ref, "abc")])
if b.list_functions():
    bad.append("after a lookup of a call that was never memoized, list_functions() = %r (expected [])" % [f.qualified_name for f in b.list_functions()])

b = MemoryStorageBackend()
b.list_mementos(ref)
if b.list_functions():
    bad.append("after list_mementos() of a function that was never memoized, list_functions() = %r (expected [])" % [f.qualified_name for f in b.list_functions()])

# memoize one call through the public API, forget it, list
m.Environment.get()
b = MemoryStorageBackend()
fra = ref.with_args(1)
import datetime  # noqa: E402
from twosigma.memento.metadata import ResultType  # noqa: E402
memento = Memento(time=datetime.datetime.now(datetime.timezone.utc),
                  invocation_metadata=InvocationMetadata(fn_reference_with_args=fra, invocations=[], resources=[], runtime=datetime.timedelta(0), result_type=ResultType.number),
                  function_dependencies={ref}, runner={}, correlation_id="x", content_key=None)
b.memoize(None, memento, 1)
assert [f.qualified_name for f in b.list_functions()] == [ref.qualified_name]
b.forget_call(fra.fn_reference_with_arg_hash())
if b.list_functions():
    bad.append("after memoize + forget_call of the only call, list_functions() = %r (expected [])" % [f.qualified_name for f in b.list_functions()])
b.memoize(None, memento, 1)
b.forget_function(ref)
if b.list_functions():
    bad.append("after memoize + forget_function, list_functions() = %r (expected [])" % [f.qualified_name for f in b.list_functions()])
print("\n".join(bad) or "memory backend lists exactly the functions with a live entry")
sys.exit(1 if bad else 0)
