"""D10 (C03): a function containing a set-literal membership test has a frozenset constant; its repr() depends on the process hash seed,
so the code hash (and the version) differs between processes.  Exit 1 while the defect is present."""
import subprocess, sys
repo = sys.argv[1] if len(sys.argv) > 1 else "/repo"
prog = r'''
import sys
sys.path.insert(0, %r)
from twosigma.memento.code_hash import fn_code_hash
def f(x):
    return x in {"alpha", "beta", "gamma", "delta", "epsilon"} or x in (1, {"p", "q", "r"})
print(fn_code_hash(f))
''' % repo
hashes = set()
for seed in ("0", "1", "2", "3", "4", "5"):
    out = subprocess.run([sys.executable, "-c", prog], capture_output=True, text=True, env={"PYTHONHASHSEED": seed, "PATH": "/usr/bin:/bin"})
    hashes.add(out.stdout.strip() or out.stderr[-200:])
print("distinct hashes over 6 hash seeds:", len(hashes))
sys.exit(0 if len(hashes) == 1 else 1)
