"""C01: co_exceptiontable (Python >= 3.11: which instructions a try block protects) is behaviour but is not hashed: moving a call out of the
protected region (try/except -> try/except/else) gives identical co_code and an identical fn_code_hash; same for co_posonlyargcount."""
import sys
sys.path.insert(0, (sys.argv[1] if len(sys.argv) > 1 else __import__("os").environ.get("PYVC_REPO", "/repo")))
from twosigma.memento.code_hash import fn_code_hash
def run(fn):
    calls = []
    def p(): calls.append("p")
    def q(): raise KeyError("from q")
    def r(): calls.append("handled")
    try:
        fn(p, q, r); return calls
    except KeyError:
        return calls + ["KeyError escaped"]
def a(p, q, r):
    try:
        p()
        q()
    except KeyError:
        r()
h1, b1, o1 = fn_code_hash(a), a.__code__.co_code, run(a)
def a(p, q, r):   # noqa
    try:
        p()
    except KeyError:
        r()
    else:
        q()
h2, b2, o2 = fn_code_hash(a), a.__code__.co_code, run(a)
print("try/except vs try/except/else: same bytecode", b1 == b2, "| behaviour", o1, "vs", o2, "| hash equal:", h1 == h2)
def k(a, /, **kw): return kw
g1 = fn_code_hash(k); r1 = k(1, a=2)
def k(a, **kw): return kw   # noqa
g2 = fn_code_hash(k)
try: r2 = k(1, a=2)
except TypeError as e: r2 = "TypeError"
print("positional-only marker removed: behaviour", r1, "vs", r2, "| hash equal:", g1 == g2)
bad = (h1 == h2 and o1 != o2) or (g1 == g2 and r1 != r2)
sys.exit(1 if bad else 0)
