"""C01: fn_code_hash follows __wrapped__ to the INNERMOST function and hashes only that: the code of every outer layer of a functools.wraps chain
(same module, plain helper functions of the program) is not part of the version.  With the `@decorator` spelling the decorator's name appears in the
source of the innermost function and rescues the version; with the equally common assignment spelling  helper = logged(scaled(_impl))  /
f = memento_function(logged(scaled(_impl)))  nothing does: editing the wrapper body leaves the version unchanged and the stale result is served
in the next process."""
import sys, os; sys.path.insert(0, os.path.join(os.path.dirname(os.path.abspath(__file__)), "inproc"))
from common_c3 import *
def prog(style, bonus):
    head = '''
import functools
from twosigma.memento import memento_function
def scaled(fn):
    @functools.wraps(fn)
    def wrapper(x):
        return fn(x) * 10 + %d
    return wrapper
def _impl(x):
    return x + 1
''' % bonus
    if style == "helper":
        return head + "helper = scaled(_impl)\n@memento_function\ndef f(x):\n    return helper(x)\n"
    return head + "f = memento_function(scaled(_impl))\n"
bad = []
for style in ["helper", "function itself"]:
    d = setup("c01v1_" + style.replace(" ", "_"), {})
    store = os.path.join(d, "store")
    a = fresh(d, {"prog.py": prog(style, 0)}, expr="(prog.f.version(), prog.f(1))", store=store)
    b = fresh(d, {"prog.py": prog(style, 5)}, expr="(prog.f.version(), prog.f(1))", store=store)
    un = fresh(d, {"prog.py": prog(style, 5)}, expr="prog.f.fn(1)")
    print("%-16s edition 1 %s, edition 2 (wrapper body edited) %s, un-memoized edition 2: %s" % (style, a, b, un))
    if eval(b)[1] != eval(un):
        bad.append("%s: memoized call returns %r, the current program computes %s (version unchanged: %s)" % (style, eval(b)[1], un, eval(a)[0] == eval(b)[0]))
if bad:
    print("VIOLATION (C01): " + "; ".join(bad)); sys.exit(1)
print("holds"); sys.exit(0)
