"""D30 (property C04): a call keyword that names a parameter a positional argument already fills silently replaced the positional value:
f(1, a=2) and f(7, a=2) got one key -- the key of f(2) -- and were served its memoized result (Python itself raises TypeError for such calls).
usage: d30_keyword_overrides_positional.py [<checkout>]    exit 1 when the defect shows, 0 otherwise"""
import os
import sys
import types
sys.path.insert(0, sys.argv[1] if len(sys.argv) > 1 else os.environ.get("PYVC_REPO", "/repo"))
from twosigma.memento.reference import FunctionReferenceWithArguments as FWA  # noqa: E402


def bind(names, pa, pk, a, k):
    o = object.__new__(FWA)
    o.fn_reference = types.SimpleNamespace(parameter_names=list(names), partial_args=tuple(pa), partial_kwargs=dict(pk))
    o.args, o.kwargs = tuple(a), dict(k)
    try:
        return o._compute_effective_kwargs()
    except ValueError as e:
        return "refused: %s" % e


bad = []
for label, x, y in (("f(1, a=2) / f(7, a=2)", bind("ab", (), {}, (1,), {"a": 2}), bind("ab", (), {}, (7,), {"a": 2})),
                    ("f(1, 2, b=3) / f(1, 99, b=3)", bind("ab", (), {}, (1, 2), {"b": 3}), bind("ab", (), {}, (1, 99), {"b": 3})),
                    ("f.partial(1)(a=2) / f.partial(5)(a=2)", bind("ab", (1,), {}, (), {"a": 2}), bind("ab", (5,), {}, (), {"a": 2}))):
    if isinstance(x, dict) and x == y:
        bad.append("%s bind the same %r although different values were passed (the positional one is dropped)" % (label, x))
print("\n".join(bad) or "a keyword naming a positionally filled parameter is refused")
sys.exit(1 if bad else 0)
