import sys
sys.path.insert(0, sys.argv[1] if len(sys.argv)>1 else "/repo")
from twosigma.memento import memento_function, Environment
from twosigma.memento.memento import MementoFunction
import tempfile
def f(x): return x
mf = memento_function(f)
v1 = mf.version()
clone = MementoFunction(f, register_fn=False)   # an unregistered wrapper of an already-versioned function
try:
    v2 = clone.version()
    print("ok", v1, v2); sys.exit(0 if v1 == v2 else 1)
except TypeError as e:
    print("DEFECT:", e); sys.exit(1)
