"""C04: the key / binding is NOT invariant under partial application when a keyword partial is followed by a positional partial.

add.partial(x=3) is documented (MementoFunctionBase.partial docstring) as the one-parameter function y -> 3 + y, and
add.partial(x=3)(1) == 4 holds.  Moving that call's positional argument into a further partial -- add.partial(x=3).partial(1)() --
must present the same binding {x: 3, y: 1}.  The real code binds partial positionals to parameter_names[0..] WITHOUT skipping the
parameters already bound by partial keywords (call positionals DO skip them), so the 1 overwrites x=3 and y stays unbound.

exit 1 when the defect shows, 0 otherwise.
"""
import sys, os, tempfile, logging
sys.path.insert(0, sys.argv[1] if len(sys.argv) > 1 else "/repo")
logging.disable(logging.CRITICAL)
import twosigma.memento as m
from twosigma.memento import Environment, ConfigurationRepository, FunctionCluster
from twosigma.memento.storage_filesystem import FilesystemStorageBackend

store = tempfile.mkdtemp()
m.Environment.set(Environment(name="a1", base_dir=store, repos=[ConfigurationRepository(name="r", clusters={
    "a1": FunctionCluster(name="a1", storage=FilesystemStorageBackend(path=os.path.join(store, "data")))})]))

LOG = os.path.join(store, 'body.log')      # a file, not a global list: the values of globals a function reads are part of its version


def body_log():
    return open(LOG).read().splitlines() if os.path.exists(LOG) else []


@m.memento_function(cluster="a1")
def f(a, b, c=None):
    with open(LOG, 'a') as fh:
        fh.write(repr((a, b, c)) + '\n')
    return [a, b, c]


bad = []
ref = f.fn_reference().with_args(1, 2, 3)
cases = {
    "f.partial(a=1)(2, 3)": lambda: (f.partial(a=1), (2, 3), {}),
    "f.partial(a=1).partial(2)(3)": lambda: (f.partial(a=1).partial(2), (3,), {}),
    "f.partial(a=1).partial(2, 3)()": lambda: (f.partial(a=1).partial(2, 3), (), {}),
    "f.partial(b=2)(1, 3)": lambda: (f.partial(b=2), (1, 3), {}),
    "f.partial(b=2).partial(1)(3)": lambda: (f.partial(b=2).partial(1), (3,), {}),
    "f.partial(b=2).partial(1, 3)()": lambda: (f.partial(b=2).partial(1, 3), (), {}),
}
print("reference f(1, 2, 3): effective kwargs", ref.effective_kwargs, "key", ref.arg_hash[:12])
for name, mk in cases.items():
    fn, a, k = mk()
    try:
        r = fn.fn_reference().with_args(*a, **k)
        eff, key = r.effective_kwargs, r.arg_hash
    except Exception as e:  # noqa
        eff, key = "raised %s: %s" % (type(e).__name__, e), None
    ok = key == ref.arg_hash
    print("%-34s effective kwargs %-32s key %s %s" % (name, eff, key and key[:12], "" if ok else "  <-- differs from f(1, 2, 3)"))
    if not ok:
        bad.append(name)

# observable through calls: the value bound by the keyword partial is silently dropped from what the body receives
f(1, 2, 3)
n = len(body_log())
try:
    got = f.partial(a=1).partial(2)(3)
except Exception as e:  # noqa
    got = "raised %s: %s" % (type(e).__name__, e)
print("f(1, 2, 3) then f.partial(a=1).partial(2)(3): returned", got, "; body ran again:", len(body_log()) > n, "; body received", body_log()[n:] or "-")
if got != [1, 2, 3] or len(body_log()) > n:
    bad.append("call")
if bad:
    print("VIOLATION (C04 invariance under partial application; value of a keyword partial overwritten by a later positional partial):", bad)
sys.exit(1 if bad else 0)
