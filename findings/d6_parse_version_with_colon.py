"""D6 (C12): a version string containing ':' was split into the module ('mod:fn#a:b' -> module 'mod:fn#a', function 'b').
Exit 1 while the defect is present."""
import itertools, sys
sys.path.insert(0, sys.argv[1] if len(sys.argv) > 1 else "/repo")
from twosigma.memento.reference import FunctionReference
bad = []
parts = ["", "a", ":", "#", "a:b", "x::y:z", "1.0#rc:2", "::", "#:"]
for c, m, f, v in itertools.product([None, "clu", "a:b", "c.d-e", "team#1", "x:", "a#b:c"], ["mod", "pkg.mod"], ["fn", "Cls.meth"], [None] + parts):
    name = (c + "::" if c is not None else "") + m + ":" + f + ("#" + v if v is not None else "")
    got = FunctionReference.parse_qualified_name(name)
    if (got["cluster"], got["module"], got["function"], got["version"]) != (c, m, f, v):
        bad.append((name, got))
print("mis-parsed: %d" % len(bad), bad[:3])
sys.exit(1 if bad else 0)
