"""C04: two calls binding DIFFERENT values of DIFFERENT types (a string-keyed dict vs a date / datetime / function) share one memo key,
and the body does not receive the value that was passed.

ArgumentHasher._encode copies a user dict verbatim, so the plain dict {"_mementoType": "date", "iso8601": "2020-01-01"} has the same
canonical JSON as datetime.date(2020, 1, 1); normalize (= _decode o _encode) then turns the user's dict into a date.  The dict is inside
the supported domain (string keys, string values) and passes validate_args.

exit 1 when the defect shows, 0 otherwise.
"""
import sys, os, tempfile, logging, datetime
sys.path.insert(0, sys.argv[1] if len(sys.argv) > 1 else "/repo")
logging.disable(logging.CRITICAL)
import twosigma.memento as m
from twosigma.memento import Environment, ConfigurationRepository, FunctionCluster
from twosigma.memento.storage_filesystem import FilesystemStorageBackend

store = tempfile.mkdtemp()
m.Environment.set(Environment(name="a1", base_dir=store, repos=[ConfigurationRepository(name="r", clusters={
    "a1": FunctionCluster(name="a1", storage=FilesystemStorageBackend(path=os.path.join(store, "data")))})]))

LOG = os.path.join(store, 'body.log')      # a file, not a global list: the values of globals a function reads are part of its version


def body_log():
    return open(LOG).read().splitlines() if os.path.exists(LOG) else []


@m.memento_function(cluster="a1")
def describe(x):
    with open(LOG, 'a') as fh:
        fh.write(repr(x) + '\n')
    return "%s:%r" % (type(x).__name__, x)


@m.memento_function(cluster="a1")
def other(p, q=None):
    return 0


bad = []
pairs = [
    (datetime.date(2020, 1, 1), {"_mementoType": "date", "iso8601": "2020-01-01"}),
    (datetime.datetime(2020, 1, 1, 12, 30), {"_mementoType": "datetime", "iso8601": "2020-01-01T12:30:00"}),
    ([datetime.date(2020, 1, 1)], [{"iso8601": "2020-01-01", "_mementoType": "date"}]),
]
for v1, v2 in pairs:
    k1 = describe.fn_reference().with_args(v1).arg_hash
    r2 = describe.fn_reference().with_args(v2)
    print("key(%r) = %s\nkey(%r) = %s" % (v1, k1[:12], v2, r2.arg_hash[:12]))
    if k1 == r2.arg_hash:
        bad.append("same key for %r and %r" % (v1, v2))
    if r2.effective_kwargs["x"] != v2:
        print("   body would receive %r instead of %r" % (r2.effective_kwargs["x"], v2))
        bad.append("normalisation changed %r" % (v2,))

# a dict whose tag is not one of the three: a legitimate dict is rejected
for v in ({"_mementoType": "money", "amount": 3}, {"_mementoType": None}):
    try:
        describe.fn_reference().with_args(v)
    except Exception as e:  # noqa
        print("with_args(%r) raised %s: %s" % (v, type(e).__name__, e))
        bad.append("rejected %r" % (v,))

# observable through calls
a = describe(datetime.date(2020, 1, 1))
n = len(body_log())
b = describe({"_mementoType": "date", "iso8601": "2020-01-01"})
print("describe(date) ->", a, "\ndescribe(dict) ->", b, "; body ran:", len(body_log()) > n)
if a == b:
    bad.append("describe(dict) served the result memoized for describe(date)")
describe.forget_all()
os.remove(LOG)
b = describe({"_mementoType": "date", "iso8601": "2020-01-01"})
print("fresh describe(dict) ->", b, "; body received", body_log())
if bad:
    print("VIOLATION (C04: key differs whenever a bound value or its type differs; body receives the values passed):")
    for x in bad:
        print("  -", x)
sys.exit(1 if bad else 0)
