import sys, os, shutil, tempfile, subprocess, json, importlib
sys.path.insert(0, (sys.argv[1] if len(sys.argv) > 1 else __import__("os").environ.get("PYVC_REPO", "/repo")))
def setup(name, files):
    d = os.path.join("/tmp/audit_A2/work", name)
    shutil.rmtree(d, ignore_errors=True); os.makedirs(d)
    for rel, src in files.items():
        open(os.path.join(d, rel), "w").write(src)
    open(os.path.join(d, "env.json"), "w").write('{"name": "a2"}')
    sys.path.insert(0, d)
    sys.dont_write_bytecode = True
    from twosigma.memento import Environment
    Environment.set(os.path.join(d, "env.json"))
    return d
def fresh_version(d, files, fn="f", mod="prog"):
    """version computed by a fresh process for the given program text"""
    d2 = d + "_fresh"
    shutil.rmtree(d2, ignore_errors=True); os.makedirs(d2)
    for rel, src in files.items():
        open(os.path.join(d2, rel), "w").write(src)
    code = "import sys; sys.path.insert(0,'/repo'); sys.path.insert(0,%r); import %s as m; print(m.%s.version())" % (d2, mod, fn)
    p = subprocess.run(["/venv/bin/python", "-c", code], capture_output=True, text=True, env=dict(os.environ, PYTHONDONTWRITEBYTECODE="1"))
    return p.stdout.strip() or p.stderr[-300:]
