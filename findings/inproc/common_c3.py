import sys, os, shutil, subprocess, importlib, logging
REPO = (sys.argv[1] if len(sys.argv) > 1 else os.environ.get("PYVC_REPO", "/repo"))
sys.path.insert(0, REPO)
sys.dont_write_bytecode = True
logging.disable(logging.CRITICAL)
import tempfile
WORK = tempfile.mkdtemp(prefix="c3demo_")
import atexit; atexit.register(lambda: shutil.rmtree(WORK, ignore_errors=True))
def setup(name, files, memcache=None):
    d = os.path.join(WORK, name)
    shutil.rmtree(d, ignore_errors=True); os.makedirs(d)
    for rel, src in files.items():
        p = os.path.join(d, rel); os.makedirs(os.path.dirname(p), exist_ok=True)
        open(p, "w").write(src)
    import twosigma.memento as m
    from twosigma.memento.storage_filesystem import FilesystemStorageBackend
    sys.path.insert(0, d)
    kw = {} if memcache is None else {"memory_cache_mb": memcache}
    m.Environment.set(m.Environment(name="c3", base_dir=d, repos=[m.ConfigurationRepository(name="r", clusters={
        "default": m.FunctionCluster(name="default", storage=FilesystemStorageBackend(path=os.path.join(d, "store"), **kw))})]))
    return d
def write(d, rel, src):
    open(os.path.join(d, rel), "w").write(src)
    importlib.invalidate_caches()
def fresh(d, files, expr="prog.f.version()", mods=("prog",), seed=None, store=None, pre=""):
    """evaluate expr in a fresh process over the given program files"""
    d2 = d + "_fresh"
    shutil.rmtree(d2, ignore_errors=True); os.makedirs(d2)
    for rel, src in files.items():
        p = os.path.join(d2, rel); os.makedirs(os.path.dirname(p), exist_ok=True)
        open(p, "w").write(src)
    envset = ""
    if store:
        envset = ("import twosigma.memento as m\nfrom twosigma.memento.storage_filesystem import FilesystemStorageBackend\n"
                  "m.Environment.set(m.Environment(name='c3', base_dir=%r, repos=[]))\n" % (store,))
    code = "import sys, logging; logging.disable(logging.CRITICAL); sys.path.insert(0,%r); sys.path.insert(0,%r)\n%s%s\n%s\nprint(repr(%s))" % (REPO, d2, envset, "\n".join("import " + x for x in mods), pre, expr)
    env = dict(os.environ, PYTHONDONTWRITEBYTECODE="1")
    if seed is not None:
        env["PYTHONHASHSEED"] = str(seed)
    p = subprocess.run(["/venv/bin/python", "-c", code], capture_output=True, text=True, env=env)
    return p.stdout.strip() or ("ERR " + p.stderr[-600:])
