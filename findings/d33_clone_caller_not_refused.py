"""C14: an auto-versioned memento function that calls a memento function outside its static closure must get UndeclaredDependencyError.
When the caller is invoked through ANY modifier clone (force_local / ignore_result / with_context_args / partial / with_prevent_further_calls ...)
the frame's memento_fn is the clone, clone_with() gave it explicit_version = <the automatic version>, and _validate_dependency returns early."""
import sys, os; sys.path.insert(0, os.path.join(os.path.dirname(os.path.abspath(__file__)), "inproc"))
from common_b4 import *
PROG = '''
from twosigma.memento import memento_function
@memento_function
def hidden(x):
    return x + 1
@memento_function
def f(x):
    return globals()["hid" + "den"](x) * 10        # dynamic call edge, not in the static closure
'''
d = setup("c14v1", {"prog.py": PROG})
import prog
from twosigma.memento.exception import UndeclaredDependencyError
print("auto version:", prog.f.explicit_version is None, "| static closure:", [g.qualified_name_without_version for g in prog.f.dependencies().transitive_memento_fn_dependencies()])
def attempt(label, call):
    try:
        r = call()
        return "%s -> returned %r (NOT refused)" % (label, r), False
    except UndeclaredDependencyError:
        return "%s -> UndeclaredDependencyError" % label, True
out = [attempt("f(1)", lambda: prog.f(1)),
       attempt("f.force_local()(2)", lambda: prog.f.force_local()(2)),
       attempt("f.with_context_args({'a': 1})(3)", lambda: prog.f.with_context_args({"a": 1})(3)),
       attempt("f.partial(4)()", lambda: prog.f.partial(4)()),
       attempt("f.call_batch via clone", lambda: prog.f.force_local().call_batch([{"x": 5}]))]
for s, ok in out: print(s)
bad = [s for s, ok in out if not ok]
if bad:
    print("VIOLATION: %d call forms of an auto-versioned caller reach the undeclared callee and return a result instead of UndeclaredDependencyError" % len(bad))
sys.exit(1 if bad else 0)
