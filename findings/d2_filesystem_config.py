"""Native reproduction of D2 (property C18): documented options of the filesystem backend given in a configuration
dict are ignored / lost by to_dict.  exit 0 = behaviour correct, exit 1 = defect present."""
import sys, tempfile, os
sys.path.insert(0, sys.argv[1] if len(sys.argv) > 1 else "/repo")
from twosigma.memento.storage_filesystem import FilesystemStorageBackend
bad = 0
d = tempfile.mkdtemp()
a = FilesystemStorageBackend(path=d, memory_cache_mb=5)
b = FilesystemStorageBackend(config={"path": d, "memory_cache_mb": 5})
if (a._memory_cache is None) != (b._memory_cache is None) or (b._memory_cache and b._memory_cache.memory_cache_bytes != a._memory_cache.memory_cache_bytes):
    print("memory_cache_mb from the configuration is ignored"); bad = 1
c = FilesystemStorageBackend(path=d, metadata_path=os.path.join(d, "meta"))
c2 = FilesystemStorageBackend(config=c.to_dict())
if c2.metadata_config_path != c.metadata_config_path:
    print("to_dict drops metadata_path:", c.to_dict()); bad = 1
sys.exit(bad)
