"""C11: "the emitted document is plain JSON ... other language implementations read" -- for NaN / infinity arguments (explicitly inside
the property's quantifier) the memento document written by the filesystem backend contains the bare tokens NaN / Infinity, which are
not JSON (RFC 8259); a strict reader rejects the file.  encode_arg copies the float into the document and json.dumps is called with the
default allow_nan=True.  (The Python round trip itself works: Python's json.loads accepts the tokens.)

exit 1 when a stored memento document is not strict JSON, 0 otherwise.
"""
import sys, os, glob, json, tempfile, logging
sys.path.insert(0, sys.argv[1] if len(sys.argv) > 1 else "/repo")
logging.disable(logging.CRITICAL)
import twosigma.memento as m
from twosigma.memento import Environment, ConfigurationRepository, FunctionCluster
from twosigma.memento.storage_filesystem import FilesystemStorageBackend

store = tempfile.mkdtemp()
m.Environment.set(Environment(name="a1", base_dir=store, repos=[ConfigurationRepository(name="r", clusters={
    "a1": FunctionCluster(name="a1", storage=FilesystemStorageBackend(path=os.path.join(store, "data")))})]))


@m.memento_function(cluster="a1")
def ident(x):
    return "ok"


def strict(text):
    def no(tok):
        raise ValueError("non-JSON token %s" % tok)
    return json.loads(text, parse_constant=no)


bad = []
for v in (1.5, float("nan"), float("inf"), [-float("inf")]):
    ident(v)
paths = sorted(os.path.join(r, x) for r, _, fs in os.walk(store) for x in fs if x.endswith(".memento.json"))
for path in paths:
    text = open(path).read()
    try:
        strict(text)
    except ValueError as e:
        i = max(text.find("NaN"), text.find("Infinity"))
        bad.append(path)
        print("not plain JSON (%s): ...%s..." % (e, text[max(0, i - 60): i + 12]))
print("documents checked:", len(paths), "; offending:", len(bad))
sys.exit(1 if bad else 0)
