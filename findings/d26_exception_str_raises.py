"""D26 (property C02): an exception whose __str__ raises (or returns a non-string) must still be recorded and replayed.

MementoException.from_exception called str(e) unguarded: the TypeError / RuntimeError of str() escaped memento_run_local -- the caller saw an
unrelated exception class, nothing was memoized and the body ran again on every call.
usage: d26_exception_str_raises.py [<checkout>]    exit 1 when the defect shows, 0 otherwise"""
import logging
import os
import sys
import tempfile
sys.path.insert(0, sys.argv[1] if len(sys.argv) > 1 else os.environ.get("PYVC_REPO", "/repo"))
logging.disable(logging.CRITICAL)
import twosigma.memento as m  # noqa: E402
from twosigma.memento import Environment, ConfigurationRepository, FunctionCluster  # noqa: E402
from twosigma.memento.storage_filesystem import FilesystemStorageBackend  # noqa: E402

RUNS = {"code": 0, "boom": 0}


class CodeError(Exception):
    def __str__(self):
        return self.args[0]          # an int: str() raises TypeError


class Boom(Exception):
    def __str__(self):
        raise RuntimeError("no text for you")


@m.memento_function(cluster="d26", auto_dependencies=False)
def f_code(x):
    RUNS["code"] += 1
    raise CodeError(x)


@m.memento_function(cluster="d26", auto_dependencies=False)
def f_boom(x):
    RUNS["boom"] += 1
    raise Boom(x)


bad = []
with tempfile.TemporaryDirectory() as store:
    m.Environment.set(Environment(name="d26", base_dir=store, repos=[ConfigurationRepository(name="r", clusters={
        "d26": FunctionCluster(name="d26", storage=FilesystemStorageBackend(path=os.path.join(store, "data")))})]))
    for fn, cls, key in ((f_code, CodeError, "code"), (f_boom, Boom, "boom")):
        seen = []
        for i in range(3):
            try:
                fn(5)
                seen.append("returned")
            except BaseException as e:  # noqa
                seen.append(type(e).__name__)
        ok_classes = (cls.__name__, "MementoException")
        if any(s not in ok_classes for s in seen):
            bad.append("%s(5) raised %r over three calls; expected %s (or the framework's MementoException) every time" % (fn.__name__, seen, cls.__name__))
        if RUNS[key] != 1:
            bad.append("%s(5): the body ran %d times in three calls (nothing was memoized)" % (fn.__name__, RUNS[key]))
print("\n".join(bad) or "exceptions with a failing __str__ are recorded and replayed")
sys.exit(1 if bad else 0)
