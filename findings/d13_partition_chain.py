"""D13 (property C17): a chain of merged partitions evaluated in one go loses the grandparent's keys.

c() builds a partition whose merge parent is b()'s result; b()'s merge parent is a()'s result.  When b() has just been
computed (or comes from the memory cache) c() holds the in-memory partition object of b, whose _output_keys record only
b's OWN keys -- PicklePartitionStrategy.store takes that as the parent's index, so the key that only a() has is missing from
what is stored for c().

usage: d13_partition_chain.py [<checkout>]   exit 1 when the defect shows, 0 otherwise
"""
import logging
import os
import sys
import tempfile

CHECKOUT = os.path.abspath(sys.argv[1] if len(sys.argv) > 1 else "/repo")
sys.path.insert(0, CHECKOUT)
logging.disable(logging.CRITICAL)
import twosigma.memento as m  # noqa: E402
from twosigma.memento import Environment, ConfigurationRepository, FunctionCluster  # noqa: E402
from twosigma.memento.partition import InMemoryPartition  # noqa: E402
from twosigma.memento.storage_filesystem import FilesystemStorageBackend  # noqa: E402


@m.memento_function(cluster="d13")
def part_a():
    return InMemoryPartition({"a": 1, "b": 2})


@m.memento_function(cluster="d13")
def part_b():
    p = InMemoryPartition({"b": 3, "c": 4})
    p._merge_parent = part_a()
    return p


@m.memento_function(cluster="d13")
def part_c():
    p = InMemoryPartition({"c": 5, "d": 6})
    p._merge_parent = part_b()
    return p


def set_env(store, cache_mb):
    m.Environment.set(Environment(name="d13", base_dir=store, repos=[ConfigurationRepository(name="r", clusters={
        "d13": FunctionCluster(name="d13", storage=FilesystemStorageBackend(path=os.path.join(store, "data"), memory_cache_mb=cache_mb))})]))


bad = []
for cache_mb in (0, 16):
    with tempfile.TemporaryDirectory() as store:
        set_env(store, cache_mb)
        first = part_c()                      # evaluates a, b, c in one go
        live = {k: first.get(k) for k in first.list_keys()}
        set_env(store, cache_mb)              # fresh backend objects: read what was stored
        stored = part_c()
        try:
            got = {k: stored.get(k) for k in stored.list_keys()}
        except Exception as e:  # noqa
            got = "raised %s: %s" % (type(e).__name__, e)
        want = {"a": 1, "b": 3, "c": 5, "d": 6}
        if live != want:
            bad.append("memory_cache_mb=%d: the partition returned by the first call reads %r, expected %r" % (cache_mb, live, want))
        if got != want:
            bad.append("memory_cache_mb=%d: the stored partition of part_c() reads back %r, expected %r" % (cache_mb, got, want))
print("\n".join(bad) or "chain of three merged partitions round-trips")
sys.exit(1 if bad else 0)
