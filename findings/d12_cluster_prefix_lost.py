import sys
sys.path.insert(0, sys.argv[1] if len(sys.argv) > 1 else "/repo")
from twosigma.memento.reference import FunctionReference
qn = "clu::no_such_mod:f#x::y"
r = FunctionReference.from_qualified_name(qn)
print(repr(r.qualified_name), "cluster:", r.cluster_name)
sys.exit(0 if r.qualified_name == qn else 1)
