"""Native reproduction of D3/D4 (property C05): stale value served after re-memoizing under the same call.
exit 0 = behaviour correct, exit 1 = defect present."""
import sys, tempfile, numpy as np
sys.path.insert(0, sys.argv[1] if len(sys.argv) > 1 else "/repo")
from twosigma.memento.storage_base import MemoryCache
from twosigma.memento.metadata import Memento, InvocationMetadata, ResultType
from twosigma.memento.reference import FunctionReferenceWithArguments
from twosigma.memento import memento_function
import datetime

@memento_function
def f(x): return x

def mk():
    ref = f.fn_reference().with_args(1)
    return Memento(time=datetime.datetime.now(datetime.timezone.utc), invocation_metadata=InvocationMetadata(fn_reference_with_args=ref, invocations=[], resources=[], runtime=datetime.timedelta(0), result_type=ResultType.string), function_dependencies=set(), runner={}, correlation_id="c", content_key=None)

bad = 0
# D3: small then oversize under the same key
c = MemoryCache(0.0001)  # ~104 bytes budget
m = mk()
c.put(m, "a", True)
big = "x" * 1000
c.put(m, big, True)
try:
    got = c.read_result(m)
    if got != big:
        print("D3: stale resident served:", repr(got)[:20]); bad = 1
except KeyError:
    pass
# D4: weakref-able then non-weakref-able value, then evict the strong entry
c = MemoryCache(0.001)
arr = np.arange(3)
c.put(m, arr, True)
c.put(m, "hello", True)
c._evict(MemoryCache._cache_key_for_memento(m))
try:
    got = c.read_result(m)
    if not (isinstance(got, str) and got == "hello"):
        print("D4: stale weak reference served:", type(got)); bad = 1
except KeyError:
    pass
sys.exit(bad)
