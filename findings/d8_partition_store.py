import sys, tempfile
sys.path.insert(0, sys.argv[1] if len(sys.argv) > 1 else "/repo")
from twosigma.memento.storage_filesystem import OnDiskPartition, _FilesystemDataSource
from twosigma.memento.storage_base import DefaultCodec
from twosigma.memento.partition import InMemoryPartition
bad = []
with tempfile.TemporaryDirectory() as d:
    ds = _FilesystemDataSource(d)
    codec = DefaultCodec(config={})
    strat = DefaultCodec.PicklePartitionStrategy(codec)
    # 1. an on-disk partition stays usable after it has been stored (it is what the first caller holds)
    p = OnDiskPartition()
    p["a"] = 1
    strat.store(ds, None, p)
    try:
        assert p.get("a") == 1
    except BaseException as e:
        bad.append("OnDiskPartition unusable after store: %s: %s" % (type(e).__name__, e))
    # 2. an in-memory partition that was stored can serve as the merge parent of a later one
    parent = InMemoryPartition({"x": 10})
    strat.store(ds, None, parent)
    child = InMemoryPartition({"y": 20})
    child._merge_parent = parent
    try:
        key = strat.store(ds, None, child)
        merged = strat.load(ds, key)
        assert sorted(merged.list_keys()) == ["x", "y"] and merged.get("x") == 10 and merged.get("y") == 20
    except BaseException as e:
        bad.append("stored in-memory parent cannot be merged: %s: %s" % (type(e).__name__, e))
print("\n".join(bad) or "C17 staging/merge scenarios hold")
sys.exit(1 if bad else 0)
