"""C12: 'However the code base changes afterwards ... reading stored metadata never raises: an entry whose own version is current is served'
(quantifier: callee edited with the caller's version pinned).  Also C11's assumed contract of from_qualified_name
('result.parameter_names == parameter_names') is false for a function that is FOUND.
A stored reference carries the parameter names its positional arguments were bound with.  from_qualified_name ignores them whenever the named
function with that version still exists and re-binds the stored positional arguments against the CURRENT signature.  An explicit version is
precisely the promise 'edits do not change the version'; after such an edit of the callee's parameter list
  (a) dropped trailing parameter: decoding any memento that mentions the old call raises ValueError('More arguments provided ...') --
      the caller's own, still current entry cannot be served (top(1) raises instead of returning 30), memento()/list_mementos() raise;
  (b) renamed / reordered parameters: nothing raises, but the decoded invocation gets another argument hash than the entry it refers to,
      so the recorded invocation can no longer be found in the store.
exit 1 when either shows."""
import sys
import os, sys
REPO = (sys.argv[1] if len(sys.argv) > 1 else __import__("os").environ.get("PYVC_REPO", "/repo"))
os.environ["PYVC_REPO"] = REPO
sys.path.insert(0, REPO)
sys.path.insert(0, os.path.dirname(os.path.abspath(__file__)))
from hist_b3 import run
V1 = '''
    import twosigma.memento as m
    @m.memento_function(cluster="c1", version="1")
    def dep(a, b):
        return a + b
    @m.memento_function(cluster="c1", version="1")
    def top(x):
        return dep(x, 2) * 10
'''
V2A = V1.replace("def dep(a, b):\n        return a + b", "def dep(a):\n        return a + 2").replace("dep(x, 2)", "dep(x)")
V2B = V1.replace("def dep(a, b):", "def dep(b, a):")
S1 = 'import lib\nprint("top(1) =", lib.top(1))\n'
S2 = '''
import lib
bad = 0
for what, f in [("top(1)", lambda: lib.top(1)), ("top.memento(1)", lambda: lib.top.memento(1) is not None), ("top.list_mementos()", lambda: len(lib.top.list_mementos())),
                ("dep.list_mementos()", lambda: len(lib.dep.list_mementos()))]:
    try:
        print(what, "->", f())
    except BaseException as e:
        bad += 1; print(what, "RAISED", type(e).__name__, e)
if not bad:
    me = lib.top.memento(1)
    store = m.Environment.get().get_cluster("c1").storage
    for inv in me.invocation_metadata.invocations:
        found = store.get_memento(inv.fn_reference_with_arg_hash())
        print("recorded invocation", inv.fn_reference.qualified_name, inv.effective_kwargs, inv.arg_hash[:12], "found in store:", found is not None)
        bad += found is None
sys.exit(1 if bad else 0)
'''
rc = 0
for tag, v2 in (("(a) parameter dropped", V2A), ("(b) parameters reordered", V2B)):
    outs = run([({"lib.py": V1}, S1), ({"lib.py": v2}, S2)])
    print("=====", tag); print(outs[0][1].strip()); print(outs[1][1].strip()); print(outs[1][2][-300:])
    rc |= outs[1][0] != 0
print("VIOLATION" if rc else "stored entries readable")
sys.exit(1 if rc else 0)
