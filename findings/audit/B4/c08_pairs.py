import sys, os
sys.path.insert(0, "/tmp/audit2_B4")
from c08_enum import *
def pairs(title, prior, name, obs):
    _, _, logs = run(prior, [name], obs, [])
    log = logs[0]
    bad = tried = 0
    for (n, pname, path) in log:
        for flt in FAULTS[pname]:
            # second attempt: its primitive log depends on the first fault; enumerate up to len(log)+2 positions with every fault kind of any primitive name
            _, _, logs2 = run(prior, [name, name], obs, [(n, flt)])
            if len(logs2) < 2: continue
            for (n2, pname2, path2) in logs2[1]:
                for flt2 in FAULTS[pname2]:
                    fired, problems, _ = run(prior, [name, name], obs, [(n, flt), (n2, flt2)])
                    tried += 1
                    if problems:
                        bad += 1
                        print("  VIOLATION %s: %s@#%d %s then %s@#%d %s: %s" % (title, flt, n, pname, flt2, n2, pname2, "; ".join(problems[:2])[:400]))
    print("%s: %d fault pairs, %d violating" % (title, tried, bad))
    return bad
if __name__ == "__main__":
    t = 0
    t += pairs("s1 twice on empty", [], "s1", ["s1", "s2"])
    t += pairs("s2 twice after s1", ["s1"], "s2", ["s1", "s2"])
    t += pairs("vo4 twice after vo3", ["vo3"], "vo4", ["vo3", "vo4", "no1"])
    sys.exit(1 if t else 0)
