from twosigma.memento import memento_function

def helper(x):
    return x + 1
helper_v1 = helper
def helper(x):
    return x + 2

@memento_function
def g(x):
    return x * 2
g_v1 = g
@memento_function
def g(x):
    return x * 3

@memento_function
def uses_plain(x):
    return helper_v1(x) + helper(x)

@memento_function
def uses_memento(x):
    return g_v1(x) + g(x)
