from twosigma.memento import memento_function
@memento_function
def k1(x):
    return x in {b"a", b"b", "a", 1, 2.0, None, (1, frozenset({"x", "y"})), ..., 3j, -0.0, 10**40, True}
@memento_function
def k2(x):
    return (x in {("a", ("b", frozenset({"p", "q", "r"}))), ("c",)}, x in {frozenset({"u", "v"}), frozenset({"w"})}) if False else x in (frozenset({"m", "n"}), {"o", "p"})
@memento_function
def k3(x):
    a = 1e999 - 1e999
    b = (-0.0, 0.0, 1e999, -1e999)
    return x in {"é", "\ud800", "a'b", 'a"b', b"\xff"} or a or b
@memento_function
def k4(x):
    def inner(y):
        return y in {"k", "l", "m", "n", "o", "p"}
    return [z for z in x if z in {"aa", "bb", "cc"}] + [inner(x), lambda q: q in {"l1", "l2", "l3"}]
@memento_function
def k5(x):
    match x:
        case "s1" | "s2" | "s3":
            return 1
    return x in {(), ((),), (((),),)} or x in {0, False} or x in {1, 1.0, True} or x in {"1", b"1"}
