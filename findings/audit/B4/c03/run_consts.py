import sys, os, subprocess, json
code = "import sys, logging; logging.disable(logging.CRITICAL); sys.path.insert(0,'/repo'); sys.path.insert(0,'/tmp/audit2_B4/c03'); import constmod, json; print(json.dumps({n: getattr(constmod, n).version() for n in ('k1','k2','k3','k4','k5')}))"
res = {}
for seed in ["0", "1", "2", "3", "4", "5", "17", "123", "4242", "random"]:
    p = subprocess.run(["/venv/bin/python", "-c", code], env=dict(os.environ, PYTHONHASHSEED=seed, PYTHONDONTWRITEBYTECODE="1"), capture_output=True, text=True)
    if not p.stdout.strip():
        print(p.stderr[-800:]); sys.exit(2)
    res[seed] = json.loads(p.stdout)
bad = 0
for n in res["0"]:
    vs = {res[s][n] for s in res}
    print(n, vs)
    bad += len(vs) > 1
sys.exit(1 if bad else 0)
