"""C03: two different function objects with one module:qualname (a function kept under an alias and then redefined -- plain or memento) get ONE rule
key ('Function;<parent>;mod:helper' / 'MementoFunction;<parent>;mod:g'); HashRule.__eq__/__hash__ by key make the rule set keep whichever is met
first, and the traversal iterates a set of names: the version depends on PYTHONHASHSEED."""
import sys, os, subprocess, json
code = "import sys, logging; logging.disable(logging.CRITICAL); sys.path.insert(0,'/repo'); sys.path.insert(0,'/tmp/audit2_B4/c03'); import collmod, json; print(json.dumps({n: getattr(collmod, n).version() for n in ('uses_plain','uses_memento')}))"
res = {}
for seed in [str(i) for i in range(12)]:
    p = subprocess.run(["/venv/bin/python", "-c", code], env=dict(os.environ, PYTHONHASHSEED=seed, PYTHONDONTWRITEBYTECODE="1"), capture_output=True, text=True)
    if not p.stdout.strip():
        print(p.stderr[-800:]); sys.exit(2)
    res[seed] = json.loads(p.stdout)
bad = 0
for n in res["0"]:
    by = {}
    for s in res: by.setdefault(res[s][n], []).append(s)
    print(n, by)
    if len(by) > 1:
        bad += 1; print("VIOLATION: version of %s differs between processes with different hash seeds" % n)
sys.exit(1 if bad else 0)
