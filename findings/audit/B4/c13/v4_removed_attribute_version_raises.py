"""C13 ('asking a function for its version succeeds'): a tracked dotted symbol (helpers.K, helpers.util) is removed from its module
(del helpers.K -- e.g. the first half of 'replace the plain function by something else', with a version query in between).  The dotted-name
resolver is getattr(<module>, name) without a default: did_change() raises AttributeError out of version() / fn_reference() / the call itself.
A fresh process on the resulting program computes a version (the symbol is simply undefined there)."""
import sys; sys.path.insert(0, "/tmp/audit2_B4/c13")
from common import *
HELP = "K = 5\ndef util(x):\n    return x + 1\n"
PROG = '''
from twosigma.memento import memento_function
import helpers
@memento_function
def f(x):
    return helpers.util(x) + helpers.K if hasattr(helpers, "K") and hasattr(helpers, "util") else -1
'''
d = setup("v4", {"prog.py": PROG, "helpers.py": HELP})
import prog, helpers
prog.f.version(); prog.f(1)
bad = []
for name, newsrc in (("K", "def util(x):\n    return x + 1\n"), ("util", "\n")):
    delattr(helpers, name)
    truth = fresh_version(d, {"prog.py": PROG, "helpers.py": newsrc})
    try:
        v = prog.f.version()
        print("after del helpers.%s: version %s, fresh process %s" % (name, v, truth))
        if v != truth: bad.append("stale version after del helpers.%s" % name)
    except Exception as e:
        print("after del helpers.%s: version() raised %s: %s | fresh process: %s" % (name, type(e).__name__, e, truth))
        bad.append("version() raised %s after del helpers.%s" % (type(e).__name__, name))
        try: prog.f(1)
        except Exception as e2: print("   and calling f(1) raises %s" % type(e2).__name__)
for b in bad: print("VIOLATION:", b)
sys.exit(1 if bad else 0)
