import sys, os, shutil, subprocess, importlib, logging
sys.path.insert(0, "/repo")
sys.dont_write_bytecode = True
logging.disable(logging.CRITICAL)
WORK = "/tmp/audit2_B4/work"
def setup(name, files):
    d = os.path.join(WORK, name)
    shutil.rmtree(d, ignore_errors=True); os.makedirs(d)
    for rel, src in files.items():
        open(os.path.join(d, rel), "w").write(src)
    import twosigma.memento as m
    from twosigma.memento.storage_filesystem import FilesystemStorageBackend
    sys.path.insert(0, d)
    m.Environment.set(m.Environment(name="b4", base_dir=d, repos=[m.ConfigurationRepository(name="r", clusters={
        "default": m.FunctionCluster(name="default", storage=FilesystemStorageBackend(path=os.path.join(d, "store")))})]))
    return d
def write(d, rel, src):
    open(os.path.join(d, rel), "w").write(src)
    importlib.invalidate_caches()
def fresh_version(d, files, expr="prog.f.version()", mods=("prog",), seed=None):
    d2 = d + "_fresh"
    shutil.rmtree(d2, ignore_errors=True); os.makedirs(d2)
    for rel, src in files.items():
        open(os.path.join(d2, rel), "w").write(src)
    code = "import sys, logging; logging.disable(logging.CRITICAL); sys.path.insert(0,'/repo'); sys.path.insert(0,%r)\n%s\nprint(%s)" % (d2, "\n".join("import " + x for x in mods), expr)
    env = dict(os.environ, PYTHONDONTWRITEBYTECODE="1")
    if seed is not None:
        env["PYTHONHASHSEED"] = str(seed)
    p = subprocess.run(["/venv/bin/python", "-c", code], capture_output=True, text=True, env=env)
    return p.stdout.strip() or ("ERR " + p.stderr[-400:])
