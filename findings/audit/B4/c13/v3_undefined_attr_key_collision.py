"""C13 ('defining a previously undefined symbol'): two undefined attributes with the same last component (a.helper, b.helper) get ONE
UndefinedSymbolHashRule key 'UndefinedSymbol;<parent>;helper' -> the rule set keeps one of them; defining the attribute whose rule was dropped is
not noticed in-process.  Which one is dropped depends on set iteration order (hash seed): both definitions x 4 seeds are tried in child processes."""
import sys, os, subprocess; sys.path.insert(0, "/tmp/audit2_B4/c13")
PROG = '''
from twosigma.memento import memento_function
import a, b
@memento_function
def f(x):
    r = x
    if hasattr(a, "helper"):
        r += a.helper(x)
    if hasattr(b, "helper"):
        r += b.helper(x)
    return r
'''
def child(modname):
    from common import setup, fresh_version
    d = setup("v3_%s_%s" % (modname, os.environ.get("PYTHONHASHSEED")), {"prog.py": PROG, "a.py": "A = 1\n", "b.py": "B = 1\n"})
    import prog, importlib
    mod = importlib.import_module(modname)
    v0 = prog.f.version(); r0 = prog.f(1)
    src = "def helper(x):\n    return 100\n"
    from common import write
    write(d, modname + ".py", open(mod.__file__).read() + src); importlib.reload(mod)      # define the previously undefined symbol (edit + reload)
    v1 = prog.f.version(); r1 = prog.f(1)
    files = {"prog.py": PROG, "a.py": "A = 1\n", "b.py": "B = 1\n"}
    files[modname + ".py"] += src
    truth = fresh_version(d, files)
    print("seed %s: defined %s.helper: version %s -> %s (fresh process %s), result %s -> %s (un-memoized %s)%s" % (
        os.environ.get("PYTHONHASHSEED"), modname, v0, v1, truth, r0, r1, prog.f.fn(1), "" if v1 == truth else "   <-- STALE; rules kept: %s" % [r.key for r in prog.f._hash_rules if "Undefined" in r.key]))
    sys.exit(0 if (v1 == truth and r1 == 101) else 1)
if len(sys.argv) > 1:
    child(sys.argv[1])
bad = 0
for seed in "0123":
    for modname in "ab":
        p = subprocess.run([sys.executable, __file__, modname], env=dict(os.environ, PYTHONHASHSEED=seed), capture_output=True, text=True)
        print(p.stdout.strip() or p.stderr[-300:])
        bad += p.returncode != 0
if bad:
    print("VIOLATION: %d of 8 (seed, symbol) cases: defining a previously undefined symbol leaves the cached version in place" % bad)
sys.exit(1 if bad else 0)
