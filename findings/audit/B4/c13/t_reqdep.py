import sys; sys.path.insert(0, "/tmp/audit2_B4/c13")
from common import *
PROG = '''
from twosigma.memento import memento_function
@memento_function
def g(x):
    return x + 1
@memento_function(dependencies=[g])
def f(x):
    return x
'''
d = setup("reqdep", {"prog.py": PROG})
import prog
from twosigma.memento.memento import MementoFunction as MF
g0 = MF._global_fn_generation
v = [prog.f.version() for i in range(3)]
print("gen", g0, "->", MF._global_fn_generation, v, [ (r.key, r.did_change()) for r in prog.f._hash_rules])
# redefine g in-process (edit + reload redefines f too) -> instead exec a new g into the module
PROG2 = PROG.replace("x + 1", "x + 2")
src = "@memento_function\ndef g(x):\n    return x + 2\n"
exec(compile(src, "<x>", "exec"), prog.__dict__)
print("after redefining g:", prog.f.version(), "fresh:", fresh_version(d, {"prog.py": PROG2}))
