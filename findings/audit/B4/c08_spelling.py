import os, sys, shutil, logging
sys.path.insert(0, "/repo"); sys.path.insert(0, "/tmp/audit2_B4"); sys.dont_write_bytecode = True
logging.disable(logging.CRITICAL)
import twosigma.memento as m
from twosigma.memento.storage_filesystem import FilesystemStorageBackend as FSB
import c08_mod as M
W = "/tmp/audit2_B4/work/spell"; shutil.rmtree(W, ignore_errors=True); os.makedirs(W + "/cwd1"); os.makedirs(W + "/cwd2")
def env(path):
    m.Environment.set(m.Environment(name="e", base_dir=W, repos=[m.ConfigurationRepository(name="repo", clusters={"c08": m.FunctionCluster(name="c08", storage=FSB(path=path))})]))
def obs(label):
    out = []
    for i in range(3):
        c0 = dict(M.CALLS)
        try:
            r = (M.same1(3), M.same2(3), {k: M.pb().get(k) for k in M.pb().list_keys()})
        except Exception as e:
            r = "RAISED %s: %s" % (type(e).__name__, e)
        out.append((r, {k: M.CALLS.get(k, 0) - c0.get(k, 0) for k in ("same1", "same2", "pa", "pb")}))
    print(label); [print("   ", o) for o in out]
os.chdir(W + "/cwd1"); env("store"); obs("relative path 'store' from cwd1 (writes)")
os.chdir(W + "/cwd2"); env(W + "/cwd1/store"); obs("absolute spelling of the same store from cwd2")
os.chdir(W + "/cwd1"); env("store"); obs("relative again from cwd1")
shutil.copytree(W + "/cwd1/store", W + "/copy"); env(W + "/copy"); obs("copy of the store, original still there")
shutil.rmtree(W + "/cwd1/store"); env(W + "/copy"); obs("copy of the store, original deleted")
os.symlink(W + "/copy", W + "/lnk"); env(W + "/lnk"); obs("through a symlink")
