import datetime
import numpy as np, pandas as pd
import twosigma.memento as m
from twosigma.memento.partition import InMemoryPartition
from twosigma.memento.storage_filesystem import OnDiskPartition
VALS = {"none": None, "t": True, "i": 3, "fl": 2.5, "s": "x", "b": b"\x00\x01", "d": datetime.date(2020, 1, 2), "ts": datetime.datetime(2020, 1, 2, 3, 4, 5),
        "l": [1, "a", None], "dct": {"a": [1]}, "arr": np.array([1, 2, 3], dtype="int64"), "ser": pd.Series([1, 2]), "df": pd.DataFrame({"a": [1]}),
        "": "emptykey", "a/b": "slash", "k:#?*": "special", "nested": None}
@m.memento_function(cluster="c17")
def p_none():
    return InMemoryPartition({"a": 1, "n": None})
@m.memento_function(cluster="c17")
def p_none_ondisk():
    p = OnDiskPartition(); p["a"] = 1; p["n"] = None
    return p
@m.memento_function(cluster="c17")
def p_empty():
    return InMemoryPartition({})
@m.memento_function(cluster="c17")
def p_child_of_empty():
    p = InMemoryPartition({"x": 1}); p._merge_parent = p_empty(); return p
@m.memento_function(cluster="c17")
def p_base():
    return InMemoryPartition({"a": 1, "b": [1, 2], "n": None})
@m.memento_function(cluster="c17")
def p_empty_child():
    p = InMemoryPartition({}); p._merge_parent = p_base(); return p
@m.memento_function(cluster="c17")
def p_shadow():
    p = InMemoryPartition({"b": "now a string", "a": None}); p._merge_parent = p_base(); return p
@m.memento_function(cluster="c17")
def p_shadow_ondisk():
    p = OnDiskPartition(); p["b"] = {"now": "dict"}; p._merge_parent = p_base(); return p
@m.memento_function(cluster="c17")
def p_keys():
    return InMemoryPartition({"": "emptykey", "a/b": "slash", "k:#?*": "special", "Z": 1, "a": 2, "é": 3})
@m.memento_function(cluster="c17")
def p_nested():
    return InMemoryPartition({"in": InMemoryPartition({"j": "k"}), "v": 1})
@m.memento_function(cluster="c17")
def p_pass():
    return p_shadow()
