import sys, os, shutil, logging
sys.path.insert(0, "/repo"); sys.path.insert(0, "/tmp/audit2_B4/c17"); sys.dont_write_bytecode = True
logging.disable(logging.CRITICAL)
import twosigma.memento as m
from twosigma.memento.storage_filesystem import FilesystemStorageBackend as FSB
import pmod
CACHE = int(os.environ.get("CACHE_MB", "0")) or None
store = "/tmp/audit2_B4/work/c17store"; shutil.rmtree(store, ignore_errors=True)
def env():
    m.Environment.set(m.Environment(name="e", base_dir=store, repos=[m.ConfigurationRepository(name="r", clusters={"c17": m.FunctionCluster(name="c17", storage=FSB(path=store + "/data", memory_cache_mb=CACHE))})]))
def view(p):
    return {k: (view(p.get(k)) if hasattr(p.get(k), "list_keys") else p.get(k)) for k in p.list_keys()}
EXP = {"p_none": {"a": 1, "n": None}, "p_none_ondisk": {"a": 1, "n": None}, "p_empty": {}, "p_child_of_empty": {"x": 1}, "p_base": {"a": 1, "b": [1, 2], "n": None},
       "p_empty_child": {"a": 1, "b": [1, 2], "n": None}, "p_shadow": {"a": None, "b": "now a string", "n": None}, "p_shadow_ondisk": {"a": 1, "b": {"now": "dict"}, "n": None},
       "p_keys": {"": "emptykey", "a/b": "slash", "k:#?*": "special", "Z": 1, "a": 2, "é": 3}, "p_nested": {"in": {"j": "k"}, "v": 1}, "p_pass": {"a": None, "b": "now a string", "n": None}}
bad = 0
for name, exp in EXP.items():
    for phase in ("first call", "same process again", "new backend (from disk)"):
        if phase.startswith("new"): env()
        elif phase == "first call": env()
        try:
            r = getattr(pmod, name)()
            v = view(r)
            ok = v == exp and list(r.list_keys()) == sorted(exp)
            msg = "%s %s: %s %r" % (name, phase, type(r).__name__, v)
        except Exception as e:
            ok = False; msg = "%s %s: raised %s: %s" % (name, phase, type(e).__name__, e)
        if not ok:
            bad += 1; print("BAD ", msg, "expected", exp)
    print("done", name)
sys.exit(1 if bad else 0)
