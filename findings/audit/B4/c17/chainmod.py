import os, json
import twosigma.memento as m
from twosigma.memento.partition import InMemoryPartition
from twosigma.memento.storage_filesystem import OnDiskPartition
SPEC = json.loads(os.environ.get("CHAIN_SPEC", "[]"))   # list of {"kind": "mem"|"disk", "data": {...}}
def build(i):
    s = SPEC[i]
    if s["kind"] == "mem":
        p = InMemoryPartition(dict(s["data"]))
    else:
        p = OnDiskPartition()
        for k, v in s["data"].items():
            p[k] = v
    return p
def mk(i):
    def level():
        p = build(i)
        if i > 0:
            p._merge_parent = LEVELS[i - 1]()
        return p
    level.__name__ = level.__qualname__ = "level%d" % i
    return m.memento_function(cluster="c17", version=os.environ.get("CHAIN_VER", "v"), dependencies=None)(level)
LEVELS = []
for _i in range(len(SPEC)):
    LEVELS.append(mk(_i))
    globals()["level%d" % _i] = LEVELS[-1]
