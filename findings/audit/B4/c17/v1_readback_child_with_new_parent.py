"""C17: a partition that was read back from the store (PicklePartition) is given a merge parent and returned (the documented way to merge: set
_merge_parent, a field of the Partition base class).  Overlay law: parent's entries overlaid by the partition's own.
 - in memory PicklePartition.get / list_keys ignore _merge_parent: the object returned by the computing call lacks the parent's keys;
 - store() takes list_keys(False) of the child: the keys the child had inherited when IT was written are dropped from the stored result.
So the first call, later calls, and the same program with an in-memory child give three different answers."""
import sys, os, shutil, logging
sys.path.insert(0, "/repo"); sys.path.insert(0, "/tmp/audit2_B4/c17"); sys.dont_write_bytecode = True
logging.disable(logging.CRITICAL)
import twosigma.memento as m
from twosigma.memento.storage_filesystem import FilesystemStorageBackend as FSB
import vmod1
store = "/tmp/audit2_B4/work/c17v1"; shutil.rmtree(store, ignore_errors=True)
def env():
    m.Environment.set(m.Environment(name="e", base_dir=store, repos=[m.ConfigurationRepository(name="r", clusters={"c17": m.FunctionCluster(name="c17", storage=FSB(path=store + "/data"))})]))
def view(p):
    out = {}
    for k in p.list_keys():
        out[k] = p.get(k)
    return out
env(); vmod1.layered(); vmod1.other()          # process 1: both inputs are memoized
env()                                         # process 2 (fresh backend): layered() and other() are read back from disk
EXPECTED = {"a": 10, "b": 20, "n": 3, "z": 26}          # other = {z:26, b:-1} overlaid by layered = {a:10, b:20, n:3 (inherited from base)}
r1 = vmod1.remerged(); v1 = view(r1)
env()
r2 = vmod1.remerged(); v2 = view(r2)
print("computing call returned", type(r1).__name__, v1)
print("later call returned    ", type(r2).__name__, v2)
print("overlay law expects    ", EXPECTED)
bad = []
if v1 != EXPECTED: bad.append("object returned by the computing call: %r" % v1)
if v2 != EXPECTED: bad.append("stored result: %r" % v2)
if v1 != v2: bad.append("memoized result differs from the returned one")
for b in bad: print("VIOLATION:", b)
sys.exit(1 if bad else 0)
