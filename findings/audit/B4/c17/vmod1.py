import twosigma.memento as m
from twosigma.memento.partition import InMemoryPartition
@m.memento_function(cluster="c17")
def base():
    return InMemoryPartition({"n": 3, "b": 2})
@m.memento_function(cluster="c17")
def layered():
    p = InMemoryPartition({"a": 10, "b": 20}); p._merge_parent = base(); return p
@m.memento_function(cluster="c17")
def other():
    return InMemoryPartition({"z": 26, "b": -1})
@m.memento_function(cluster="c17")
def remerged():
    p = layered()                 # read back from the store: a PicklePartition whose index has an inherited entry (n)
    p._merge_parent = other()
    return p
