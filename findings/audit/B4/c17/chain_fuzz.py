import sys, os, shutil, logging, random, json, subprocess
sys.path.insert(0, "/repo"); sys.path.insert(0, "/tmp/audit2_B4/c17"); sys.dont_write_bytecode = True
logging.disable(logging.CRITICAL)
def child():
    import twosigma.memento as m
    from twosigma.memento.storage_filesystem import FilesystemStorageBackend as FSB
    spec = json.loads(os.environ["CHAIN_SPEC"]); plan = json.loads(os.environ["CHAIN_PLAN"]); cache = int(os.environ.get("CACHE_MB", "0")) or None
    store = os.environ["CHAIN_STORE"]
    def env():
        m.Environment.set(m.Environment(name="e", base_dir=store, repos=[m.ConfigurationRepository(name="r", clusters={"c17": m.FunctionCluster(name="c17", storage=FSB(path=store + "/data", memory_cache_mb=cache))})]))
    env()
    import chainmod
    model = []
    cur = {}
    for s in spec:
        cur = dict(cur); cur.update(s["data"]); model.append(cur)
    bad = []
    for step in plan:       # ("call", i) | ("restart",)
        if step[0] == "restart":
            env(); continue
        i = step[1]
        try:
            r = chainmod.LEVELS[i]()
            v = {k: r.get(k) for k in r.list_keys()}
            each = all(r.get(k) == model[i][k] for k in model[i])
            if v != model[i] or list(r.list_keys()) != sorted(model[i]) or not each:
                bad.append("step %s: level%d -> %s %r expected %r" % (step, i, type(r).__name__, v, model[i]))
        except Exception as e:
            bad.append("step %s: level%d raised %s: %s" % (step, i, type(e).__name__, e))
    print(json.dumps(bad)); sys.exit(0)
if len(sys.argv) > 1 and sys.argv[1] == "child":
    child()
rnd = random.Random(int(os.environ.get("FUZZ_SEED", "1")))
VALUES = [None, 1, 2.5, "s", [1, 2], {"a": 1}, True, "bytes-free"]
KEYS = ["a", "b", "c", "d", ""]
nbad = 0
for it in range(int(os.environ.get("FUZZ_N", "40"))):
    n = rnd.randint(1, 4)
    spec = [{"kind": rnd.choice(["mem", "disk"]), "data": {k: rnd.choice(VALUES) for k in rnd.sample(KEYS, rnd.randint(0, 3))}} for _ in range(n)]
    plan = []
    for _ in range(rnd.randint(2, 7)):
        plan.append(("restart",) if rnd.random() < 0.3 else ("call", rnd.randrange(n)))
    plan += [("restart",)] + [("call", i) for i in range(n)]
    store = "/tmp/audit2_B4/work/chain%d" % it; shutil.rmtree(store, ignore_errors=True)
    envv = dict(os.environ, CHAIN_SPEC=json.dumps(spec), CHAIN_PLAN=json.dumps(plan), CHAIN_STORE=store, CACHE_MB=str(rnd.choice([0, 10])), CHAIN_VER="v%d" % it, PYTHONDONTWRITEBYTECODE="1")
    p = subprocess.run([sys.executable, __file__, "child"], env=envv, capture_output=True, text=True)
    try:
        bad = json.loads(p.stdout.strip().splitlines()[-1])
    except Exception:
        bad = ["child failed: " + p.stderr[-500:]]
    shutil.rmtree(store, ignore_errors=True)
    if bad:
        nbad += 1
        print("CASE", it, json.dumps(spec), plan, "cache", envv["CACHE_MB"]); [print("   ", b) for b in bad[:4]]
print("cases with deviations:", nbad)
sys.exit(1 if nbad else 0)
