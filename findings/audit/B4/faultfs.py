"""Native replay harness for C08 counter-models (run under /venv/bin/python by pyvc/native_replay.py; no z3 here).

A failed C08 obligation names a primitive and an outcome ("crash-invariant/0 after #3 fs.close raised OSError").  The replay
drives the REAL code (a FilesystemStorageBackend in a scratch directory, two memento functions producing the same result)
through a memoization with a fault injected at a file-system primitive, then restarts on the damaged store and observes what
the property states: every later call returns the right value, raises nothing, and is served from the store again after the
first successful write.  The fault named by the obligation is tried first, then every other (primitive, outcome) pair, so the
replay reports the failing history that exists on the real code -- or none.

Primitives intercepted (only for paths under the store root): open-for-write (builtins.open / io.open, hence Path.open), write
on such a file, its close, os.replace, os.rename, os.makedirs, os.unlink / os.remove.  Writes are held back and reach the disk at close (buffering);
a crash or an error at write/close leaves a chosen prefix (nothing / half / all) of the pending data on disk.
"""
import builtins
import errno
import io
import logging
import os
import shutil
import sys
import tempfile


class _Crash(BaseException):
    """The process 'dies' here: nothing after this point runs in the faulted phase."""


class _WFile:
    """A file opened for writing under the store root: data is buffered and reaches the disk at close."""

    def __init__(self, fs, path, mode, real):
        self.fs, self.path, self.mode, self.real = fs, path, mode, real
        self.buf = [] if "b" not in mode else []
        self.closed = False

    def _pending(self):
        return ("" if "b" not in self.mode else b"").join(self.buf)

    def _spill(self, how):
        data = self._pending()
        n = {"none": 0, "half": len(data) // 2, "all": len(data)}[how]
        self.real.write(data[:n])
        self.real.close()
        self.closed = True

    def write(self, s):
        act = self.fs.step("write", self.path)
        self.buf.append(s)
        if act:
            kind, how = act
            self._spill(how)
            if kind == "crash":
                raise _Crash()
            raise OSError(errno.ENOSPC, "injected: no space left on device", self.path)
        return len(s)

    def close(self, in_error=False):
        if self.closed:
            return
        if in_error:
            self._spill("half")
            return
        act = self.fs.step("close", self.path)
        if act:
            kind, how = act
            self._spill(how)
            if kind == "crash":
                raise _Crash()
            raise OSError(errno.ENOSPC, "injected: no space left on device", self.path)
        self._spill("all")
        self.fs.complete[self.path] = self._pending()

    def __enter__(self):
        return self

    def __exit__(self, et, ev, tb):
        if et is not None and issubclass(et, _Crash):
            if not self.closed:
                self._spill("half")
            return False
        self.close(in_error=et is not None)
        return False

    def flush(self):
        pass

    def fileno(self):
        return self.real.fileno()


class FaultFS:
    """Counts the mutating primitives issued under `root`; at primitive number `at` applies `fault` = (kind, how):
    kind 'crash' (stop after the primitive took effect as `how` says) or 'error' (OSError from the primitive)."""

    def __init__(self, root, at=None, fault=None):
        self.root = os.path.abspath(root) + os.sep
        self.at, self.fault = at, fault
        self.n = 0
        self.log = []
        self.complete = {}
        self.fired = None

    def under(self, p):
        try:
            return os.path.abspath(os.fspath(p)).startswith(self.root)
        except TypeError:
            return False

    def step(self, name, path):
        self.n += 1
        self.log.append((self.n, name, os.path.relpath(os.fspath(path), self.root)))
        if self.at == self.n:
            self.fired = (self.n, name, os.path.relpath(os.fspath(path), self.root), self.fault)
            return self.fault
        return None

    def __enter__(self):
        self.saved = (builtins.open, io.open, os.replace, os.rename, os.makedirs)
        self.saved_rm = (os.unlink, os.remove)
        real_open = self.saved[0]
        fs = self

        def f_open(file, mode="r", *a, **kw):
            if isinstance(file, (str, bytes, os.PathLike)) and fs.under(file) and any(c in mode for c in "wax+"):
                act = fs.step("open_w", file)
                if act and act[0] == "error":
                    raise OSError(errno.ENOSPC, "injected: no space left on device", os.fspath(file))
                real = real_open(file, mode, *a, **kw)
                fs.complete.pop(os.fspath(file), None)
                if act:
                    real.close()
                    raise _Crash()
                return _WFile(fs, os.fspath(file), mode, real)
            return real_open(file, mode, *a, **kw)

        def wrap2(real, name):
            def f(src, dst, *a, **kw):
                if fs.under(dst):
                    act = fs.step(name, dst)
                    if act and act[0] == "error":
                        raise OSError(errno.EIO, "injected: I/O error", os.fspath(dst))
                    r = real(src, dst, *a, **kw)
                    if os.fspath(src) in fs.complete:
                        fs.complete[os.fspath(dst)] = fs.complete.pop(os.fspath(src))
                    if act:
                        raise _Crash()
                    return r
                return real(src, dst, *a, **kw)
            return f

        def f_makedirs(name, *a, **kw):
            if fs.under(name) and not os.path.isdir(name):
                act = fs.step("makedirs", name)
                if act and act[0] == "error":
                    raise OSError(errno.ENOSPC, "injected: no space left on device", os.fspath(name))
                r = self.saved[4](name, *a, **kw)
                if act:
                    raise _Crash()
                return r
            return self.saved[4](name, *a, **kw)

        def wrap1(real):
            def f(path, *a, **kw):
                if fs.under(path):
                    act = fs.step("unlink", path)
                    if act and act[0] == "error":
                        raise OSError(errno.EIO, "injected: I/O error", os.fspath(path))
                    r = real(path, *a, **kw)
                    fs.complete.pop(os.fspath(path), None)
                    if act:
                        raise _Crash()
                    return r
                return real(path, *a, **kw)
            return f
        os.unlink = wrap1(self.saved_rm[0])
        os.remove = wrap1(self.saved_rm[1])
        builtins.open = f_open
        io.open = f_open
        os.replace = wrap2(self.saved[2], "replace")
        os.rename = wrap2(self.saved[3], "rename")
        os.makedirs = f_makedirs
        return self

    def __exit__(self, *a):
        builtins.open, io.open, os.replace, os.rename, os.makedirs = self.saved
        os.unlink, os.remove = self.saved_rm
        return False


FAULTS = {"open_w": [("crash", "none"), ("error", "none")],
          "write": [("crash", "none"), ("crash", "half"), ("crash", "all"), ("error", "half")],
          "close": [("crash", "half"), ("error", "half"), ("error", "none")],
          "replace": [("crash", "all"), ("error", "none")],
          "rename": [("crash", "all"), ("error", "none")],
          "makedirs": [("crash", "all"), ("error", "none")],
          "unlink": [("crash", "all"), ("error", "none")]}

_REPO = sys.argv[1] if (__name__ == "__main__" and len(sys.argv) > 1) else os.environ.get("PYVC_REPO", "/repo")
if _REPO not in sys.path:
    sys.path.insert(0, _REPO)
logging.disable(logging.CRITICAL)
import twosigma.memento as _m  # noqa: E402
from twosigma.memento.storage_filesystem import FilesystemStorageBackend as _FSB  # noqa: E402

_CALLS = {"f": 0, "g": 0}


# memento functions must be top-level; auto_dependencies off: otherwise the _CALLS global becomes part of the version hash
@_m.memento_function(cluster="c08", auto_dependencies=False)
def c08_f(x):
    _CALLS["f"] += 1
    return {"value": x * 7, "tag": "c08", "items": list(range(x))}


@_m.memento_function(cluster="c08", auto_dependencies=False)
def c08_g(x):
    _CALLS["g"] += 1
    return {"value": x * 7, "tag": "c08", "items": list(range(x))}


def _setup(repo):
    return dict(m=_m, FSB=_FSB, calls=_CALLS, f=c08_f, g=c08_g)


def _set_env(S, store):
    m = S["m"]
    m.Environment.set(m.Environment(name="c08env", base_dir=store, repos=[m.ConfigurationRepository(
        name="repo", clusters={"c08": m.FunctionCluster(name="c08", storage=S["FSB"](path=os.path.join(store, "data")))})]))


def expected(x):
    return {"value": x * 7, "tag": "c08", "items": list(range(x))}


def _observe(S, label, problems):
    """What the property states, on the current store: right values, no exception, served from the store after a successful write."""
    for name in ("f", "g"):
        fn = S[name]
        vals = []
        for i in range(3):
            try:
                r = fn(3)
            except BaseException as e:  # noqa
                problems.append("%s: %s(3) call %d raised %s: %s" % (label, name, i + 1, type(e).__name__, e))
                break
            if r != expected(3):
                problems.append("%s: %s(3) call %d returned a wrong value %r" % (label, name, i + 1, r))
            vals.append(S["calls"][name])
        if len(vals) == 3 and vals[2] != vals[0]:
            problems.append("%s: %s(3) is recomputed on every call after a successful write (memoization never recovers)" % (label, name))


def run_scenario(S, at, fault, prior=False):
    """Memoize f(3) with the fault at primitive number `at` (prior: after g(3), which produces the same result, was memoized cleanly);
    then continue / restart and observe.  Returns (fired, problems, log)."""
    store = tempfile.mkdtemp(prefix="c08rp_")
    problems = []
    try:
        _set_env(S, store)
        if prior:
            S["g"](3)
            _set_env(S, store)
        fs = FaultFS(os.path.join(store, "data"), at, fault)
        crashed = False
        with fs:
            try:
                r = S["f"](3)
                if r != expected(3):
                    problems.append("faulted call returned a wrong value %r" % (r,))
            except _Crash:
                crashed = True
            except BaseException as e:  # noqa
                problems.append("the call during which the I/O error was reported raised %s: %s" % (type(e).__name__, e))
        if fs.fired is None:
            return None, [], fs.log
        if not crashed:
            _observe(S, "same process after the reported I/O error", problems)
        _set_env(S, store)      # restart: fresh backend objects (empty memory cache) on the same directory
        _observe(S, "after restart on the store left behind", problems)
        return fs.fired, problems, fs.log
    finally:
        shutil.rmtree(store, ignore_errors=True)
        try:
            S["m"].Environment.set(None)
        except Exception:
            pass


def enumerate_faults(repo, first=None):
    """All (primitive, outcome) faults of one memoization; `first` = (primitive name, outcome kind) is tried before the others."""
    S = _setup(repo)
    out, logs = [], []
    for prior in (False, True):
        _, _, log = run_scenario(S, None, None, prior)
        logs.append(log)
        plan = [(n, name, flt) for (n, name, _p) in log for flt in FAULTS[name]]
        if first:
            plan.sort(key=lambda x: 0 if (x[1] == first[0] and x[2][0] == first[1]) else 1)
        for n, name, flt in plan:
            fired, problems, _ = run_scenario(S, n, flt, prior)
            out.append({"scenario": "g(3) memoized cleanly, then f(3) faulted" if prior else "f(3) faulted on an empty store", "primitive": n, "name": name,
                        "path": fired[2] if fired else None, "fault": list(flt), "problems": problems})
    return logs[0] + logs[1], out


def crash_replay(rp):
    import re
    repo = rp.get("repo") or os.environ.get("PYVC_REPO", "/repo")
    first = None
    mo = re.search(r"after #\d+ (\S+) (returned|raised)", rp.get("obligation") or "")
    if mo:
        prim = {"fs.open_w": "open_w", "fs.write": "write", "fs.close": "close", "fs.close_after_error": "close", "os.replace": "replace"}.get(mo.group(1))
        if prim:
            first = (prim, "crash" if mo.group(2) == "returned" else "error")
    log, res = enumerate_faults(repo, first)
    bad = [r for r in res if r["problems"]]
    tried = "%d faults over %d primitives of two memoization scenarios (%s)" % (len(res), len(log), ", ".join("%d:%s" % x[:2] for x in log))
    if bad:
        b = bad[0]
        return {"reproduced": True,
                "detail": "%s: fault %s at primitive #%d %s(%s): %s" % (b["scenario"], "/".join(b["fault"]), b["primitive"], b["name"], b["path"], "; ".join(b["problems"][:4])),
                "failing_history": b, "other_failing_faults": len(bad) - 1, "explored": tried,
                "named_by_obligation": first, "matches_obligation_step": bool(first and b["name"] == first[0] and b["fault"][0] == first[1])}
    return {"reproduced": False, "detail": "no fault at any primitive of a memoization reproduces a violation on the real code", "explored": tried, "named_by_obligation": first}


if __name__ == "__main__":
    import json
    repo = sys.argv[1] if len(sys.argv) > 1 else "/repo"
    log, res = enumerate_faults(repo)
    print(json.dumps({"primitives": log, "violating": [r for r in res if r["problems"]], "faults_tried": len(res)}, indent=1, default=repr))
    sys.exit(1 if any(r["problems"] for r in res) else 0)
