import os, sys, shutil, tempfile, logging, itertools
os.environ["PYTHONDONTWRITEBYTECODE"] = "1"
sys.dont_write_bytecode = True
sys.path.insert(0, "/repo"); sys.path.insert(0, "/tmp/audit2_B4")
logging.disable(logging.CRITICAL)
import faultfs
from faultfs import FaultFS, FAULTS, _Crash
import twosigma.memento as m
from twosigma.memento.storage_filesystem import FilesystemStorageBackend as FSB
import c08_mod as M

CACHE = int(os.environ.get("CACHE_MB", "0"))
def set_env(store):
    m.Environment.set(m.Environment(name="e", base_dir=store, repos=[m.ConfigurationRepository(
        name="repo", clusters={"c08": m.FunctionCluster(name="c08", storage=FSB(path=os.path.join(store, "data"), memory_cache_mb=CACHE or None))})]))

def pview(p):
    ks = list(p.list_keys())
    return {k: p.get(k) for k in ks}

EXP_PA = {"a": 1, "b": [2, 2]}
EXP_PB = {"a": 1, "b": 3, "c": "four"}
EXP_PC = {"a": 1, "b": 3, "c": 5, "d": {"x": 6}}

def chk_exc():
    try:
        M.exc(1)
    except ValueError as e:
        return "VE:" + str(e).split(".")[0]
    return "no exception"

OBS = {
 "pa": (lambda: pview(M.pa()), EXP_PA, ["pa"]),
 "pb": (lambda: pview(M.pb()), EXP_PB, ["pb"]),
 "pc": (lambda: pview(M.pc()), EXP_PC, ["pc"]),
 "pod": (lambda: pview(M.pod()), {"a": 1, "z": "zz"}, ["pod"]),
 "no1": (lambda: M.none_override(1), None, ["none_override"]),
 "no2": (lambda: M.none_override(2), {"v": 2}, ["none_override"]),
 "vo3": (lambda: M.val_override(3), {"v": 3}, ["val_override"]),
 "vo4": (lambda: M.val_override(4), {"v": 4}, ["val_override"]),
 "exc": (chk_exc, "VE:boom 1", ["exc"]),
 "s1": (lambda: M.same1(3), {"value": 3}, ["same1"]),
 "s2": (lambda: M.same2(3), {"value": 3}, ["same2"]),
 "np": (lambda: M.none_plain(3), None, ["none_plain"]),
}

def observe(names, label, problems):
    for n in names:
        fn, exp, cnt = OBS[n]
        counts = []
        for i in range(3):
            try:
                r = fn()
            except BaseException as e:
                problems.append("%s: %s call %d raised %s: %s" % (label, n, i + 1, type(e).__name__, e)); break
            if r != exp:
                problems.append("%s: %s call %d wrong value %r" % (label, n, i + 1, r))
            counts.append(sum(M.CALLS.get(c, 0) for c in cnt))
        if len(counts) == 3 and counts[2] != counts[0]:
            problems.append("%s: %s recomputed on every call (never recovers)" % (label, n))

def run(prior, faulted, obs, faults):
    """faults: list of (at, fault) applied to successive phases of `faulted` list"""
    store = tempfile.mkdtemp(prefix="c08x_")
    problems, logs, fired = [], [], []
    try:
        set_env(store)
        for p in prior:
            OBS[p][0]()
        set_env(store)
        crashed = False
        for idx, name in enumerate(faulted):
            at, flt = faults[idx] if idx < len(faults) else (None, None)
            fs = FaultFS(os.path.join(store, "data"), at, flt)
            crashed = False
            with fs:
                try:
                    r = OBS[name][0]()
                    if r != OBS[name][1]:
                        problems.append("faulted call %s wrong value %r" % (name, r))
                except _Crash:
                    crashed = True
                except BaseException as e:
                    problems.append("faulted call %s raised %s: %s" % (name, type(e).__name__, e))
            logs.append(fs.log); fired.append(fs.fired)
            if crashed:
                set_env(store)
        if not crashed:
            observe(obs, "same process", problems)
        set_env(store)
        observe(obs, "after restart", problems)
        return fired, problems, logs
    finally:
        shutil.rmtree(store, ignore_errors=True)
        m.Environment.set(None)

def enum(title, prior, faulted, obs):
    _, pr, logs = run(prior, faulted, obs, [])
    if pr:
        print("BASELINE PROBLEM", title, pr)
    bad = 0; tried = 0
    log = logs[0]
    for (n, name, path) in log:
        for flt in FAULTS[name]:
            fired, problems, _ = run(prior, faulted, obs, [(n, flt)])
            tried += 1
            if problems:
                bad += 1
                print("  VIOLATION %s: fault %s at #%d %s(%s): %s" % (title, flt, n, name, path, "; ".join(problems[:3])))
    print("%s: %d primitives, %d faults, %d violating" % (title, len(log), tried, bad))
    return bad

if __name__ == "__main__":
    total = 0
    scen = [
     ("pa empty", [], ["pa"], ["pa", "pb"]),
     ("pb after pa", ["pa"], ["pb"], ["pa", "pb", "pc"]),
     ("pc from empty", [], ["pc"], ["pc", "pb", "pa"]),
     ("pc after pb", ["pb"], ["pc"], ["pc", "pb", "pa"]),
     ("pod", [], ["pod"], ["pod"]),
     ("none override after val", ["no2"], ["no1"], ["no1", "no2", "vo3"]),
     ("val override after val", ["vo3"], ["vo4"], ["vo3", "vo4", "no2"]),
     ("val override after none", ["no1"], ["vo4"], ["vo4", "no1"]),
     ("exc", [], ["exc"], ["exc"]),
     ("np", [], ["np"], ["np"]),
     ("s2 after s1", ["s1"], ["s2"], ["s1", "s2"]),
    ]
    sel = sys.argv[1:] 
    for t, p, f, o in scen:
        if sel and not any(s in t for s in sel): continue
        total += enum(t, p, f, o)
    sys.exit(1 if total else 0)
