import twosigma.memento as m
from twosigma.memento.partition import InMemoryPartition
from twosigma.memento.result import KeyOverrideResult
from twosigma.memento.storage_filesystem import OnDiskPartition
CALLS = {}
def _c(n):
    CALLS[n] = CALLS.get(n, 0) + 1

@m.memento_function(cluster="c08", auto_dependencies=False)
def pa():
    _c("pa")
    return InMemoryPartition({"a": 1, "b": [2, 2]})

@m.memento_function(cluster="c08", auto_dependencies=False, dependencies=[pa])
def pb():
    _c("pb")
    p = InMemoryPartition({"b": 3, "c": "four"})
    p._merge_parent = pa()
    return p

@m.memento_function(cluster="c08", auto_dependencies=False, dependencies=[pb])
def pc():
    _c("pc")
    p = InMemoryPartition({"c": 5, "d": {"x": 6}})
    p._merge_parent = pb()
    return p

@m.memento_function(cluster="c08", auto_dependencies=False)
def pod():
    _c("pod")
    p = OnDiskPartition()
    p["a"] = 1
    p["z"] = "zz"
    return p

@m.memento_function(cluster="c08", auto_dependencies=False)
def none_override(x):
    _c("none_override")
    return KeyOverrideResult(result=None if x % 2 else {"v": x}, key_override="custom/key")

@m.memento_function(cluster="c08", auto_dependencies=False)
def val_override(x):
    _c("val_override")
    return KeyOverrideResult(result={"v": x}, key_override="custom/key")

@m.memento_function(cluster="c08", auto_dependencies=False)
def exc(x):
    _c("exc")
    raise ValueError("boom %d" % x)

@m.memento_function(cluster="c08", auto_dependencies=False)
def same1(x):
    _c("same1")
    return {"value": x}

@m.memento_function(cluster="c08", auto_dependencies=False)
def same2(x):
    _c("same2")
    return {"value": x}

@m.memento_function(cluster="c08", auto_dependencies=False)
def none_plain(x):
    _c("none_plain")
    return None
