"""C12: 'the qualified name can be split back into exactly its parts, and entries stored under it can be found again'; evolution
'callee re-clustered' with the caller's version pinned.  FunctionReference.from_qualified_name('c1::mod:callee#v') -- used when stored
metadata is decoded -- finds the live function (same version, now in cluster c2) and FunctionReference.__init__ then builds the name
from memento_fn.qualified_name_without_version: the reference comes back as 'c2::mod:callee#v' (not external) with cluster_name 'c1'.
The stored provenance is silently rewritten to a call that never happened, the object is self-inconsistent, and the callee's stored
entry (under c1::...) cannot be found through it.  exit 1 when it shows."""
import sys, os, subprocess, tempfile, json
MOD = """import twosigma.memento as m
@m.memento_function(cluster=%r, version="v")
def callee(x):
    return x + 1
@m.memento_function(version="pinned")
def caller(x):
    return callee(x) * 2
"""
DRIVER = r'''
import sys, json, os
sys.path.insert(0, "/tmp/audit_A4"); sys.path.insert(0, sys.argv[1])
from common import *
from twosigma.memento.reference import FunctionReference
store = sys.argv[2]
cl = {n: FunctionCluster(name=n, storage=FilesystemStorageBackend(path=os.path.join(store, n))) for n in ("default", "c1", "c2")}
m.Environment.set(Environment(name="aud", base_dir=store, repos=[ConfigurationRepository(name="r", clusters=cl)]))
import recmod
recmod.caller(1)
ref = recmod.caller.memento(1).invocation_metadata.invocations[0].fn_reference
parts = FunctionReference.parse_qualified_name(ref.qualified_name)
st = m.Environment.get().get_cluster(ref.cluster_name).storage
found = st.get_memento(recmod.caller.memento(1).invocation_metadata.invocations[0].fn_reference_with_arg_hash()) is not None
print(json.dumps({"qn": ref.qualified_name, "cluster_name": ref.cluster_name, "parsed_cluster": parts["cluster"], "external": ref.external, "found": found}))
'''
bad = []
with tempfile.TemporaryDirectory() as d:
    os.makedirs(d + "/mod"); open(d + "/driver.py", "w").write(DRIVER)
    def run(cluster):
        open(d + "/mod/recmod.py", "w").write(MOD % cluster)
        p = subprocess.run(["/venv/bin/python", d + "/driver.py", d + "/mod", d + "/store"], capture_output=True, text=True)
        assert p.returncode == 0, p.stderr[-500:]
        return json.loads(p.stdout.strip().splitlines()[-1])
    a = run("c1")
    b = run("c2")     # callee moved to cluster c2, same version; caller's stored entry is still current
    print("before:", a); print("after: ", b)
    if b["qn"] != a["qn"]:
        bad.append("stored invocation %r is reported as %r (external=%s)" % (a["qn"], b["qn"], b["external"]))
    if b["cluster_name"] != b["parsed_cluster"]:
        bad.append("reference is self-inconsistent: cluster_name %r but qualified name %r" % (b["cluster_name"], b["qn"]))
    if not b["found"]:
        bad.append("the callee's stored entry cannot be found through the decoded reference (it was found before the move: %s)" % a["found"])
print("\n".join(bad) or "re-clustered callee is reported under its stored name")
sys.exit(1 if bad else 0)
