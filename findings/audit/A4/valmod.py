import twosigma.memento as m
import datetime, numpy as np, pandas as pd
from twosigma.memento.partition import InMemoryPartition

VALUES = {
 "none": lambda: None, "true": lambda: True, "false": lambda: False, "int0": lambda: 0, "int": lambda: 12345678901234567890123, "float": lambda: 1.5, "nan": lambda: float("nan"),
 "inf": lambda: float("-inf"), "str": lambda: "héllo\n", "empty_str": lambda: "", "bytes": lambda: b"\x00\xff", "empty_bytes": lambda: b"",
 "date": lambda: datetime.date(2020, 2, 29), "ts": lambda: datetime.datetime(2020, 1, 1, 12, 0, 0, 123456), "ts_tz": lambda: datetime.datetime(2020, 1, 1, tzinfo=datetime.timezone(datetime.timedelta(hours=5, minutes=30))),
 "ts_utc": lambda: datetime.datetime(2020, 1, 1, tzinfo=datetime.timezone.utc),
 "list": lambda: [1, "a", None, [2.5, True], {"k": b"v"}], "empty_list": lambda: [], "dict": lambda: {"a": 1, "b": [1, 2], "c": {"d": None}}, "empty_dict": lambda: {},
 "dict_intkey": lambda: {1: "a", 2: "b"}, "tuple": lambda: (1, 2), "list_tuple": lambda: [(1, 2)], "set": lambda: {1, 2},
 "np_bool": lambda: np.array([True, False]), "np_i8": lambda: np.array([1, -1], dtype=np.int8), "np_i64": lambda: np.arange(4, dtype=np.int64).reshape(2, 2), "np_f32": lambda: np.array([1.5], dtype=np.float32),
 "np_f64_empty": lambda: np.array([], dtype=np.float64), "np_u8": lambda: np.array([1], dtype=np.uint8), "np_str": lambda: np.array(["a", "b"]), "np_scalar_i64": lambda: np.int64(7), "np_scalar_f64": lambda: np.float64(7.5),
 "np_bool_scalar": lambda: np.bool_(True),
 "pd_index": lambda: pd.Index([1, 2, 3], name="i"), "pd_series": lambda: pd.Series([1.0, 2.0], index=["a", "b"], name="s"), "pd_df": lambda: pd.DataFrame({"a": [1, 2], "b": ["x", "y"]}),
 "pd_df_empty": lambda: pd.DataFrame(), "pd_ts": lambda: pd.Timestamp("2020-01-01T00:00:00.123456789"), "pd_multi": lambda: pd.MultiIndex.from_tuples([(1, "a"), (2, "b")]),
 "list_np": lambda: [np.array([1, 2]), pd.Series([1])], "dict_df": lambda: {"df": pd.DataFrame({"a": [1]}), "d": datetime.date(2020, 1, 1)},
 "partition": lambda: InMemoryPartition({"a": 1, "b": [1, 2]}),
 "list_partition": lambda: [InMemoryPartition({"a": 1})],
}

@m.memento_function(cluster="aud")
def val(name):
    __import__("sys")._aud.append(name)
    return VALUES[name]()
