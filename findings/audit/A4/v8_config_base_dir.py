"""C18: 'every documented option given in a configuration object or file ... explicit arguments override the file', over
{constructor arguments, inline dict, JSON file}.
 (a) Environment(config, base_dir=X) / ConfigurationRepository(config, base_dir=X): the documented explicit argument ('Base directory
     from which to evaluate relative paths. If provided, overrides the base_dir from the config parameter') is applied only AFTER the
     relative repo / cluster paths of the configuration were loaded with the configuration's own base_dir: FileNotFoundError, although the
     same dict with a 'base_dir' key loads.
 (b) Environment.from_file(relative path) (also the MEMENTO_ENV route) passes os.path.basename(path) as base directory: 'env.json/env.json'.
exit 1 when any shows."""
import sys, json
sys.path.insert(0, "/tmp/audit_A4")
from common import *

bad = []
with tempfile.TemporaryDirectory() as d:
    os.makedirs(d + "/conf/sub")
    json.dump({"name": "fc", "storage": {"type": "memory"}}, open(d + "/conf/sub/fc.json", "w"))
    json.dump({"name": "repo", "clusters": {"fc": "sub/fc.json"}}, open(d + "/conf/repo.json", "w"))
    json.dump({"name": "env", "repos": ["repo.json"]}, open(d + "/conf/env.json", "w"))
    def attempt(what, th):
        try:
            env = th()
            if env.get_cluster("fc") is None: bad.append(what + ": cluster 'fc' not defined")
        except Exception as e:
            bad.append("%s raised %s: %s" % (what, type(e).__name__, e))
    # controls (work)
    attempt("Environment({'base_dir': conf, 'repos': ['repo.json']})", lambda: Environment({"name": "x", "base_dir": d + "/conf", "repos": ["repo.json"]}))
    attempt("Environment.from_file(absolute)", lambda: Environment.from_file(d + "/conf/env.json"))
    # (a)
    attempt("Environment({'repos': ['repo.json']}, base_dir=conf)", lambda: Environment({"name": "x", "repos": ["repo.json"]}, base_dir=d + "/conf"))
    attempt("Environment({'base_dir': elsewhere, 'repos': ['repo.json']}, base_dir=conf)", lambda: Environment({"name": "x", "base_dir": d, "repos": ["repo.json"]}, base_dir=d + "/conf"))
    attempt("ConfigurationRepository({'clusters': {'fc': 'sub/fc.json'}}, base_dir=conf)",
            lambda: Environment(name="x", repos=[ConfigurationRepository({"name": "r", "clusters": {"fc": "sub/fc.json"}}, base_dir=d + "/conf")]))
    # (b)
    os.chdir(d + "/conf")
    attempt("Environment.from_file('env.json') with cwd=conf", lambda: Environment.from_file("env.json"))
    os.chdir(d)
    attempt("Environment.from_file('conf/env.json') with cwd=parent", lambda: Environment.from_file("conf/env.json"))
    os.chdir("/")
print("\n".join(bad) or "base_dir honoured")
sys.exit(1 if bad else 0)
