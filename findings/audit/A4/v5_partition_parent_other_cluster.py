"""C17: overlay of parent entries when the parent 'was obtained from disk' -- here from the disk of ANOTHER cluster (its own
filesystem path).  store() copies the parent's content keys into the child's index and calls data_source.reference(parent_data_source,
key, key), which _FilesystemDataSource implements as a no-op: the inherited entries point at blobs that do not exist in the child's
data source.  The first call works (in-memory object); every later call raises FileNotFoundError for parent-only keys.  exit 1 when it shows."""
import sys
sys.path.insert(0, "/tmp/audit_A4")
from common import *
from twosigma.memento.partition import InMemoryPartition

@m.memento_function(cluster="aud")
def pa():
    return InMemoryPartition({"a": 1, "b": 2})

@m.memento_function(cluster="aud2")
def pb():
    p = InMemoryPartition({"b": 3, "c": 4})
    p._merge_parent = pa()
    return p

def env(store):
    m.Environment.set(Environment(name="aud", base_dir=store, repos=[ConfigurationRepository(name="r", clusters={
        "aud": FunctionCluster(name="aud", storage=FilesystemStorageBackend(path=os.path.join(store, "data1"))),
        "aud2": FunctionCluster(name="aud2", storage=FilesystemStorageBackend(path=os.path.join(store, "data2")))})]))

def read(p):
    try:
        return {k: p.get(k) for k in p.list_keys()}
    except Exception as e:
        return "keys %r, get raised %s: %s" % (list(p.list_keys()), type(e).__name__, str(e)[:70])

bad = []
with tempfile.TemporaryDirectory() as d:
    env(d)
    first = read(pb())
    later = read(pb())
    want = {"a": 1, "b": 3, "c": 4}
    if first != want: bad.append("first call reads %r" % (first,))
    if later != want: bad.append("memoized pb() (cluster aud2, parent from cluster aud): %s; first call returned %r" % (later, first))
print("\n".join(bad) or "parent from another cluster overlays correctly")
sys.exit(1 if bad else 0)
