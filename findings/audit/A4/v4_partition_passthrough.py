"""C17: 'A partition returned by a memento function reads back with exactly the same key set'.  g() returns the (already memoized)
merged partition of f() unchanged.  The object is a PicklePartition whose index holds inherited entries (from_parent=True);
PicklePartitionStrategy.store lists obj.list_keys(_include_merge_parent=False), which for a PicklePartition drops exactly those
entries, so what is stored for g() lacks every key f() inherited from its parent.  exit 1 when it shows."""
import sys
sys.path.insert(0, "/tmp/audit_A4")
from common import *
from twosigma.memento.partition import InMemoryPartition

@m.memento_function(cluster="aud")
def pa():
    return InMemoryPartition({"a": 1, "b": 2})

@m.memento_function(cluster="aud")
def pb():
    p = InMemoryPartition({"b": 3, "c": 4})
    p._merge_parent = pa()
    return p

@m.memento_function(cluster="aud")
def latest():
    return pb()            # hands pb's result on unchanged

def read(p):
    return {k: p.get(k) for k in p.list_keys()}

bad = []
with tempfile.TemporaryDirectory() as d:
    set_env(d, "fs", 0)
    pb()                                  # memoized beforehand
    set_env(d, "fs", 0)
    first = read(latest())                # body runs: returns the PicklePartition read from disk
    later = read(latest())                # memoized
    want = {"a": 1, "b": 3, "c": 4}
    if first != want: bad.append("first call of latest() reads %r, expected %r" % (first, want))
    if later != want: bad.append("memoized latest() reads %r; the first call returned %r" % (later, first))
print("\n".join(bad) or "a merged partition handed on by another function round-trips")
sys.exit(1 if bad else 0)
