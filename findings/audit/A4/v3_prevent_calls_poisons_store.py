"""C02 x C16: `prevent_further_calls` changes what a body computes (nested memento calls raise RuntimeError) but is not part of the
call's identity, and the RuntimeError is an ordinary memoizable exception.  One call made with further calls prevented therefore
records its degraded outcome under the plain key: every later *normal* call with equal arguments is served the RuntimeError (or the
fallback value) without the body ever running normally.  The contracts assume 'bodies are deterministic functions of the call key'.
exit 1 when it shows."""
import sys
sys.path.insert(0, "/tmp/audit_A4")
from common import *

@m.memento_function(cluster="aud")
def inner(x):
    return x * 2

@m.memento_function(cluster="aud")
def outer(x):
    return inner(x) + 1

bad = []
for kind in ("fs", "mem"):
    with tempfile.TemporaryDirectory() as d:
        set_env(d, kind)
        want = 11
        try:
            outer.with_prevent_further_calls(True)(5)
        except RuntimeError:
            pass                                    # expected: the nested call is prevented
        try:
            got = outer(5)                          # a normal call, nothing prevented
        except Exception as e:
            got = "raised %s: %s" % (type(e).__name__, str(e).split(". Original")[0])
        if got != want:
            bad.append("%s: outer(5) after one outer.with_prevent_further_calls(True)(5): %r, expected %r" % (kind, got, want))
print("\n".join(bad) or "a prevented call does not affect later normal calls")
sys.exit(1 if bad else 0)
