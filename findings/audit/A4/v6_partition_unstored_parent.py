"""C17 ('... or built in memory') x C02 ('the first call runs the body exactly once, later calls do not'): a partition whose merge
parent was built in memory by the same function (never returned by a memento function).  store() raises IOError('Could not merge
partitions ... has never been serialized'), memento_run_local treats it as a failed write and carries on: the call returns normally
but is silently never memoized, the body runs on every call.  exit 1 when it shows."""
import sys
sys.path.insert(0, "/tmp/audit_A4")
from common import *
from twosigma.memento.partition import InMemoryPartition

@m.memento_function(cluster="aud")
def merged():
    __import__("sys")._aud.append("merged")
    parent = InMemoryPartition({"a": 1, "b": 2})
    p = InMemoryPartition({"b": 3, "c": 4})
    p._merge_parent = parent
    return p

bad = []
for kind in ("fs", "mem"):
    with tempfile.TemporaryDirectory() as d:
        set_env(d, kind)
        reset()
        r = [{k: p.get(k) for k in p.list_keys()} for p in (merged(), merged(), merged())]
        if r[0] != {"a": 1, "b": 3, "c": 4}: bad.append("%s: reads %r" % (kind, r[0]))
        if len(calls()) != 1 or merged.memento() is None:
            bad.append("%s: body ran %d times in 3 calls, memento() is %s" % (kind, len(calls()), merged.memento()))
print("\n".join(bad) or "partition with an in-memory parent is memoized")
sys.exit(1 if bad else 0)
