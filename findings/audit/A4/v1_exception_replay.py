"""C02 / C15: a recorded exception must be replayed as the same class when it can be rebuilt from its message, otherwise as
MementoException with the original message.  Violations on the real code:
  (a) exception class defined inside a function (qualname contains '<locals>'): replay raises AttributeError
  (b) exception class whose constructor rejects the message with something other than TypeError: replay raises that error
  (c) exception class whose module cannot be imported in the reading process: replay raises ModuleNotFoundError
  (d) C15: one such memoized element makes call_batch(raise_first_exception=False) raise instead of putting the failure in its slot
exit 1 when any shows."""
import sys, types
sys.path.insert(0, "/tmp/audit_A4")
from common import *
from twosigma.memento.exception import MementoException

class IntArg(Exception):
    def __init__(self, code):
        super().__init__("code %d" % int(code))

gone = types.ModuleType("aud_gone_mod")
exec("class Gone(Exception):\n    pass\n", gone.__dict__)
sys.modules["aud_gone_mod"] = gone

@m.memento_function(cluster="aud")
def f_local(x):
    class Local(Exception):
        pass
    raise Local("boom %s" % x)

@m.memento_function(cluster="aud")
def f_int(x):
    raise IntArg(3)

@m.memento_function(cluster="aud")
def f_gone(x):
    raise __import__("sys").modules["aud_gone_mod"].Gone("boom")

@m.memento_function(cluster="aud")
def f_batch(x):
    if x == 1:
        class Local(Exception):
            pass
        raise Local("boom")
    return x

bad = []
def outcome(fn, *a):
    try:
        return ("ret", fn(*a))
    except BaseException as e:
        return (type(e).__name__, str(e).split(". Original stack")[0])

for kind in ("fs", "mem"):
    with tempfile.TemporaryDirectory() as d:
        set_env(d, kind)
        for fn, cls, msg in ((f_local, "Local", "boom 1"), (f_int, "IntArg", "code 3"), (f_gone, "Gone", "boom")):
            first = outcome(fn, 1)
            if fn is f_gone:
                del sys.modules["aud_gone_mod"]        # the reading process does not have that module
            second = outcome(fn, 1)
            if fn is f_gone:
                sys.modules["aud_gone_mod"] = gone
            ok = (second[0] == cls or second[0] == "MementoException") and msg in second[1]
            if not ok:
                bad.append("%s %s: first call raised %r, memoized replay raised %r (expected %s or MementoException carrying %r)" % (kind, fn.__name__, first, second, cls, msg))
        # batch
        single = [outcome(f_batch, x) for x in (0, 1, 2)]
        try:
            res = f_batch.call_batch([{"x": 0}, {"x": 1}, {"x": 2}], raise_first_exception=False)
            if not (res[0] == 0 and res[2] == 2 and isinstance(res[1], Exception) and "boom" in str(res[1]) and type(res[1]).__name__ in ("Local", "MementoException")):
                bad.append("%s call_batch(raise_first_exception=False) returned %r" % (kind, res))
        except BaseException as e:
            bad.append("%s call_batch([0,1,2], raise_first_exception=False) over memoized elements raised %s: %s instead of returning the failure in slot 1" % (kind, type(e).__name__, e))
print("\n".join(bad) or "exceptions replay as their class or as MementoException")
sys.exit(1 if bad else 0)
