"""C14: the dependency sets reported for a function are filters of its OWN rule list, and a function object with an explicit version never collects
one.  Every modifier clone (f.partial(..), f.force_local(), f.with_context_args(..), ...) carries its original's version as an explicit one, so
f.partial().dependencies() reports NO transitive and NO direct memento dependencies (and an empty graph) for a function whose body names g and reaches h;
the same for a function pinned with version="1".  (_validate_dependency was taught to look at the clone's original -- D33 --, the reported sets were not.)"""
import sys; sys.path.insert(0, "/tmp/audit3_C3")
from common import *
PROG = '''
from twosigma.memento import memento_function
@memento_function
def h(x):
    return x * 100
@memento_function
def g(x):
    return h(x) + 1
@memento_function
def f(x, y=0):
    return g(x) + y
@memento_function(version="1")
def pinned(x):
    return g(x) + 1
'''
d = setup("c14v1", {"prog.py": PROG})
import prog
def names(s): return sorted(x.qualified_name_without_version for x in s)
bad = []
for label, fn in [("f", prog.f), ("f.partial(y=1)", prog.f.partial(y=1)), ("f.force_local()", prog.f.force_local()), ("pinned (version='1')", prog.pinned)]:
    dg = fn.dependencies()
    t, dr = names(dg.transitive_memento_fn_dependencies()), names(dg.direct_memento_fn_dependencies())
    print("%-22s transitive %s direct %s" % (label, t, dr))
    if t != ["prog:g", "prog:h"] or dr != ["prog:g"]:
        bad.append("%s: transitive %s direct %s (reference graph: g direct, g and h reachable)" % (label, t, dr))
if bad:
    print("VIOLATION (C14): " + "; ".join(bad)); sys.exit(1)
print("holds"); sys.exit(0)
