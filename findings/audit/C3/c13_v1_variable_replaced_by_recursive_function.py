"""C13 / C01: GlobalVariableHashRule.did_change re-enters the version machinery.  did_change serialises what the symbol resolves to NOW with
MementoCodec.encode_arg; when that value is (or contains) a memento function, encode_arg calls its fn_reference(), i.e. _update_dependencies(), which
runs did_change of the same rule again: unbounded recursion.
 (a) event history: a module variable of a tracked type (None, a number, ...) is replaced by a RECURSIVE memento function of the same name (the decorator
     computes the version while the name still holds the old value, so the function's own rule list holds a variable rule for its own name);
 (b) a registry / dispatch table: a tracked list or dict variable that contains a memento function which (transitively) reads the table.
Asking for the version, and every call, raises RecursionError in the running process; for (a) a fresh process on the resulting program computes a version."""
import sys; sys.path.insert(0, "/tmp/audit3_C3")
from common import *
import linecache
A0 = '''
from twosigma.memento import memento_function
depth = None                      # placeholder, a tracked value
'''
A1 = '''
@memento_function
def depth(t):
    return 0 if not t else 1 + max(depth(c) for c in t)
'''
B = '''
from twosigma.memento import memento_function
@memento_function
def leaf(node):
    return 1
@memento_function
def branch(node):
    return sum(HANDLERS[c[0]](c) for c in node[1:])
HANDLERS = {"leaf": leaf, "branch": branch}
'''
bad = []
d = setup("c13v1", {"prog.py": A0, "progb.py": B})
import prog
# (a) in-process event: define the function under the name that holds a tracked variable
fn = os.path.join(d, "snip1.py"); open(fn, "w").write(A1)
exec(compile(A1, fn, "exec"), prog.__dict__)
fresh_a = fresh(d, {"prog.py": "from twosigma.memento import memento_function\n" + A1}, expr="(prog.depth.version(), prog.depth([[], [[]]]))")
try:
    got = (prog.depth.version(), prog.depth([[], [[]]]))
    if repr(got) != fresh_a: bad.append("(a) in-process %r, fresh process %s" % (got, fresh_a))
except BaseException as e:
    bad.append("(a) version()/call raised %s; a fresh process on the resulting program gives %s" % (type(e).__name__, fresh_a))
# (b) dispatch table holding the functions that read it
import progb
try:
    v = progb.branch.version(); r = progb.branch(["branch", ["leaf"], ["branch", ["leaf"], ["leaf"]]])
    if r != 3: bad.append("(b) branch(...) = %r, un-memoized 3" % (r,))
except BaseException as e:
    bad.append("(b) version()/call of a function reading a table that contains it raised %s (un-memoized result: 3)" % type(e).__name__)
if bad:
    print("VIOLATION (C13/C01): " + "; ".join(bad)); sys.exit(1)
print("holds"); sys.exit(0)
