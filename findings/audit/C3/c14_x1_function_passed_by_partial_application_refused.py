"""C14 (secondary, a false refusal): 'not passed to it as an argument' is decided from the CALL's args / kwargs / context args only.  A memento function bound
by partial application -- takes.partial(h)(3), takes.partial(fn=h)(3) -- IS an argument of the call (same memo key as takes(h, 3), C04), yet the call of h
inside takes is refused with UndeclaredDependencyError, unless takes(h, 3) happens to be memoized already."""
import sys; sys.path.insert(0, "/tmp/audit3_C3")
from common import *
PROG = '''
from twosigma.memento import memento_function
@memento_function
def h(x):
    return x * 100
@memento_function
def takes(fn, x):
    return fn(x)
'''
d = setup("c14x1", {"prog.py": PROG})
import prog
bad = []
print("takes(h, 2) ->", prog.takes(prog.h, 2))
for label, th in [("takes.partial(h)(3)", lambda: prog.takes.partial(prog.h)(3)), ("takes.partial(fn=h)(4)", lambda: prog.takes.partial(fn=prog.h)(4))]:
    try:
        print(label, "->", th())
    except Exception as e:
        bad.append("%s raised %s" % (label, type(e).__name__))
if bad:
    print("VIOLATION (C14, false refusal): " + "; ".join(bad)); sys.exit(1)
print("holds"); sys.exit(0)
