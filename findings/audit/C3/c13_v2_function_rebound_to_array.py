"""C13: a name that held a plain helper function is rebound to a numpy array / pandas Series (both legitimate values of a module
variable; 1-d float arrays are a tracked variable type).  NonMementoFunctionHashRule.did_change evaluates `self.src_fn != new_fn`, which numpy
/ pandas answer element-wise; _update_dependencies then takes the truth value of an array: version() and every call raise ValueError in the
running process, while a fresh process computes a version for the resulting program."""
import sys; sys.path.insert(0, "/tmp/audit3_C3")
from common import *
PROG = '''
import numpy as np
from twosigma.memento import memento_function
def weights():
    return [1.0, 2.0, 3.0]
@memento_function
def f(x):
    w = weights() if callable(weights) else weights
    return float(sum(w)) * x
'''
PROG2 = PROG.replace("def weights():\n    return [1.0, 2.0, 3.0]", "weights = np.array([1.0, 2.0, 4.0])")
d = setup("c13v2", {"prog.py": PROG})
import prog, numpy as np
v1 = prog.f.version(); r1 = prog.f(2)
prog.weights = np.array([1.0, 2.0, 4.0])          # the event: rebinding a module variable
fresh_v = fresh(d, {"prog.py": PROG2})
bad = []
try:
    v2 = prog.f.version()
    if repr(v2) != fresh_v: bad.append("in-process version %r, fresh process %s" % (v2, fresh_v))
except Exception as e:
    bad.append("version() raised %s: %s (fresh process: %s)" % (type(e).__name__, str(e)[:80], fresh_v))
try:
    r2 = prog.f(2)
    if r2 != 14.0: bad.append("f(2) = %r, un-memoized 14.0" % (r2,))
except Exception as e:
    bad.append("f(2) raised %s" % type(e).__name__)
if bad:
    print("VIOLATION (C13): " + "; ".join(bad)); sys.exit(1)
print("holds"); sys.exit(0)
