"""C13: an unregistered wrapper created with the documented constructor parameter calculated_version= ("if a version was previously calculated for this
function, it can be provided") has an EMPTY rule list and a non-None _calculated_version.  _update_dependencies takes `_calculated_version is not None` as
proof that the object validated rules of its own (the D32 repair) and keeps the given version for ever: after a tracked variable is rebound the wrapper
still reports the old version (and serves the old result), while the registered function and a fresh process compute the new one.  Its fn_reference() is None."""
import sys; sys.path.insert(0, "/tmp/audit3_C3")
from common import *
PROG = '''
from twosigma.memento import memento_function
K = 1
@memento_function
def f(x):
    return x + K
'''
d = setup("c13v4", {"prog.py": PROG})
import prog
from twosigma.memento.memento import MementoFunction as MF
v0 = prog.f.version()
w = MF(prog.f.fn, calculated_version=v0, register_fn=False)      # an unregistered wrapper, given the (then correct) version
bad = []
if w.fn_reference() is None: bad.append("wrapper.fn_reference() is None (calling the wrapper raises AttributeError)")
prog.K = 2                                                        # the event: a tracked variable is rebound
fv = fresh(d, {"prog.py": PROG.replace("K = 1", "K = 2")})
got = (w.version(), prog.f.version(), w.version())
print("wrapper / registered function / wrapper again:", got, "fresh process:", fv)
if repr(got[2]) != fv: bad.append("after K = 2 the wrapper reports version %s, a fresh process computes %s" % (got[2], fv))
if bad:
    print("VIOLATION (C13): " + "; ".join(bad)); sys.exit(1)
print("holds"); sys.exit(0)
