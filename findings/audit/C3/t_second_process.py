import sys; sys.path.insert(0, "/tmp/audit3_C3")
from common import *
PROG = '''
import datetime, os
import numpy as np, pandas as pd
from twosigma.memento import memento_function
LOG = os.environ["C3_LOG"]
def ran(tag):
    open(LOG, "a").write(tag + "\\n")
@memento_function
def ident(kind, v):
    ran("ident:" + kind)
    return v
@memento_function
def res(kind):
    ran("res:" + kind)
    return {"none": None, "bool": True, "int": 3, "float": 2.5, "nan": float("nan"), "str": "s", "bytes": b"b", "list": [1, [2]], "dict": {"a": {"b": 1}}, "date": datetime.date(2020, 1, 2),
            "dt": datetime.datetime(2020, 1, 2, 3, 4, 5, 6), "dtz": datetime.datetime(2020, 1, 2, 3, 4, tzinfo=datetime.timezone.utc), "arr": np.arange(3), "df": pd.DataFrame({"a": [1, 2]}),
            "ser": pd.Series([1.0, 2.0]), "emptylist": [], "emptydict": {}, "emptystr": "", "zero": 0, "false": False, "npf": np.float64(1.5), "npi": np.int64(4), "tuple": (1, 2), "set": {1, 2}}[kind]
@memento_function
def outer(fn, x):
    ran("outer")
    return fn("int", x)
ARGS = {"none": None, "bool": True, "int": 3, "float": 2.5, "nan": float("nan"), "inf": float("inf"), "str": "s\\u00e9\\ud800", "list": [1, [2, None]], "dict": {"b": 1, "a": {"c": [True]}},
        "date": datetime.date(2020, 1, 2), "dt": datetime.datetime(2020, 1, 2, 3, 4, 5, 6), "dtz": datetime.datetime(2020, 1, 2, 3, 4, tzinfo=datetime.timezone(datetime.timedelta(hours=5, minutes=30))),
        "fn": ident, "fnp": ident.partial("int"), "big": 2**80, "negzero": -0.0, "e22": 1e22}
def run_all():
    out = []
    for k, v in ARGS.items():
        try:
            ident(k, v); out.append(k)
        except Exception as e:
            out.append(k + "!" + type(e).__name__)
    for k in ["none", "bool", "int", "float", "nan", "str", "bytes", "list", "dict", "date", "dt", "dtz", "arr", "df", "ser", "emptylist", "emptydict", "emptystr", "zero", "false", "npf", "npi", "tuple", "set"]:
        try:
            res(k); out.append(k)
        except Exception as e:
            out.append(k + "!" + type(e).__name__)
    outer(ident, 5)
    return out
'''
d = setup("second", {})
logf = os.path.join(d, "log.txt")
os.environ["C3_LOG"] = logf
store = os.path.join(d, "store")
a = fresh(d, {"prog.py": PROG}, expr="prog.run_all()", store=store)
n1 = open(logf).read().splitlines()
open(logf, "w").close()
b = fresh(d, {"prog.py": PROG}, expr="prog.run_all()", store=store)
n2 = open(logf).read().splitlines()
print(a[-500:]); print("first run bodies:", len(n1)); print("second run bodies:", n2)
