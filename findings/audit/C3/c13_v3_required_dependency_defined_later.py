"""C13 / C03 (definition order): MementoFunction.__init__ -> Environment.register_function calls fn.fn_reference(), i.e. the whole version computation runs
INSIDE the decorator, before the rest of the module exists.  A dependency declared by name (dependencies=["g"] -- the documented way to defer resolution,
"this allows re-binding of functions later") that is defined further down makes the DEFINITION raise DependencyNotFoundError (a RuntimeError): the module
cannot be imported, although the same two definitions in the other order give a version.  Two functions that declare each other can be defined in no order."""
import sys; sys.path.insert(0, "/tmp/audit3_C3")
from common import *
F = '@memento_function(dependencies=["g"])\ndef f(x):\n    return globals()["g"](x) + 1\n'
G = '@memento_function\ndef g(x):\n    return x * 2\n'
H = "from twosigma.memento import memento_function\n"
d = setup("c13v3", {})
a = fresh(d, {"prog.py": H + G + F}, expr="(prog.f.version(), prog.f(1))")
b = fresh(d, {"prog.py": H + F + G}, expr="(prog.f.version(), prog.f(1))")
print("g defined first:", a); print("f defined first:", b.strip().splitlines()[-1][:200])
if a != b:
    print("VIOLATION (C13/C03): the version of f depends on the definition order: %s with g first, with f first the definition itself raises %s" % (a, b.strip().splitlines()[-1][:120])); sys.exit(1)
print("holds"); sys.exit(0)
