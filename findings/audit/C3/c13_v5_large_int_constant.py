"""C13 / C01 (secondary): _stable_repr / hash_if_code_object render an int constant with repr(); CPython >= 3.11 refuses to convert an int of more than
4300 decimal digits to a string.  A function containing such a constant written as a hex literal (a 16384-bit modulus has 4933 digits) cannot be
decorated: the version computation raises ValueError, although the function itself runs."""
import sys; sys.path.insert(0, "/tmp/audit3_C3")
from common import *
PROG = "from twosigma.memento import memento_function\ndef plain(x):\n    return (x + 0x%s) %% 7\nf = None\ntry:\n    f = memento_function(plain)\nexcept Exception as e:\n    err = type(e).__name__ + ': ' + str(e)[:70]\n" % ("f" * 4096)
d = setup("c13v5", {"prog.py": PROG})
import prog
print("un-memoized:", prog.plain(1))
if prog.f is None:
    print("VIOLATION (C13/C01): defining the memento function raised", prog.err); sys.exit(1)
print("version", prog.f.version(), "call", prog.f(1)); sys.exit(0 if prog.f(1) == prog.plain(1) else 1)
