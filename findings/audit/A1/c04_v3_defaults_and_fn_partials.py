"""C04 (lower severity, no wrong result -- a miss where the property promises a hit):
(a) calls that bind equal values to the same parameters do not share a result when one of them relies on a default:
    f(1) and f(1, None) / f(1, b=None) have different keys although the body receives (1, None) each time;
(b) a partially applied function passed AS AN ARGUMENT is keyed by how the partial was written: g.partial(1) and g.partial(x=1)
    denote the same function (and are keyed identically when CALLED) but give different keys for apply(fn).
exit 1 when keys differ, 0 otherwise.
"""
import sys, os, tempfile, logging
sys.path.insert(0, sys.argv[1] if len(sys.argv) > 1 else "/repo")
logging.disable(logging.CRITICAL)
import twosigma.memento as m
from twosigma.memento import Environment, ConfigurationRepository, FunctionCluster
from twosigma.memento.storage_filesystem import FilesystemStorageBackend
store = tempfile.mkdtemp()
m.Environment.set(Environment(name="a1", base_dir=store, repos=[ConfigurationRepository(name="r", clusters={
    "a1": FunctionCluster(name="a1", storage=FilesystemStorageBackend(path=os.path.join(store, "data")))})]))
LOG = os.path.join(store, "log")


@m.memento_function(cluster="a1")
def f(a, b=None):
    with open(LOG, "a") as fh:
        fh.write("f%r\n" % ((a, b),))
    return 1


@m.memento_function(cluster="a1")
def g(x, y):
    return x + y


@m.memento_function(cluster="a1")
def apply(fn):
    with open(LOG, "a") as fh:
        fh.write("apply\n")
    return fn(10)


bad = []
keys = {n: r.arg_hash[:12] for n, r in {"f(1)": f.fn_reference().with_args(1), "f(1, None)": f.fn_reference().with_args(1, None), "f(1, b=None)": f.fn_reference().with_args(1, b=None)}.items()}
print(keys)
f(1); f(1, None); f(1, b=None)
runs = [l for l in open(LOG).read().splitlines() if l.startswith("f")]
print("body runs:", runs)
if len(runs) != 1:
    bad.append("defaults: %d evaluations of the same binding" % len(runs))
k1, k2 = g.partial(1).fn_reference().with_args(10).arg_hash, g.partial(x=1).fn_reference().with_args(10).arg_hash
a1, a2 = apply.fn_reference().with_args(g.partial(1)).arg_hash, apply.fn_reference().with_args(g.partial(x=1)).arg_hash
print("called:   g.partial(1)(10) %s  g.partial(x=1)(10) %s  same=%s" % (k1[:12], k2[:12], k1 == k2))
print("as value: apply(g.partial(1)) %s  apply(g.partial(x=1)) %s  same=%s" % (a1[:12], a2[:12], a1 == a2))
apply(g.partial(1)); apply(g.partial(x=1))
n = open(LOG).read().count("apply")
print("apply body runs:", n)
if a1 != a2:
    bad.append("function-valued argument keyed by presentation of its partial")
print("VIOLATION:" if bad else "holds", bad)
sys.exit(1 if bad else 0)
