"""C07 -- BlobStrategy.store: the stated precondition 'an override key does not start with c/' does not keep user keys off the content
addresses: DataSource keys are turned into paths, and './c/<h>' or 'x/../c/<h>' name the same link file as 'c/<h>'.  The assumed contract
of DataSource.output ('every other key k != key.key keeps its latest version') is false for _FilesystemDataSource.
exit 1 = a result stored WITHOUT override under its SHA-256 reads other bytes."""
import sys, tempfile, hashlib, pickle
sys.path.insert(0, "/tmp/audit3_C1")
from harness import *
bad = []
probe = FilesystemStorageBackend(path=tempfile.mkdtemp(prefix="c1o_"))
probe.memoize(None, mk_memento(f_, 1, "X"), "X")
h = probe.get_memento(fwh(f_, 1)).content_key.key[2:]
for ko in ("./c/" + h, "x/../c/" + h):
    assert not ko.startswith("c/")
    b = FilesystemStorageBackend(path=tempfile.mkdtemp(prefix="c1o_"))
    b.memoize(ko, mk_memento(f, 1, "Y"), "Y")           # a user-chosen key, satisfies the stated precondition
    b.memoize(None, mk_memento(ff, 1, "X"), "X")        # content-addressed result
    got = FilesystemStorageBackend(path=b.config_path).read_result(b.get_memento(fwh(ff, 1)))
    if got != "X":
        bad.append("override key %r...: ff(1) memoized as 'X' reads %r (deduplicated onto the user's object)" % (ko[:10], got))
print("\n".join(bad) or "ok"); sys.exit(1 if bad else 0)
