"""C07 / C05 -- StorageBackendBase.read_result (and MemoryCache.read_result / put) with a memento that is no longer the current one.
C07: 'A memento keeps reading exactly the bytes that were stored when it was created, whatever is memoized, overwritten ... or forgotten afterwards.'
C05: the backend with a memory cache answers like the one without; nothing forgotten ever reappears; reads return the last value written.
exit 1 = violated."""
import sys, tempfile
sys.path.insert(0, "/tmp/audit3_C1")
from harness import *
bad = []
for label, kw in (("fs", {}), ("fs+cache", {"memory_cache_mb": 1})):
    # 1. overwrite, then read through the memento obtained before
    b = FilesystemStorageBackend(path=tempfile.mkdtemp(prefix="c1s_"), **kw)
    b.memoize(None, mk_memento(f, 1, "old"), "old")
    m_old = b.get_memento(fwh(f, 1))
    b.memoize(None, mk_memento(f, 1, "new"), "new")
    got = b.read_result(m_old)
    if got != "old":
        bad.append("%s: a memento created for 'old' reads %r after the call was memoized again" % (label, got))
    # 2. the new value is too big for the cache: reading the older memento installs it as the CURRENT entry
    b = FilesystemStorageBackend(path=tempfile.mkdtemp(prefix="c1s_"), **kw)
    b.memoize(None, mk_memento(f, 1, "old"), "old")
    m_old = b.get_memento(fwh(f, 1))
    big = "n" * 3_000_000
    b.memoize(None, mk_memento(f, 1, big), big)
    b.read_result(m_old)
    cur = b.read_result(b.get_memento(fwh(f, 1)))
    if cur != big:
        bad.append("%s: after reading an older memento, a fresh look-up + read of the call returns %r (the store holds the 3 MB value written last)" % (label, cur[:10]))
    # 3. forget, then read through the memento obtained before (the data object is kept by design): the call is memoized again
    b = FilesystemStorageBackend(path=tempfile.mkdtemp(prefix="c1s_"), **kw)
    b.memoize(None, mk_memento(f, 1, "v"), "v")
    m1 = b.get_memento(fwh(f, 1))
    b.forget_call(fwh(f, 1))
    b.read_result(m1)
    if b.is_memoized(f.fn_reference(), fwh(f, 1).arg_hash) or b.get_memento(fwh(f, 1)) is not None:
        bad.append("%s: a forgotten call is reported as memoized again after its old memento was read (list_functions: %r)" % (label, [x.qualified_name for x in b.list_functions()]))
print("\n".join(bad) or "older mementos read their own bytes and leave the dictionary alone")
sys.exit(1 if bad else 0)
