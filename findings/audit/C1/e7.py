import sys, tempfile, os
sys.path.insert(0, "/tmp/audit3_C1")
from harness import *
from twosigma.memento.storage_null import NullStorageBackend
n = NullStorageBackend(config={"readonly": True})
print("null read_only", n.read_only)
for op in (lambda: n.forget_call(fwh(f, 1)), lambda: n.forget_everything(), lambda: n.write_metadata(fwh(f, 1), "k", b"v")):
    try: op(); print("  not rejected")
    except ValueError as e: print("  rejected")
b = FilesystemStorageBackend(path=tempfile.mkdtemp(prefix="c1e7_"))
b.memoize(None, mk_memento(f, 1, "v"), "v")
b.write_metadata(fwh(f, 1), "50%25", b"x")
b.forget_call(fwh(f, 1))
b.memoize(None, mk_memento(f, 1, "v2"), "v2")
print("percent key after forget+rememoize:", b.read_metadata(fwh(f, 1), "50%25"))
# numpy view
from twosigma.memento.storage_base import MemoryCache
a = np.arange(2_000_000).reshape(1000, 2000)
c = MemoryCache(1); c.put(mk_memento(f, 1, a), a, True)
print("16 MB array view resident in 1 MiB cache:", bool(c.cache), c.memory_usage)
# empty uuid dir left by a crash between makedirs and open
b = FilesystemStorageBackend(path=tempfile.mkdtemp(prefix="c1e7_"))
b.memoize(None, mk_memento(f, 1, "v"), "v")
qd = [d for d in os.listdir(b.config_path + "/m")][0]
os.makedirs(b.config_path + "/m/" + qd + "/.versions/dead-uuid")
b.forget_call(fwh(f, 1))
print("after forget_call of the only call:", [x.qualified_name for x in b.list_functions()])
