import sys, tempfile, hashlib, os, pickle
sys.path.insert(0, "/tmp/audit3_C1")
from harness import *
# './c/<sha>' override aliasing the content address without starting with 'c/'
b = FilesystemStorageBackend(path=tempfile.mkdtemp(prefix="c1e4_"))
sha = hashlib.sha256(pickle.dumps("X", protocol=pickle.HIGHEST_PROTOCOL)).hexdigest()
b.memoize(None, mk_memento(f_, 1, "X"), "X")
ck = b.get_memento(fwh(f_, 1)).content_key
print(ck.key == "c/" + sha)
for ko in ("./c/" + ck.key[2:], "x/../c/" + ck.key[2:]):
    b = FilesystemStorageBackend(path=tempfile.mkdtemp(prefix="c1e4_"))
    b.memoize(ko, mk_memento(f, 1, "Y"), "Y")
    b.memoize(None, mk_memento(ff, 1, "X"), "X")
    got = FilesystemStorageBackend(path=b.config_path).read_result(b.get_memento(fwh(ff, 1)))
    print(repr(ko[:12]), "ff(1) memoized as 'X' reads", repr(got))
