import sys, tempfile
sys.path.insert(0, "/tmp/audit3_C1")
from harness import *
b = FilesystemStorageBackend(path=tempfile.mkdtemp(prefix="c1e5_"), memory_cache_mb=1)
b.memoize(None, mk_memento(f, 1, "old"), "old")
m_old = b.get_memento(fwh(f, 1))
big = "n" * 3_000_000
b.memoize(None, mk_memento(f, 1, big), big)       # overwrite; oversize for the cache -> not resident
print("stale handle reads:", b.read_result(m_old)[:5])
cur = b.get_memento(fwh(f, 1))
print("fresh lookup returns stale memento object:", cur is m_old, "reads", b.read_result(cur)[:5])
fresh = FilesystemStorageBackend(path=b.config_path)
print("store holds:", fresh.read_result(fresh.get_memento(fwh(f, 1)))[:5])
