"""C05 -- a version string containing '/' (accepted by @memento_function(version=...)): 'forgetting removes exactly its scope and nothing
else', 'listings enumerate exactly the live entries', identically for the filesystem backend (with / without cache) and the memory backend.
Hidden by the stated assumption "qualified names contain no '/'" and by the ensures of forget_function, which is written with the code's
own prefix test  k.startswith(qualified_name + '/').   exit 1 = violated."""
import sys, tempfile
sys.path.insert(0, "/tmp/audit3_C1")
from harness import *
import twosigma.memento as m


@m.memento_function(version="2024")
def g(x): return x
g_a = g


@m.memento_function(version="2024/q1")
def g(x): return x
g_b = g

bad = []
for name, mk in (("fs", lambda: FilesystemStorageBackend(path=tempfile.mkdtemp(prefix="c1v_"))),
                 ("fs+cache", lambda: FilesystemStorageBackend(path=tempfile.mkdtemp(prefix="c1v_"), memory_cache_mb=1)),
                 ("mem", MemoryStorageBackend)):
    b = mk()
    b.memoize(None, mk_memento(g_a, 1, "a"), "a")
    b.memoize(None, mk_memento(g_b, 1, "b"), "b")
    want = sorted([g_a.fn_reference().qualified_name, g_b.fn_reference().qualified_name])
    got = sorted(x.qualified_name for x in b.list_functions())
    if got != want:
        bad.append("%s: list_functions() = %r, live functions are %r" % (name, got, want))
    b.forget_function(g_a.fn_reference())
    if not b.is_memoized(g_b.fn_reference(), fwh(g_b, 1).arg_hash):
        bad.append("%s: forget_function(%s) also forgot %s" % (name, want[0], want[1]))
print("\n".join(bad) or "ok"); sys.exit(1 if bad else 0)
