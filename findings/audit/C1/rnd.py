import sys, os, random, tempfile, logging, gc, datetime
sys.path.insert(0, "/tmp/audit3_C1")
logging.disable(logging.CRITICAL)
from harness import *
import pandas as pd
from twosigma.memento.exception import MementoException
from twosigma.memento.partition import InMemoryPartition

def val(r):
    k = r.randrange(16)
    if k == 0: return r.randrange(5)
    if k == 1: return "s" * r.choice([0, 1, 300, 3000])
    if k == 2: return np.arange(r.choice([0, 3, 100, 2000])) + r.randrange(3)
    if k == 3: return pd.DataFrame({"a": np.arange(r.choice([0, 2, 150, 1500])) + r.randrange(3)})
    if k == 4: return pd.Series(np.arange(r.choice([2, 150])) + r.randrange(3))
    if k == 5: return None
    if k == 6: return [r.randrange(3)] * r.choice([0, 1, 50])
    if k == 7: return {"k": r.randrange(3)} if r.random() < .7 else {}
    if k == 8: return r.choice([True, False])
    if k == 9: return r.choice([0.5, float("inf"), -0.0])
    if k == 10: return b"b" * r.choice([0, 5, 2000])
    if k == 11: return r.choice([datetime.date(2020, 1, 1 + r.randrange(3)), datetime.datetime(2020, 1, 1, tzinfo=datetime.timezone.utc)])
    if k == 12: return pd.Index(np.arange(r.choice([0, 3, 500])))
    if k == 13: return [[1, [2, "x"]], {"a": [None]}]
    if k == 14: return MementoException("python::builtins:ValueError", "boom%d" % r.randrange(2), "trace")
    return (np.arange(r.choice([3, 400])) + .5).astype(r.choice(["float32", "float64", "int8", "bool"]))

def same(a, b):
    if isinstance(a, (pd.DataFrame, pd.Series, pd.Index)): return type(a) == type(b) and a.equals(b)
    if isinstance(a, MementoException): return isinstance(b, MementoException) and (a.exception_name, a.message) == (b.exception_name, b.message)
    if isinstance(a, np.ndarray): return isinstance(b, np.ndarray) and a.dtype == b.dtype and a.shape == b.shape and bool((a == b).all())
    if isinstance(a, float) and isinstance(b, float): return repr(a) == repr(b)
    return type(a) == type(b) and a == b

fns = [f1, f10, ff, f_]
def run(seed, nops=70):
    r = random.Random(seed)
    tmp = tempfile.mkdtemp(prefix="rnd_", dir="/tmp/audit3_C1/rndtmp")
    bs = backends(tmp)
    model = {}; meta = {}
    keep = []
    for step in range(nops):
        op = r.choice(["mem", "mem", "mem", "memko", "read", "read", "readl", "ism", "fc", "ff", "fe", "lf", "lm", "wm", "rm", "drop", "allm", "getm"])
        fn = r.choice(fns); a = r.randrange(3); key = (fn.fn_reference().qualified_name, a)
        for name, b in bs.items():
            try:
                if op in ("mem", "memko"):
                    r2 = random.Random(seed * 1000 + step); v = val(r2)
                    b.memoize(("ov%d" % r2.randrange(2)) if op == "memko" else None, mk_memento(fn, a, v), v)
                    keep.append(v)
                    model[key] = v
                elif op == "read":
                    mem = b.get_memento(fwh(fn, a))
                    if (mem is not None) != (key in model): return "seed %d step %d %s: get_memento(%s) present=%s model=%s" % (seed, step, name, key, mem is not None, key in model)
                    if mem is not None:
                        got = b.read_result(mem); keep.append(got)
                        if not same(got, model[key]): return "seed %d step %d %s: read %r want %r" % (seed, step, name, got, model[key])
                elif op == "readl":
                    for mem in b.list_mementos(fn.fn_reference()):
                        k2 = (key[0], mem.invocation_metadata.fn_reference_with_args.args[0])
                        got = b.read_result(mem)
                        if not same(got, model[k2]): return "seed %d step %d %s: readl %r want %r" % (seed, step, name, got, model[k2])
                elif op == "getm":
                    qs = [(r3.choice(fns), r3.randrange(3)) for r3 in [random.Random(seed * 77 + step)] for _ in range(5)]
                    got = b.get_mementos([fwh(g, x) for g, x in qs])
                    want = [(g.fn_reference().qualified_name, x) in model for g, x in qs]
                    if [m_ is not None for m_ in got] != want: return "seed %d step %d %s: get_mementos %r want %r" % (seed, step, name, [m_ is not None for m_ in got], want)
                    for m_, (g, x) in zip(got, qs):
                        if m_ is not None and (m_.invocation_metadata.fn_reference_with_args.fn_reference.qualified_name, m_.invocation_metadata.fn_reference_with_args.args[0]) != (g.fn_reference().qualified_name, x):
                            return "seed %d step %d %s: get_mementos wrong memento" % (seed, step, name)
                elif op == "ism":
                    got = bool(b.is_memoized(fn.fn_reference(), fwh(fn, a).arg_hash))
                    if got != (key in model): return "seed %d step %d %s: is_memoized(%s)=%s" % (seed, step, name, key, got)
                elif op == "allm":
                    lst = [fn.fn_reference().with_args(x) for x in (0, 1, 1, 2)]
                    got = bool(b.is_all_memoized(lst)); want = all((key[0], x) in model for x in range(3))
                    if got != want: return "seed %d step %d %s: is_all_memoized=%s want %s" % (seed, step, name, got, want)
                elif op == "fc":
                    b.forget_call(fwh(fn, a)); model.pop(key, None); [meta.pop(k) for k in list(meta) if k[0] == key]
                elif op == "ff":
                    b.forget_function(fn.fn_reference())
                    for k in list(model):
                        if k[0] == key[0]: del model[k]
                    [meta.pop(k) for k in list(meta) if k[0][0] == key[0]]
                elif op == "fe":
                    b.forget_everything(); model.clear(); meta.clear()
                elif op == "lf":
                    got = sorted(x.qualified_name for x in b.list_functions()); want = sorted(set(k[0] for k in model))
                    if got != want: return "seed %d step %d %s: list_functions %r want %r" % (seed, step, name, got, want)
                elif op == "lm":
                    got = sorted(m_.invocation_metadata.fn_reference_with_args.args[0] for m_ in b.list_mementos(fn.fn_reference())); want = sorted(k[1] for k in model if k[0] == key[0])
                    if got != want: return "seed %d step %d %s: list_mementos %r want %r" % (seed, step, name, got, want)
                elif op == "wm":
                    if key in model:
                        mk_ = "mk%d" % (step % 2); v = b"m%d" % step if step % 3 else b""; b.write_metadata(fwh(fn, a), mk_, v); meta[(key, mk_)] = v
                elif op == "rm":
                    for mk_ in ("mk0", "mk1"):
                        got = b.read_metadata(fwh(fn, a), mk_)
                        if got != meta.get((key, mk_)): return "seed %d step %d %s: read_metadata %r want %r" % (seed, step, name, got, meta.get((key, mk_)))
                elif op == "drop":
                    del keep[:len(keep) // 2]; gc.collect()
            except Exception as e:
                import traceback; return "seed %d step %d %s op %s: raised %s" % (seed, step, name, op, traceback.format_exc()[-900:])
        for name, b in bs.items():
            c = getattr(b, "_memory_cache", None)
            if c is not None:
                if c.memory_usage != sum(e.obj_size for e in c.cache.values()) or c.memory_usage > c.memory_cache_bytes or sorted(c.cache) != sorted(c.lru_deque):
                    return "seed %d step %d %s: cache invariant broken" % (seed, step, name)
                if not model and (c.cache or len(c.refs)): return "seed %d step %d %s: cache not empty after everything forgotten" % (seed, step, name)
    return None
os.makedirs("/tmp/audit3_C1/rndtmp", exist_ok=True)
bad = []
for seed in range(int(sys.argv[1]), int(sys.argv[2])):
    x = run(seed)
    if x: bad.append(x); print(x)
    if len(bad) > 5: break
print("done", len(bad))
