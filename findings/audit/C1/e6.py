import sys, tempfile
sys.path.insert(0, "/tmp/audit3_C1")
from harness import *
for kw in ({}, {"memory_cache_mb": 1}):
    b = FilesystemStorageBackend(path=tempfile.mkdtemp(prefix="c1e6_"), **kw)
    b.memoize(None, mk_memento(f, 1, "v"), "v")
    m1 = b.get_memento(fwh(f, 1))
    b.forget_call(fwh(f, 1))
    print(kw, "after forget: memoized?", b.is_memoized(f.fn_reference(), fwh(f, 1).arg_hash))
    print(kw, "held memento still reads", b.read_result(m1))
    print(kw, "after that read: memoized?", b.is_memoized(f.fn_reference(), fwh(f, 1).arg_hash), "lookup:", b.get_memento(fwh(f, 1)) is not None,
          "listed:", [x.qualified_name for x in b.list_functions()])
