"""C05, minor -- (a) custom metadata written for a call that is not memoized makes the filesystem backend list the function
(StorageBackendBase.list_functions has no clause about its content; the memory backend does not list it);
(b) MemoryStorageBackend.is_memoized answers None / {} instead of False (contract clause: truthy(result) == HASM, taken from the code).
exit 1 = violated."""
import sys, tempfile
sys.path.insert(0, "/tmp/audit3_C1")
from harness import *
bad = []
for name, mk in (("fs", lambda: FilesystemStorageBackend(path=tempfile.mkdtemp(prefix="c1m_"))), ("mem", MemoryStorageBackend)):
    b = mk()
    b.write_metadata(fwh(f, 1), "k", b"v")
    lf = [x.qualified_name for x in b.list_functions()]
    if lf:
        bad.append("(a) %s: no call is memoized, list_functions() = %r" % (name, lf))
    r = b.is_memoized(ff.fn_reference(), fwh(ff, 1).arg_hash)
    if r is not False:
        bad.append("(b) %s: is_memoized of an unknown function returns %r" % (name, r))
    b.get_mementos([fwh(ff, 1)])
    r = b.is_memoized(ff.fn_reference(), fwh(ff, 1).arg_hash)
    if r is not False:
        bad.append("(b) %s: is_memoized after a look-up returns %r" % (name, r))
print("\n".join(bad) or "ok"); sys.exit(1 if bad else 0)
