import sys, tempfile, hashlib, os
sys.path.insert(0, "/tmp/audit3_C1")
from harness import *
b = FilesystemStorageBackend(path=tempfile.mkdtemp(prefix="c1e3_"))
b.memoize(None, mk_memento(f, 1, "value"), "value")
b.memoize(None, mk_memento(ff, 7, "value"), "value")
m1 = b.get_memento(fwh(f, 1))
print("before", b.read_result(m1))
b.write_metadata(fwh(f, 1), "", b"log text", store_with_content_key=m1.content_key)
try:
    print("after f(1):", repr(b.read_result(b.get_memento(fwh(f, 1)))))
except Exception as e:
    print("after f(1) raises", repr(e))
try:
    print("after ff(7):", repr(b.read_result(b.get_memento(fwh(ff, 7)))))
except Exception as e:
    print("after ff(7) raises", repr(e))
p = b._data_source._get_path_versioned(m1.content_key)
data = open(p, "rb").read()
print(hashlib.sha256(data).hexdigest() == m1.content_key.key[2:], data)
# E4: metadata only
for name, mk in (("fs", lambda: FilesystemStorageBackend(path=tempfile.mkdtemp(prefix="c1e3_"))), ("mem", MemoryStorageBackend)):
    b = mk()
    b.write_metadata(fwh(f, 1), "k", b"v")
    print(name, "list_functions after metadata-only write:", [x.qualified_name for x in b.list_functions()], "list_mementos", b.list_mementos(f.fn_reference()))
    b.memoize(None, mk_memento(f, 2, 2), 2)
    b.forget_function(f.fn_reference())
    print(name, "metadata after forget_function:", b.read_metadata(fwh(f, 1), "k"))
