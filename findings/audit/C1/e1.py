import sys, tempfile
sys.path.insert(0, "/tmp/audit3_C1")
from harness import *
for kw in ({}, {"memory_cache_mb": 1}):
    b = FilesystemStorageBackend(path=tempfile.mkdtemp(prefix="c1e1_"), **kw)
    b.memoize(None, mk_memento(f, 1, "old"), "old")
    m_old = b.get_memento(fwh(f, 1))
    print(kw, "read old:", b.read_result(m_old))
    b.memoize(None, mk_memento(f, 1, "new"), "new")
    print(kw, "old memento after overwrite reads:", b.read_result(m_old), "content_key", m_old.content_key)
    m_new = b.get_memento(fwh(f, 1))
    print(kw, "new memento reads:", b.read_result(m_new))
    # key override variant
    b.memoize("shared/key", mk_memento(f, 2, "A"), "A")
    mA = b.get_memento(fwh(f, 2))
    b.memoize("shared/key", mk_memento(f, 2, "B"), "B")
    print(kw, "override: old memento reads", b.read_result(mA))
mb = MemoryStorageBackend()
mb.memoize(None, mk_memento(f, 1, "old"), "old")
m_old = mb.get_memento(fwh(f, 1))
mb.memoize(None, mk_memento(f, 1, "new"), "new")
print("mem: old memento reads", mb.read_result(m_old))
