"""C07 / C05 -- StorageBackendBase.write_metadata(..., store_with_content_key=ck) with the metadata key '':
_FilesystemDataSource._get_path_versioned(ck, metadata_key='') tests `if metadata_key:` and returns the path of the DATA OBJECT, so
output_metadata overwrites the content-addressed blob in place.  Public API: fn.put_metadata('', value, *args, store_with_data=True).
C07: 'the bytes found under a content key always hash to that key'; 'a memento keeps reading exactly the bytes that were stored'.
exit 1 = violated."""
import sys, tempfile, hashlib, glob, os, logging
sys.path.insert(0, "/repo")
logging.disable(logging.CRITICAL)
import twosigma.memento as m
from twosigma.memento.storage_filesystem import FilesystemStorageBackend

bad = []


@m.memento_function
def g(x):
    return "same result"


@m.memento_function
def h(x):
    return "same result"      # another function producing the same bytes: shares the content object


store = tempfile.mkdtemp(prefix="c1mk_")
m.Environment.get().default_cluster.storage = FilesystemStorageBackend(path=store)
g(1); h(1)
g.put_metadata("", b"log of g(1)", 1, store_with_data=True)
for link in glob.glob(store + "/c/*.link"):
    target = open(link).read(); key = os.path.basename(link)[:-5]
    if hashlib.sha256(open(target, "rb").read()).hexdigest() != key:
        bad.append("content key c/%s... now holds %r" % (key[:12], open(target, "rb").read()))
for fn in (g, h):
    try:
        got = fn(1)
        if got != "same result":
            bad.append("%s(1) returns %r" % (fn.__name__, got))
    except Exception as e:
        bad.append("%s(1) raises %r on every call" % (fn.__name__, e))
print("\n".join(bad) or "metadata with an empty key leaves the data object alone")
sys.exit(1 if bad else 0)
