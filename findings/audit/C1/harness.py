import sys, datetime, tempfile, os, random
sys.path.insert(0, "/repo")
import numpy as np
import twosigma.memento as m
from twosigma.memento.metadata import Memento, InvocationMetadata, ResultType
from twosigma.memento.reference import FunctionReferenceWithArgHash
from twosigma.memento.storage_filesystem import FilesystemStorageBackend
from twosigma.memento.storage_memory import MemoryStorageBackend


@m.memento_function(version="1")
def f(x): return x


@m.memento_function(version="10")
def ff(x): return x


@m.memento_function(version="1")
def f_(x): return x


f1 = f


@m.memento_function(version="10")
def f(x): return x


f10 = f
f = f1


FNS = {"f#1": f, "ff#10": ff, "f_#1": f_}


def mk_memento(fn, arg, value):
    ref = fn.fn_reference().with_args(arg)
    return Memento(time=datetime.datetime.now(datetime.timezone.utc),
                   invocation_metadata=InvocationMetadata(fn_reference_with_args=ref, invocations=[], resources=[],
                                                          runtime=datetime.timedelta(0), result_type=ResultType.from_object(value)),
                   function_dependencies=set(), runner={}, correlation_id="c", content_key=None)


def fwh(fn, arg):
    return fn.fn_reference().with_args(arg).fn_reference_with_arg_hash()


def eqv(a, b):
    if isinstance(a, np.ndarray) or isinstance(b, np.ndarray):
        return isinstance(a, np.ndarray) and isinstance(b, np.ndarray) and a.shape == b.shape and bool((a == b).all())
    return type(a) == type(b) and a == b


def backends(tmp):
    out = {}
    out["fs"] = FilesystemStorageBackend(path=os.path.join(tmp, "fs"))
    out["fs_cache_small"] = FilesystemStorageBackend(path=os.path.join(tmp, "fsc"), memory_cache_mb=0.0005)
    out["fs_cache_big"] = FilesystemStorageBackend(path=os.path.join(tmp, "fsb"), memory_cache_mb=10)
    out["fs_sepmeta"] = FilesystemStorageBackend(path=os.path.join(tmp, "fsd"), metadata_path=os.path.join(tmp, "fsm"), memory_cache_mb=0.0005)
    out["mem"] = MemoryStorageBackend()
    return out
