import sys, tempfile
sys.path.insert(0, "/tmp/audit3_C1")
from harness import *
import twosigma.memento as m

@m.memento_function(version="2024")
def g(x): return x
g_a = g
@m.memento_function(version="2024/q1")
def g(x): return x
g_b = g
print(g_a.fn_reference().qualified_name, g_b.fn_reference().qualified_name)
for name, mk in (("fs", lambda: FilesystemStorageBackend(path=tempfile.mkdtemp(prefix="c1e2_"))),
                 ("fs+cache", lambda: FilesystemStorageBackend(path=tempfile.mkdtemp(prefix="c1e2_"), memory_cache_mb=1)),
                 ("mem", MemoryStorageBackend)):
    b = mk()
    b.memoize(None, mk_memento(g_a, 1, "a"), "a")
    b.memoize(None, mk_memento(g_b, 1, "b"), "b")
    try:
        print(name, "list_functions", sorted(x.qualified_name for x in b.list_functions()))
    except Exception as e:
        print(name, "list_functions raises", repr(e))
    try:
        print(name, "list_mementos(g_a)", len(b.list_mementos(g_a.fn_reference())))
    except Exception as e:
        print(name, "list_mementos raises", repr(e))
    b.forget_function(g_a.fn_reference())
    print(name, "after forget_function(g#2024): g#2024/q1 memoized?", bool(b.is_memoized(g_b.fn_reference(), fwh(g_b, 1).arg_hash)), b.get_memento(fwh(g_b,1)) is not None)
