import sys; sys.path.insert(0, "/repo")
import logging; logging.disable(logging.CRITICAL)
from twosigma.memento.reference import FunctionReference as FR
for qn in ["nomod:f", "c::nomod:f", "json:dumps"]:
    try:
        r = FR.from_qualified_name(qn); print(qn, "->", r.qualified_name, r.external)
    except BaseException as e:
        print(qn, "RAISED", type(e).__name__, e)
