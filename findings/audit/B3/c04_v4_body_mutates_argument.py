"""C04 / C11: 'the function body receives exactly the normalized values the key was computed from' + 'the argument hash recomputed from the
decoded arguments equals the original one'.
FunctionReferenceWithArguments keeps ONE set of normalised objects: self.args / self.kwargs, effective_kwargs (what the body receives) and the
values later written to the .memento.json are the same list / dict objects.  A body that mutates a list or dict argument (ordinary Python)
therefore rewrites the arguments of its own memento AFTER the key was computed: the entry is stored under key(original arguments) but records
the mutated arguments; every reader recomputes another hash, memento queries by argument show the wrong arguments, and the caller's
invocation record points to a key that does not exist.   exit 1 when stored arguments and key disagree."""
from common import *
store = setup()

@m.memento_function(cluster="b3")
def total(xs, opts):
    xs.append(sum(xs))          # mutates its (normalised, private) copy -- the caller's list is untouched
    opts.pop("scale")
    return xs[-1]

@m.memento_function(cluster="b3")
def caller():
    return total([1, 2], {"scale": 1})

mine = [1, 2]
r = total(mine, {"scale": 1})
key = total.fn_reference().with_args([1, 2], {"scale": 1}).arg_hash
me = total.list_mementos()[0]
fwa = me.invocation_metadata.fn_reference_with_args
print("called total([1, 2], {'scale': 1}) ->", r, "; caller's list still", mine)
print("entry stored under key", key[:12], "; recorded arguments", fwa.args, "; hash recomputed from them", fwa.arg_hash[:12])
bad = []
if fwa.arg_hash != key: bad.append("the memento records other arguments than the ones its key was computed from")
total.forget_all(); caller()
inv = caller.memento().invocation_metadata.invocations[0]
st = m.Environment.get().get_cluster("b3").storage
if st.get_memento(inv.fn_reference_with_arg_hash()) is None:
    bad.append("the caller's recorded invocation %s (hash %s) does not exist in the store" % (inv.effective_kwargs, inv.arg_hash[:12]))
print("\n".join(bad) or "consistent")
sys.exit(1 if bad else 0)
