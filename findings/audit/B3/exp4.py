from hist import run
S2 = '''
import lib, traceback
for what, f in [("top(1)", lambda: lib.top(1)), ("top.memento(1)", lambda: lib.top.memento(1)), ("top.list_mementos()", lambda: lib.top.list_mementos())]:
    try:
        r = f()
        print(what, "->", r)
    except BaseException as e:
        print(what, "RAISED", type(e).__name__, e)
        traceback.print_exc(limit=-4)
'''
def show(tag, outs):
    print("=====", tag)
    for o in outs:
        print(o[0]); print(o[1]); print(o[2][-1200:])

# scenario A: callee lives in another module that later fails to import with ImportError (a name it imports was removed)
A1 = {"lib.py": '''
    import twosigma.memento as m
    import depmod
    @m.memento_function(cluster="c1", version="1")
    def top(x):
        return depmod.dep(x) * 10
''', "depmod.py": '''
    import twosigma.memento as m
    from helper import K
    @m.memento_function(cluster="c1")
    def dep(a):
        return a + K
''', "helper.py": "K = 2\n"}
A2 = {"lib.py": '''
    import twosigma.memento as m
    import newdep
    @m.memento_function(cluster="c1", version="1")
    def top(x):
        return newdep.dep(x) * 10
''', "newdep.py": '''
    import twosigma.memento as m
    @m.memento_function(cluster="c1")
    def dep(a):
        return a + 2
''', "helper.py": "K2 = 2\n"}   # depmod.py stays on disk, obsolete: 'from helper import K' now raises ImportError
show("A ImportError", run([(A1, "import lib\nprint(lib.top(1))\n"), (A2, S2)]))

# scenario B: function-valued argument whose function is later removed
B1 = {"lib.py": '''
    import twosigma.memento as m
    @m.memento_function(cluster="c1")
    def g(a):
        return a + 1
    @m.memento_function(cluster="c1", version="1")
    def top(x, fn=None):
        return 7
'''}
B2 = {"lib.py": '''
    import twosigma.memento as m
    @m.memento_function(cluster="c1", version="1")
    def top(x, fn=None):
        return 7
'''}
show("B fn arg removed", run([(B1, "import lib\nprint(lib.top(1, lib.g))\nprint(lib.top(2, lib.g.partial(5)))\nprint(lib.top(1))"), (B2, S2)]))
