from hist import run
import sys
# scenario 1: callee with pinned explicit version loses a parameter; caller pinned
V1 = {"lib.py": '''
    import twosigma.memento as m
    @m.memento_function(cluster="c1", version="1")
    def dep(a, b):
        return a + b
    @m.memento_function(cluster="c1", version="1")
    def top(x):
        return dep(x, 2) * 10
'''}
V2 = {"lib.py": '''
    import twosigma.memento as m
    @m.memento_function(cluster="c1", version="1")
    def dep(a):
        return a + 2
    @m.memento_function(cluster="c1", version="1")
    def top(x):
        return dep(x, 2) * 10
'''}
S1 = '''
import lib
print("top(1) =", lib.top(1))
'''
S2 = '''
import lib, traceback
for what, f in [("top(1)", lambda: lib.top(1)), ("top.memento(1)", lambda: lib.top.memento(1)), ("top.list_mementos()", lambda: lib.top.list_mementos()),
                ("dep.list_mementos()", lambda: lib.dep.list_mementos())]:
    try:
        print(what, "->", f())
    except BaseException as e:
        print(what, "RAISED", type(e).__name__, e)
'''
for o in run([(V1, S1), (V2, S2)]):
    print(o[0]); print(o[1]); print(o[2][-1500:])
