"""C18: 'Every documented backend option given in a configuration object or file (... memory cache size, read-only flag ...) has the same effect
as the equivalent constructor argument', over {inline dict, JSON file, YAML file with template parameters}.
The contracts assume CFG_TYPED (numbers / booleans already typed); nothing between the file loader and the constructors establishes it.
A value that reaches the file quoted -- the usual result of templating: readonly: "{{ ro }}", memory_cache_mb: "{{ mb }}" -- is used untyped:
  readonly: "false"        -> the non-empty string is truthy: the store is READ-ONLY, results are silently never written (body runs on every call)
  memory_cache_mb: "7"     -> MemoryCache budget = "7" * 1024 * 1024 (a 1 MiB string): to_dict() raises TypeError, so Environment.to_dict() fails,
                              and the budget comparison is str-vs-int
while FilesystemStorageBackend(read_only=False) / (memory_cache_mb=7) behave as documented.  exit 1 when the option is not honoured."""
import sys, os, tempfile, logging
sys.path.insert(0, "/repo"); logging.disable(logging.CRITICAL)
d = tempfile.mkdtemp(prefix="b3q_")
sys.path.insert(0, d)
open(d + "/qmod.py", "w").write('''
import twosigma.memento as m, os
@m.memento_function(cluster="q")
def f(x):
    open(os.environ["B3_LOG"], "a").write("run\\n")
    return x
''')
os.environ["B3_LOG"] = d + "/log"
open(d + "/fc.yaml", "w").write('name: q\nstorage:\n  type: filesystem\n  path: {{ root }}/data\n  readonly: "{{ ro }}"\n{% if mb %}  memory_cache_mb: "{{ mb }}"\n{% endif %}')
open(d + "/repo.yaml", "w").write('name: r\nclusters:\n  q: fc.yaml\n')
import twosigma.memento as m
from twosigma.memento import Environment, ConfigurationRepository, FunctionCluster
from twosigma.memento.configuration import _load_config
bad = []
def env_for(**params):
    fc = FunctionCluster(_load_config(d, "fc.yaml", root=d, **params))
    return Environment(name="e", base_dir=d, repos=[ConfigurationRepository(name="r", clusters={"q": fc})])
# --- read-only flag
e = env_for(ro="false", mb=None); m.Environment.set(e)
st = e.get_cluster("q").storage
import qmod
qmod.f(1); qmod.f(1)
runs = len(open(d + "/log").read().split())
print("readonly: \"false\" -> storage.read_only = %r; body ran %d time(s) for two identical calls; memoized: %s" % (st.read_only, runs, qmod.f.memento(1) is not None))
if runs != 1: bad.append("readonly: \"false\" made the store read-only (nothing is memoized)")
# --- memory cache size
e = env_for(ro="false", mb=7)
st = e.get_cluster("q").storage
b = st._memory_cache.memory_cache_bytes if st._memory_cache is not None else None
print("memory_cache_mb: \"7\" -> budget is a %s of length %s (expected the number %d)" % (type(b).__name__, len(b) if isinstance(b, str) else "-", 7 * 1024 * 1024))
if b != 7 * 1024 * 1024: bad.append("memory_cache_mb: \"7\" does not give a 7 MiB cache")
try:
    e.to_dict()
except Exception as ex:
    bad.append("Environment.to_dict() raises %s: %s" % (type(ex).__name__, ex))
print("\n".join(bad) or "options honoured")
sys.exit(1 if bad else 0)
