import sys; sys.path.insert(0, "/repo")
import datetime as dt, json
from twosigma.memento.serialization import MementoCodec as C
from twosigma.memento.reference import ArgumentHasher as H
tz = dt.timezone
vals = [dt.date(1,1,1), dt.date(31,1,2), dt.date(99,12,31), dt.date(999,1,1), dt.date(1000,1,1), dt.date(9999,12,31), dt.date(2020,2,29), dt.date(10,11,12), dt.date(12,1,1),
        dt.datetime(1,1,1), dt.datetime(99,1,1,1,2,3), dt.datetime(9999,12,31,23,59,59,999999), dt.datetime(2020,1,1,0,0,0,1),
        dt.datetime(2020,1,1,tzinfo=tz.utc), dt.datetime(2020,1,1,12,30,tzinfo=tz(dt.timedelta(hours=5,minutes=45))), dt.datetime(2020,1,1,12,30,tzinfo=tz(-dt.timedelta(hours=12))),
        dt.datetime(2020,1,1,12,30,tzinfo=tz(dt.timedelta(hours=14))), dt.datetime(2020,1,1,12,30,tzinfo=tz(dt.timedelta(hours=23, minutes=59))), dt.datetime(2020,1,1,12,30,tzinfo=tz(-dt.timedelta(minutes=1))),
        dt.datetime(1,1,1,tzinfo=tz.utc), dt.datetime(9999,12,31,23,59,tzinfo=tz.utc), dt.datetime(1,1,1,tzinfo=tz(dt.timedelta(hours=5))), dt.datetime(9999,12,31,23,tzinfo=tz(-dt.timedelta(hours=5))),
        dt.datetime(2020,1,1,10,0,0,tzinfo=tz(dt.timedelta(0), "XYZ")), dt.datetime(2020, 3, 4, 5, 6, 7, 0, tzinfo=tz(dt.timedelta(hours=-0)))]
for v in vals:
    try:
        s = C.encode_arg(v)
        s2 = json.loads(json.dumps(s))
        d = C.decode_arg(s2)
        ok = (d == v and type(d) is type(v) and (getattr(d, 'tzinfo', None) is None) == (getattr(v, 'tzinfo', None) is None))
        h1 = H.compute_hash({"a": v}); h2 = H.compute_hash({"a": d})
        n = H.normalize(v)
        print("OK " if ok and h1 == h2 and n == v else "BAD", repr(v), s, repr(d), h1 == h2, repr(n))
    except Exception as e:
        print("EXC", repr(v), type(e).__name__, e)
