"""C04: 'The key equals the documented cross-language algorithm (SHA-256 of the canonical JSON of the effective keyword arguments)'.
An independent implementation written ONLY from the ArgumentHasher docstring (the repository's sole statement of the algorithm) disagrees with
compute_hash: (1) the documented encoding of a function reference has the fields _mementoType / qualifiedName / partialArgs / partialKwargs,
the code adds a fifth, 'parameterNames'; (2) 'JSON representation with sorted keys ... removing all unnecessary whitespace' says nothing
about escaping, the code hashes the \\uXXXX-escaped ASCII form of non-ASCII text (json.dumps default), other JSON writers emit UTF-8.
exit 1 when the documented algorithm and the code disagree."""
from common import *
import hashlib, json, datetime
setup()

@m.memento_function(cluster="b3")
def callee(p, q=1):
    return p

@m.memento_function(cluster="b3")
def f(a):
    return 0

def doc_encode(v):
    if v is None or isinstance(v, (bool, str, int, float)): return v
    if isinstance(v, datetime.datetime): return {"_mementoType": "datetime", "iso8601": v.isoformat()}
    if isinstance(v, datetime.date): return {"_mementoType": "date", "iso8601": v.isoformat()}
    if isinstance(v, list): return [doc_encode(x) for x in v]
    if isinstance(v, dict): return {k: doc_encode(x) for k, x in v.items()}
    r = v.fn_reference()          # documented structure: exactly these four fields
    return {"_mementoType": "FunctionReference", "qualifiedName": r.qualified_name,
            "partialArgs": doc_encode(list(r.partial_args) if r.partial_args else None), "partialKwargs": doc_encode(r.partial_kwargs)}
def doc_hash(kwargs, escape):
    text = json.dumps(doc_encode(kwargs), sort_keys=True, separators=(",", ":"), ensure_ascii=escape)
    return hashlib.sha256(text.encode("utf-8")).hexdigest()
bad = []
for label, v in [("int", 3), ("list/dict/date", [1, {"k": datetime.date(2020, 1, 2)}, None, True, 2.5]), ("aware datetime", datetime.datetime(2020, 1, 2, 3, 4, tzinfo=datetime.timezone.utc)),
                 ("function reference", callee), ("partial function reference", callee.partial(q=2)), ("non-ASCII text", "café")]:
    code = f.fn_reference().with_args(v).arg_hash
    d1, d2 = doc_hash({"a": v}, True), doc_hash({"a": v}, False)
    print("%-28s code %s  documented(ascii-escaped) %s  documented(utf-8) %s" % (label, code[:10], d1[:10], d2[:10]))
    if code != d1: bad.append(label + ": code hashes a structure the documentation does not describe")
    elif code != d2: bad.append(label + ": key depends on an undocumented escaping choice")
print("\n".join(bad) or "code == documented algorithm")
sys.exit(1 if bad else 0)
