"""C12: 'reading stored metadata never raises ... references inside it to versions that no longer exist are reported as external references'.
from_qualified_name falls back to an external reference only for ModuleNotFoundError / ValueError / AttributeError.  The lookup IMPORTS the
module named in the stored string (importlib.import_module), which can raise anything else:
  (a) history: the callee's old module is still on disk but no longer imports (a name it imported was removed: ImportError -- not
      ModuleNotFoundError; likewise SyntaxError / any exception of its top-level code).  The caller's pinned, current entry cannot be read:
      top(1), top.memento(1), top.list_mementos() raise ImportError.
  (b) names: a module part that starts with '.' (inside the property's alphabet, admitted by the contract's NAME_PART) raises TypeError
      ('the package argument is required to perform a relative import').
exit 1 when an exception escapes."""
import sys
sys.path.insert(0, "/repo")
from hist import run
A1 = {"lib.py": '''
    import twosigma.memento as m
    import depmod
    @m.memento_function(cluster="c1", version="1")
    def top(x):
        return depmod.dep(x) * 10
''', "depmod.py": '''
    import twosigma.memento as m
    from helper import K
    @m.memento_function(cluster="c1")
    def dep(a):
        return a + K
''', "helper.py": "K = 2\n"}
A2 = {"lib.py": '''
    import twosigma.memento as m
    import newdep
    @m.memento_function(cluster="c1", version="1")
    def top(x):
        return newdep.dep(x) * 10
''', "newdep.py": '''
    import twosigma.memento as m
    @m.memento_function(cluster="c1")
    def dep(a):
        return a + 2
''', "helper.py": "K2 = 2\n"}      # callee moved to newdep; the obsolete depmod.py stays on disk and now fails with ImportError
S2 = '''
import lib
bad = 0
for what, f in [("top(1)", lambda: lib.top(1)), ("top.memento(1)", lambda: lib.top.memento(1) is not None), ("top.list_mementos()", lambda: len(lib.top.list_mementos()))]:
    try:
        print(what, "->", f())
    except BaseException as e:
        bad += 1; print(what, "RAISED", type(e).__name__, e)
sys.exit(1 if bad else 0)
'''
outs = run([(A1, "import lib\nprint('top(1) =', lib.top(1))\n"), (A2, S2)])
print("(a)", outs[0][1].strip()); print(outs[1][1].strip())
rc = outs[1][0] != 0
import logging; logging.disable(logging.CRITICAL)
from twosigma.memento.reference import FunctionReference
for qn in [".pkg.mod:f#1", "c::.mod:f#a:b", "..:f#1"]:
    try:
        r = FunctionReference.from_qualified_name(qn)
        print("(b)", qn, "->", r.qualified_name, "external", r.external)
    except BaseException as e:
        rc = True; print("(b)", qn, "RAISED", type(e).__name__, e)
print("VIOLATION" if rc else "no exception escapes")
sys.exit(1 if rc else 0)
