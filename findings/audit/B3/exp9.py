import sys, os, tempfile, json
sys.path.insert(0, "/repo")
import logging; logging.disable(logging.CRITICAL)
from twosigma.memento import Environment, ConfigurationRepository, FunctionCluster
from twosigma.memento.storage_memory import MemoryStorageBackend as MS
e = Environment(name="n", base_dir="/tmp/audit2_B3/base", repos=[ConfigurationRepository(name="r", clusters={"k": FunctionCluster(name="k", storage=MS())})])
e.get_cluster("k").locked = True
d = e.to_dict(); print(d)
e2 = Environment(d)
print(e.get_cluster("k").locked, e2.get_cluster("k").locked)
