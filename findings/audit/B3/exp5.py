import sys; sys.path.insert(0, "/repo")
import logging; logging.disable(logging.CRITICAL)
from twosigma.memento.reference import FunctionReference as FR
import itertools
mods = [".a", "a.", "a..b", ".", "..", "-", "+", "=", "@", "a-b", "os.path", "os", "twosigma.memento", "__main__", "sys", "a.b@c", "json.tool", "this", "antigravity_", "1", "a b", "é", "twosigma.memento.reference", "builtins", "os.", ".os"]
fns = ["f", "path.join", "a..b", ".", "-", "__name__", "FunctionReference.parse_qualified_name", "FunctionReference", "__class__", "print", "__loader__.x", "f@1"]
bad = 0
for mo in mods:
    for fn in fns:
        for cl in [None, "c", "a#b:c", "", "a:", ":a", "#", "a#", "@+=-._"]:
            for v in ["1", "", "#", ":", "::", "a::b:c#d", "#:#", "x#y::z:w", " "]:
                qn = ("" if cl is None else cl + "::") + mo + ":" + fn + "#" + v
                try:
                    p = FR.parse_qualified_name(qn)
                    if (p["cluster"], p["module"], p["function"], p["version"]) != (cl, mo, fn, v):
                        amb = cl is not None and __import__("re").fullmatch(r"[^:#]*:[^:#]*#.*", cl)
                        if not amb:
                            bad += 1; print("PARSE", repr(qn), p)
                        continue
                    r = FR.from_qualified_name(qn)
                    if r.qualified_name != qn or r.cluster_name != cl or r.module != mo or r.function_name != fn:
                        bad += 1; print("NAME", repr(qn), "->", repr(r.qualified_name), r.cluster_name, r.module, r.function_name, r.external)
                except BaseException as e:
                    bad += 1; print("RAISED", repr(qn), type(e).__name__, str(e)[:100])
print("bad", bad)
