"""C11: 'Encoding any memento to JSON and decoding it again yields an equivalent memento: same time instant ... arguments ...  The argument hash
recomputed from the decoded arguments equals the original one.'
encode_datetime writes UTC as the suffix 'Z'; decode_datetime uses the fuzzy dateutil.parser.parse, which maps the zone NAME 'UTC' to the
LOCAL zone (tzlocal()) whenever the name 'UTC' is in time.tzname.  With a POSIX-style TZ such as 'UTC-8' (a common way to say 'UTC+8 without a
zone database'; also 'UTC+3', or the standard name of 'UTC0BST' in summer) the local zone is called 'UTC' but is NOT UTC: every decoded
UTC timestamp -- Memento.time and every aware-UTC datetime argument -- is shifted by the local offset, and the argument hash recomputed from
the decoded arguments no longer equals the key the entry is stored under.   exit 1 when the round trip changes instant or hash."""
import os, sys, time
os.environ["TZ"] = sys.argv[1] if len(sys.argv) > 1 else "UTC-8"
time.tzset()
from common import *
import datetime, json
from twosigma.memento.serialization import MementoCodec
store = setup()

@m.memento_function(cluster="b3")
def f(when):
    return 1

arg = datetime.datetime(2020, 1, 1, 12, 0, tzinfo=datetime.timezone.utc)
f(arg)
key = f.fn_reference().with_args(arg).arg_hash
bad = []
s = MementoCodec.encode_datetime(arg); d = MementoCodec.decode_datetime(s)
print("TZ=%s time.tzname=%r  %s -> %r  same instant: %s" % (os.environ["TZ"], time.tzname, s, d, d == arg))
if d != arg: bad.append("decode_datetime(encode_datetime(x)) is another instant: %s vs %s" % (d.isoformat(), arg.isoformat()))
me = f.list_mementos()[0]                      # read back through the real store
doc = json.loads(json.dumps(MementoCodec.encode_memento(me)))
fwa = me.invocation_metadata.fn_reference_with_args
print("stored under key", key[:12], "; decoded argument", fwa.args[0].isoformat(), "; hash recomputed from the decoded arguments", fwa.arg_hash[:12])
if fwa.arg_hash != key: bad.append("argument hash of the decoded memento differs from the key it is stored under")
if fwa.args[0] != arg: bad.append("decoded argument is another instant")
me2 = MementoCodec.decode_memento(doc)
if me2.time != me.time: bad.append("Memento.time drifts by the local offset on every encode/decode cycle: %s -> %s" % (me.time.isoformat(), me2.time.isoformat()))
print("\n".join(bad) or "round trip holds")
sys.exit(1 if bad else 0)
