import sys; sys.path.insert(0, "/repo")
import datetime as dt, time
from twosigma.memento.serialization import MementoCodec as C
v = dt.datetime(2020, 1, 1, 12, 0, tzinfo=dt.timezone.utc)
s = C.encode_datetime(v); d = C.decode_datetime(s)
print(time.tzname, s, repr(d), d == v, d.isoformat())
