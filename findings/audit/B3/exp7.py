import sys, os, tempfile, json, itertools
sys.path.insert(0, "/repo")
import logging; logging.disable(logging.CRITICAL)
from twosigma.memento import Environment, ConfigurationRepository, FunctionCluster
from twosigma.memento.storage import StorageBackend
from twosigma.memento.runner import RunnerBackend
from twosigma.memento.storage_filesystem import FilesystemStorageBackend as FS
from twosigma.memento.storage_memory import MemoryStorageBackend as MS
from twosigma.memento.storage_null import NullStorageBackend as NS
d = tempfile.mkdtemp(prefix="b3c_")
def state(b):
    return dict(t=b.storage_type, p=str(b._data_source.base_path), mp=str(b._metadata_source.data_source.base_path), same=b._metadata_source.data_source is b._data_source,
                cache=(None if b._memory_cache is None else float(b._memory_cache.memory_cache_bytes)), ro=bool(b.read_only))
bad = 0
P, Q, M, N = d + "/p", d + "/q", d + "/m", d + "/n"
for cp, cm, cmb, cro in itertools.product([None, P], [None, M, P], [None, 0, 1, 0.1, 2.5, 3e-7], [None, True, False]):
    cfg = {k: v for k, v in dict(path=cp, metadata_path=cm, memory_cache_mb=cmb, readonly=cro).items() if v is not None}
    for ap, am, amb, aro in itertools.product([None, Q], [None, N, Q, P], [None, 0, 7, 0.3], [None, True, False]):
        try:
            b = FS(dict(cfg), path=ap, metadata_path=am, memory_cache_mb=amb, read_only=aro)
            ep = ap if ap is not None else (cp if cp is not None else os.path.expanduser("~/.memento/data"))
            em = am if am is not None else (cm if cm is not None else ep)
            emb = amb if amb is not None else cmb
            ero = aro if aro is not None else bool(cro)
            exp = dict(t="filesystem", p=ep, mp=em, same=(em == ep), cache=(float(emb * 1024 * 1024) if emb else None), ro=ero)
            s = state(b)
            if s != exp:
                bad += 1; print("CTOR", cfg, (ap, am, amb, aro), s, exp)
            dump = json.loads(json.dumps(b.to_dict()))
            b2 = StorageBackend.create(dump["type"], dump)
            if state(b2) != s:
                bad += 1; print("DUMP", cfg, (ap, am, amb, aro), dump, state(b2), s)
        except BaseException as e:
            bad += 1; print("RAISED", cfg, (ap, am, amb, aro), type(e).__name__, e)
print("bad", bad)
