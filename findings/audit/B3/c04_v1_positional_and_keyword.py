"""C04: 'Two calls ... share a memoized result if and only if they bind equal normalized values to the same parameters ... differs whenever any
bound value ... differ'.  A call keyword that names a parameter ALSO filled positionally silently wins: the positional value is dropped from
the binding and from the key (Python itself raises TypeError 'got multiple values for argument').  So f(1, a=2) is served f(2)'s result,
f(1, 2, b=3) and f(1, 99, b=3) share one entry, and a positional argument can even land in the **kwargs parameter.
exit 1 when a presented value is missing from the key."""
from common import *
store = setup()
LOG = os.path.join(store, "log")
def logs(): return open(LOG).read().splitlines() if os.path.exists(LOG) else []

@m.memento_function(cluster="b3")
def f(a, b=10):
    open(LOG, "a").write(repr((a, b)) + "\n")
    return [a, b]

@m.memento_function(cluster="b3")
def g(a, **kw):
    return [a, kw]

def key(fn, *a, **k):
    r = fn.fn_reference().with_args(*a, **k)
    return r.effective_kwargs, r.arg_hash[:12]
bad = []
for lhs, rhs, what in [((f, (1,), {"a": 2}), (f, (7,), {"a": 2}), "f(1, a=2) vs f(7, a=2)"),
                       ((f, (1, 2), {"b": 3}), (f, (1, 99), {"b": 3}), "f(1, 2, b=3) vs f(1, 99, b=3)"),
                       ((f.partial(1), (), {"a": 2}), (f.partial(5), (), {"a": 2}), "f.partial(1)(a=2) vs f.partial(5)(a=2)")]:
    try:
        l = key(lhs[0], *lhs[1], **lhs[2]); r = key(rhs[0], *rhs[1], **rhs[2])
    except (ValueError, TypeError) as e:
        print(what, "rejected:", e); continue
    print("%-42s %s %s | %s %s" % (what, l[0], l[1], r[0], r[1]))
    if l[1] == r[1]: bad.append(what + ": different positional values, one key (the positional value is not in the key)")
r1 = f(2)
r2 = f(1, a=2)          # Python: TypeError: f() got multiple values for argument 'a'
print("f(2) ->", r1, "; f(1, a=2) ->", r2, "; body ran", len(logs()), "time(s)")
if len(logs()) == 1: bad.append("f(1, a=2) was served the memoized result of f(2)")
print("g(1, 2) ->", g(1, 2), " (positional value bound to the var-keyword parameter; Python raises TypeError)")
print("\n".join(bad) or "rejected or distinguished")
sys.exit(1 if bad else 0)
