from common import *
import datetime as dt
store = setup()
LOG = os.path.join(store, "log")
def log(x):
    open(LOG, "a").write(repr(x) + "\n")
def logs():
    return open(LOG).read().splitlines() if os.path.exists(LOG) else []

@m.memento_function(cluster="b3")
def f(a, b=10):
    log(("f", a, b)); return [a, b]

@m.memento_function(cluster="b3")
def g(a, **kw):
    log(("g", a, kw)); return [a, kw]

@m.memento_function(cluster="b3")
def h(a, _memento_context_args=None):
    log(("h", a, _memento_context_args)); return [a, _memento_context_args]

def key(fn, *a, **k):
    try:
        r = fn.fn_reference().with_args(*a, **k)
        return r.effective_kwargs, r.arg_hash[:10]
    except Exception as e:
        return "raised %s: %s" % (type(e).__name__, e)

print("f(1, a=2)", key(f, 1, a=2))
print("f(a=2)", key(f, a=2))
print("f(1,2,b=3)", key(f, 1, 2, b=3))
print("f(1, zz=3)", key(f, 1, zz=3))
print("g(1, x=2)", key(g, 1, x=2))
print("g(1, kw={'x':2})", key(g, 1, kw={'x': 2}))
print("g(1, 2)", key(g, 1, 2))
for call in [lambda: f(1, a=2), lambda: g(1, x=2), lambda: g(1, kw={'x': 2}), lambda: g(1, {'x':2})]:
    try:
        print(call())
    except Exception as e:
        print("raised", type(e).__name__, e)
print(logs())
# tuples/sets
print("f((1,2))", key(f, (1, 2)))
print("f([ (1,2) ])", key(f, [(1, 2)]))
print("f({1,2})", key(f, {1, 2}))
print("f({1:'a'})", key(f, {1: 'a'}), key(f, {'1': 'a'}))
print(key(f, {1: 'a', 'b': 2}))
print("f(-0.0)", key(f, -0.0), key(f, 0.0), key(f, 0))
print(key(f, dt.datetime(2020,1,1,12,tzinfo=dt.timezone.utc)), key(f, dt.datetime(2020,1,1,13,tzinfo=dt.timezone(dt.timedelta(hours=1)))))
print(key(f, "é"), key(f, "é"))
