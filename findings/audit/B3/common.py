import sys, os, tempfile, logging
sys.path.insert(0, "/repo")
logging.disable(logging.CRITICAL)
import twosigma.memento as m
from twosigma.memento import Environment, ConfigurationRepository, FunctionCluster
from twosigma.memento.storage_filesystem import FilesystemStorageBackend
from twosigma.memento.storage_memory import MemoryStorageBackend

def setup(cluster="b3"):
    store = tempfile.mkdtemp(prefix="b3_")
    m.Environment.set(Environment(name="b3", base_dir=store, repos=[ConfigurationRepository(name="r", clusters={
        cluster: FunctionCluster(name=cluster, storage=FilesystemStorageBackend(path=os.path.join(store, "data")))})]))
    return store
