import sys, os, tempfile, json, itertools
sys.path.insert(0, "/repo")
import logging; logging.disable(logging.CRITICAL)
from twosigma.memento import Environment, ConfigurationRepository, FunctionCluster
from twosigma.memento.storage_filesystem import FilesystemStorageBackend as FS
from twosigma.memento.storage_memory import MemoryStorageBackend as MS
from twosigma.memento.storage_null import NullStorageBackend as NS
from twosigma.memento.runner_null import NullRunnerBackend
d = tempfile.mkdtemp(prefix="b3e_")
def sstate(b):
    s = dict(t=b.storage_type, ro=bool(b.read_only), cls=type(b).__name__)
    if hasattr(b, "_data_source"):
        s.update(p=str(b._data_source.base_path), mp=str(b._metadata_source.data_source.base_path), cache=(None if b._memory_cache is None else float(b._memory_cache.memory_cache_bytes)), codec=type(b.codec).__name__)
    return s
def cstate(c):
    return None if c is None else dict(name=c.name, d=c.description, m=c.maintainer, doc=c.documentation, s=sstate(c.storage), r=type(c.runner).__name__, locked=c.locked)
def estate(e, names):
    return {n: cstate(e.get_cluster(n)) for n in names}
# files
os.makedirs(d + "/conf/sub")
open(d + "/conf/sub/fc.yaml", "w").write("name: fcy\nstorage:\n  type: filesystem\n  path: {{ root }}/y\n  memory_cache_mb: {{ mb }}\n  readonly: {{ ro }}\nrunner:\n  type: 'null'\n")
json.dump({"name": "fcj", "description": "D", "storage": {"type": "filesystem", "path": d + "/j", "metadata_path": d + "/jm", "readonly": True}}, open(d + "/conf/sub/fc.json", "w"))
json.dump({"name": "repo1", "maintainer": "M", "modules": ["json"], "clusters": {"a": "sub/fc.json", "b": {"name": "b", "storage": {"type": "memory", "readonly": True}}, "dup": {"name": "dup1", "storage": {"type": "null"}}}}, open(d + "/conf/repo1.json", "w"))
json.dump({"name": "repo2", "clusters": {"dup": {"name": "dup2", "storage": {"type": "memory"}}, "c": {"name": "c"}}}, open(d + "/conf/repo2.json", "w"))
json.dump({"name": "env", "repos": ["repo1.json", "repo2.json"]}, open(d + "/conf/env.json", "w"))
names = [None, "a", "b", "c", "dup", "zzz", "default", "dup1", "fcj"]
bad = 0
def check(tag, env):
    global bad
    s = estate(env, names)
    dump = json.loads(json.dumps(env.to_dict()))
    env2 = Environment(dump)
    s2 = estate(env2, names)
    if s != s2:
        bad += 1
        for n in names:
            if s[n] != s2[n]:
                print("DIFF", tag, n, "\n   ", s[n], "\n   ", s2[n])
    return s
s = check("files", Environment.from_file(d + "/conf/env.json"))
print(s["dup"]["name"], s["a"]["s"], s["c"]["s"])
e = Environment.from_file(d + "/conf/env.json")
e.prepend_repo(ConfigurationRepository(name="top", clusters={"dup": FunctionCluster(name="dup0", storage=MS(read_only=True), runner=NullRunnerBackend())}))
e.append_repo(ConfigurationRepository(name="bottom", clusters={"dup": FunctionCluster(name="dupZ", storage=NS()), "zzz": FunctionCluster({"name": "zzz", "storage": {"type": "filesystem", "path": d + "/z", "memory_cache_mb": 3}}, storage=None)}))
s = check("prepend/append", e); print(s["dup"]["name"], s["zzz"])
# locked cluster, codec option
e = Environment(name="n", base_dir=d + "/base", repos=[ConfigurationRepository(name="r", clusters={"k": FunctionCluster(name="k", storage=FS({"path": d + "/k", "codec": "default", "codecConfig": {"x": 1}}))})])
e.get_cluster("k").locked = True
s = check("locked", e)
# yaml with template parameters
for mb, ro in [(5, True), (0, False), (0.5, "true"), ("'7'", "no"), (2, "'false'")]:
    try:
        fc = FunctionCluster(__import__("twosigma.memento.configuration", fromlist=["_load_config"])._load_config(d + "/conf", "sub/fc.yaml", root=d, mb=mb, ro=ro))
        e = Environment(name="y", base_dir=d, repos=[ConfigurationRepository(name="r", clusters={"y": fc})])
        s = estate(e, ["y"]); print("yaml", (mb, ro), s["y"]["s"])
        dump = json.loads(json.dumps(e.to_dict())); s2 = estate(Environment(dump), ["y"])
        if s != s2: bad += 1; print("DIFF yaml", s, s2)
    except BaseException as ex:
        print("yaml", (mb, ro), "RAISED", type(ex).__name__, ex)
print("bad", bad)
