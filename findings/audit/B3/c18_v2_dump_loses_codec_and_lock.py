"""C18: 'Dumping an environment to its dictionary form and constructing an environment from that dump yields clusters with equivalent storage
... behaviour.'  StorageBackendBase.__init__ (under contract) reads two more options from the storage configuration, 'codec' and 'codecConfig'
(Codec.register is the provider extension point), and they decide how every result is written and read.  FilesystemStorageBackend.to_dict()
emits neither: the reconstructed cluster uses the default codec on the same path, cannot read what the original cluster wrote and writes
entries the original cannot read.  (Also not dumped: FunctionCluster.locked.)  The contract's FS_STATE / to_dict clauses do not mention the
codec ('outside C18's option list'), so the second sentence of the property is only checked for the four listed options.
exit 1 when the reconstructed storage behaves differently."""
import sys, os, tempfile, logging, json
sys.path.insert(0, "/repo"); logging.disable(logging.CRITICAL)
d = tempfile.mkdtemp(prefix="b3k_"); sys.path.insert(0, d)
open(d + "/kmod.py", "w").write('''
import twosigma.memento as m
@m.memento_function(cluster="k")
def f(x):
    return "value-%d" % x
''')
import twosigma.memento as m
from twosigma.memento import Environment, ConfigurationRepository, FunctionCluster
from twosigma.memento.metadata import ResultType
from twosigma.memento.storage_base import Codec, DefaultCodec

class TextStrings(DefaultCodec.ValuePickleStrategy):
    def load(self, data_source, key):
        with data_source.input_versioned(key) as f:
            return self.decode(f.read())
    def decode(self, obj): return obj.decode("utf-8")[len(self.prefix):]
    def encode(self, obj): return (self.prefix + obj).encode("utf-8")
class TextCodec(DefaultCodec):
    """strings are stored as UTF-8 text with a configurable prefix"""
    def __init__(self, config):
        super().__init__(config)
        s = TextStrings(); s.prefix = config.get("prefix", "")
        self._strategy[ResultType.string] = s
Codec.register("text", TextCodec)

cfg = {"name": "e", "base_dir": d, "repos": [{"name": "r", "clusters": {"k": {"name": "k", "storage": {"type": "filesystem", "path": d + "/data", "codec": "text", "codecConfig": {"prefix": "T:"}}}}}]}
env1 = Environment(cfg)
dump = json.loads(json.dumps(env1.to_dict()))
env2 = Environment(dump)
s1, s2 = env1.get_cluster("k").storage, env2.get_cluster("k").storage
print("storage dump:", dump["repos"][0]["clusters"]["k"]["storage"])
print("codec of the original:", type(s1.codec).__name__, " codec after dump + reconstruct:", type(s2.codec).__name__)
bad = []
if type(s1.codec) is not type(s2.codec): bad.append("the dump does not carry 'codec' / 'codecConfig': reconstructed storage uses another codec")
import kmod
m.Environment.set(env1); v1 = kmod.f(1)
m.Environment.set(env2)
try:
    v2 = kmod.f(1)
    print("original cluster returned %r, reconstructed cluster returns %r for the same memoized call" % (v1, v2))
    if v2 != v1: bad.append("memoized result read differently")
except Exception as e:
    bad.append("reconstructed cluster cannot read the entry the original wrote: %s: %s" % (type(e).__name__, e))
env1.get_cluster("k").locked = True
if Environment(json.loads(json.dumps(env1.to_dict()))).get_cluster("k").locked is not True: print("(note) FunctionCluster.locked is not part of the dump either")
print("\n".join(bad) or "equivalent")
sys.exit(1 if bad else 0)
