from hist import run
vers = ["1", "a:b", "a#b", "a::b", "x::y:z#w", "#", ":", "::", "@+=-._", ".", "..", "a:b#c::d", "%3A", "a%b", "A", "a"]
mod = "import twosigma.memento as m\n"
for i, v in enumerate(vers):
    mod += "@m.memento_function(cluster='c1', version=%r)\ndef f%d(x):\n    return x + %d\n" % (v, i, i)
S = '''
import lib
vers = %r
bad = 0
for i, v in enumerate(vers):
    f = getattr(lib, "f%%d" %% i)
    try:
        r = f(1)
        me = f.memento(1)
        lm = f.list_mementos()
        ok = r == 1 + i and me is not None and len(lm) == 1 and me.invocation_metadata.fn_reference_with_args.fn_reference.qualified_name == f.fn_reference().qualified_name
        if not ok:
            bad += 1; print("BAD", repr(v), r, me is not None, len(lm))
    except BaseException as e:
        bad += 1; print("RAISED", repr(v), type(e).__name__, e)
try:
    names = sorted(x.qualified_name for x in m.list_memoized_functions("c1"))
    exp = sorted(getattr(lib, "f%%d" %% i).fn_reference().qualified_name for i in range(len(vers)))
    if names != exp:
        bad += 1; print("LISTING", set(names) ^ set(exp))
except BaseException as e:
    bad += 1; print("LIST RAISED", type(e).__name__, e)
print("bad", bad)
''' % (vers,)
for o in run([({"lib.py": mod}, S), ({}, S)]):
    print(o[0]); print(o[1]); print(o[2][-800:])
