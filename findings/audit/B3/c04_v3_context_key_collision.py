"""C04 (low severity, contrived): the context arguments are hashed under the reserved key '_memento_context_args' of the same mapping
that holds the bound parameters; a parameter of that name filled POSITIONALLY is indistinguishable from context arguments (the keyword
route is rejected only by accident: validate_args(**kwargs, _memento_context_args=...) raises TypeError 'multiple values').
exit 1 when h(1, {'x': 1}) and h.with_context_args({'x': 1})(1) share a key / a result."""
from common import *
store = setup()
LOG = os.path.join(store, "log")
def logs(): return open(LOG).read().splitlines() if os.path.exists(LOG) else []

@m.memento_function(cluster="b3")
def h(a, _memento_context_args=None):
    open(LOG, "a").write(repr((a, _memento_context_args)) + "\n")
    return [a, _memento_context_args]

from twosigma.memento.reference import FunctionReferenceWithArguments as FWA
kp = FWA(h.fn_reference(), (1, {"x": 1}), {}, None)
kc = FWA(h.fn_reference(), (1,), {}, {"x": 1})
print("positional:", kp.effective_kwargs, kp.context_args, kp.arg_hash[:12])
print("context   :", kc.effective_kwargs, kc.context_args, kc.arg_hash[:12])
a = h(1, {"x": 1}); b = h.with_context_args({"x": 1})(1)
print("h(1, {'x': 1}) ->", a, "; h.with_context_args({'x': 1})(1) ->", b, "; body ran", len(logs()), "time(s); a plain call would return", [1, None])
bad = kp.arg_hash == kc.arg_hash or len(logs()) != 2
print("COLLISION: bound value and context arguments share one key" if bad else "keys differ")
sys.exit(1 if bad else 0)
