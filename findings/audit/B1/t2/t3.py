import sys, os, logging, tempfile
sys.path.insert(0, "/repo"); sys.path.insert(0, os.path.dirname(os.path.abspath(__file__)))
logging.disable(logging.CRITICAL)
import twosigma.memento as m
from twosigma.memento.storage_filesystem import FilesystemStorageBackend as FSB
from twosigma.memento.storage_base import MemoryCache
import kmod
store = tempfile.mkdtemp(prefix="t2_", dir="/tmp/audit2_B1/t2")
def env():
    m.Environment.set(m.Environment(name="e", base_dir=store, repos=[m.ConfigurationRepository(name="r", clusters={"kc": m.FunctionCluster(name="kc", storage=FSB(path=store + "/d", memory_cache_mb=1))})]))
    return m.Environment.get().get_cluster("kc").storage
a1 = kmod.f.fn_reference().with_args({1: "a"}); a2 = kmod.f.fn_reference().with_args({"1": "a"})
env(); print(kmod.f({1: "a"}))
st = env()
mem = st.get_memento(a1.fn_reference_with_arg_hash())
print("a1", a1.arg_hash[:12], "a2", a2.arg_hash[:12], "decoded", mem.invocation_metadata.fn_reference_with_args.arg_hash[:12])
print("cache keys", [k[-12:] for k in st._memory_cache.cache])
print("is_memoized a2", st.is_memoized(a2.fn_reference, a2.arg_hash), "get_memento a2", st.get_memento(a2.fn_reference_with_arg_hash()) is not None)
print("f({'1': 'a'}) =", kmod.f({"1": "a"}), " expected [('str','a')]")
