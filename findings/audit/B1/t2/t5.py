import sys, os, logging, tempfile, datetime
sys.path.insert(0, "/repo"); sys.path.insert(0, os.path.dirname(os.path.abspath(__file__)))
logging.disable(logging.CRITICAL)
import twosigma.memento as m
from twosigma.memento.storage_filesystem import FilesystemStorageBackend as FSB
from twosigma.memento.storage_base import MemoryCache
import amod
store = tempfile.mkdtemp(prefix="t5_", dir="/tmp/audit2_B1/t2")
def env():
    m.Environment.set(m.Environment(name="e", base_dir=store, repos=[m.ConfigurationRepository(name="r", clusters={"kc": m.FunctionCluster(name="kc", storage=FSB(path=store + "/d", memory_cache_mb=1))})]))
    return m.Environment.get().get_cluster("kc").storage
calls = [
 ("h(1)", lambda: amod.h(1), lambda: amod.h.fn_reference().with_args(1)),
 ("h(1,y=3)", lambda: amod.h(1, y=3), lambda: amod.h.fn_reference().with_args(1, y=3)),
 ("h(1,2,3,4)", lambda: amod.h(1, 2, 3, 4), lambda: amod.h.fn_reference().with_args(1, 2, 3, 4)),
 ("h(1,z=[1,{'a':None}])", lambda: amod.h(1, z=[1, {"a": None}]), lambda: amod.h.fn_reference().with_args(1, z=[1, {"a": None}])),
 ("h(leaf)", lambda: amod.h(amod.leaf), lambda: amod.h.fn_reference().with_args(amod.leaf)),
 ("h(leaf.partial(1))", lambda: amod.h(amod.leaf.partial(1)), lambda: amod.h.fn_reference().with_args(amod.leaf.partial(1))),
 ("h(leaf.partial(b=1))", lambda: amod.h(amod.leaf.partial(b=1)), lambda: amod.h.fn_reference().with_args(amod.leaf.partial(b=1))),
 ("h.partial(1)()", lambda: amod.h.partial(1)(), lambda: amod.h.partial(1).fn_reference().with_args()),
 ("h.partial(y=7)(1)", lambda: amod.h.partial(y=7)(1), lambda: amod.h.partial(y=7).fn_reference().with_args(1)),
 ("h([{'k':[datetime]}])", lambda: amod.h([{"k": [datetime.datetime(2020,1,1,12,tzinfo=datetime.timezone(datetime.timedelta(hours=-3)))]}]), lambda: amod.h.fn_reference().with_args([{"k": [datetime.datetime(2020,1,1,12,tzinfo=datetime.timezone(datetime.timedelta(hours=-3)))]}])),
 ("h(1.0)", lambda: amod.h(1.0), lambda: amod.h.fn_reference().with_args(1.0)),
 ("h(datetime with us)", lambda: amod.h(datetime.datetime(2020,1,1,1,1,1,123456)), lambda: amod.h.fn_reference().with_args(datetime.datetime(2020,1,1,1,1,1,123456))),
]
for name, call, ref in calls:
    env()
    try: call()
    except Exception as e: print("call failed", name, repr(e)[:80]); continue
    st = env(); fa = ref()
    mem = st.get_memento(fa.fn_reference_with_arg_hash())
    if mem is None: print("NOT FOUND ", name); continue
    k1 = MemoryCache._cache_key_for_memento(mem); k2 = MemoryCache._cache_key_for_fn(fa.fn_reference, fa.arg_hash)
    print("MISMATCH" if k1 != k2 else "ok      ", name)
