import sys, os, logging, tempfile
sys.path.insert(0, "/repo"); sys.path.insert(0, os.path.dirname(os.path.abspath(__file__)))
logging.disable(logging.CRITICAL)
import twosigma.memento as m
from twosigma.memento.storage_filesystem import FilesystemStorageBackend as FSB
import kmod
for cache in (None, 1):
    store = tempfile.mkdtemp(prefix="t4_", dir="/tmp/audit2_B1/t2")
    def env():
        m.Environment.set(m.Environment(name="e", base_dir=store, repos=[m.ConfigurationRepository(name="r", clusters={"kc": m.FunctionCluster(name="kc", storage=FSB(path=store + "/d", memory_cache_mb=cache))})]))
    env(); print(cache, "g([1]) =", kmod.g([1]))
    env(); print(cache, "g([1]) =", kmod.g([1]), " g([1, 9]) =", kmod.g([1, 9]), "(expected 2, 3)")
