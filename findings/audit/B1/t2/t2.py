import sys, os, logging, tempfile, datetime
sys.path.insert(0, "/repo"); sys.path.insert(0, os.path.dirname(os.path.abspath(__file__)))
logging.disable(logging.CRITICAL)
import twosigma.memento as m, numpy as np
from twosigma.memento.storage_filesystem import FilesystemStorageBackend as FSB
from twosigma.memento.storage_base import MemoryCache
import kmod
store = tempfile.mkdtemp(prefix="t2_", dir="/tmp/audit2_B1/t2")
def env():
    m.Environment.set(m.Environment(name="e", base_dir=store, repos=[m.ConfigurationRepository(name="r", clusters={"kc": m.FunctionCluster(name="kc", storage=FSB(path=store + "/d", memory_cache_mb=1))})]))
    return m.Environment.get().get_cluster("kc").storage
cands = [{1: "a"}, (1, 2), [(1, 2)], 1.0, float("nan"), -0.0, np.int64(3), np.float32(1.5), True, {"a": (1,)}, datetime.datetime(2020,1,1), datetime.datetime(2020,1,1,tzinfo=datetime.timezone.utc), datetime.date(2020,1,1), b"ab", {True: 1}, {1.5: 2}, {None: 1}, 10**30, 1e400, "é", [np.arange(3)], np.arange(3), {"_mementoType": "x"}, frozenset([1]), {1,2}, None, [None], 2**53+1, datetime.datetime(2020,1,1,tzinfo=datetime.timezone(datetime.timedelta(hours=5))), np.datetime64("2020-01-01"), np.bool_(True)]
for c in cands:
    try:
        fa = kmod.f.fn_reference().with_args(c)
    except Exception as e:
        print("arg rejected", repr(c)[:40], type(e).__name__); continue
    st = env()
    try:
        kmod.f.__wrapped__ if False else None
        # memoize directly through the runner with a function that accepts anything
        try: kmod.f(c)
        except Exception: pass
        st = env()
        mem = st.get_memento(fa.fn_reference_with_arg_hash())
        if mem is None: print("not memoized", repr(c)[:40]); continue
        k1 = MemoryCache._cache_key_for_memento(mem); k2 = MemoryCache._cache_key_for_fn(fa.fn_reference, fa.arg_hash)
        print("MISMATCH" if k1 != k2 else "ok      ", repr(c)[:50], "->", repr(mem.invocation_metadata.fn_reference_with_args.args)[:60])
    except Exception as e:
        print("error", repr(c)[:40], repr(e)[:100])
