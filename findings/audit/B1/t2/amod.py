import twosigma.memento as m
@m.memento_function(version="1", cluster="kc")
def h(x, y=2, *rest, **kw):
    return 1
@m.memento_function(version="1", cluster="kc")
def leaf(a, b=5):
    return a
@m.memento_function(version="1", cluster="kc")
def plain(a):
    return a
