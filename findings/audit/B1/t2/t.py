import sys, os, logging, tempfile
sys.path.insert(0, "/repo"); sys.path.insert(0, os.path.dirname(os.path.abspath(__file__)))
logging.disable(logging.CRITICAL)
import twosigma.memento as m
from twosigma.memento.storage_filesystem import FilesystemStorageBackend as FSB
import kmod
for cache in (None, 1):
    store = tempfile.mkdtemp(prefix="t2_", dir="/tmp/audit2_B1/t2")
    def env():
        m.Environment.set(m.Environment(name="e", base_dir=store, repos=[m.ConfigurationRepository(name="r", clusters={"kc": m.FunctionCluster(name="kc", storage=FSB(path=store + "/d", memory_cache_mb=cache))})]))
    env()
    a1 = kmod.f.fn_reference().with_args({1: "a"}); a2 = kmod.f.fn_reference().with_args({"1": "a"})
    print("hashes differ:", a1.arg_hash != a2.arg_hash)
    print(cache, "f({1:a}) =", kmod.f({1: "a"}))
    env()   # fresh backend object (fresh cache), same store
    print(cache, "f({1:a}) again =", kmod.f({1: "a"}))
    st = m.Environment.get().get_cluster("kc").storage
    print(cache, "is_memoized f({'1':a}):", st.is_memoized(a2.fn_reference, a2.arg_hash))
    print(cache, "f({'1':a}) =", kmod.f({"1": "a"}))
