import twosigma.memento as m
@m.memento_function(version="1", cluster="kc")
def f(d):
    return sorted((type(k).__name__, v) for k, v in d.items())

@m.memento_function(version="1", cluster="kc")
def g(lst):
    lst.append(9)
    return len(lst)
