"""More C05 probes.  exit 1 = a probe diverged from the dictionary model / between backends."""
import sys, tempfile, os
sys.path.insert(0, "/tmp/audit2_B1/a3")
from harness import *
import twosigma.memento as m

bad = []


def fresh(**kw):
    t = tempfile.mkdtemp(prefix="a3more_")
    return FilesystemStorageBackend(path=t + "/d", **kw), t


# Q1: list_mementos(limit=0)
for name, b in (("fs", fresh()[0]), ("fs+cache", fresh(memory_cache_mb=1)[0]), ("mem", MemoryStorageBackend())):
    for a in (1, 2, 3):
        b.memoize(None, mk_memento(f, a, a), a)
    n = len(b.list_mementos(f.fn_reference(), limit=0))
    if n != 0:
        bad.append("Q1 %s: list_mementos(limit=0) returns %d mementos" % (name, n))

# Q2: result object mutated by the caller after it was stored / after it was read
for name, mk in (("fs", lambda: fresh()[0]), ("fs+cache", lambda: fresh(memory_cache_mb=1)[0]), ("mem", lambda: MemoryStorageBackend())):
    b = mk()
    v = [1, 2, 3]
    b.memoize(None, mk_memento(f, 1, v), v)
    v.append(99)                                   # the function's caller goes on using its result
    got = b.read_result(b.get_memento(fwh(f, 1)))
    if got != [1, 2, 3]:
        bad.append("Q2 %s: value memoized as [1, 2, 3] reads %r after the caller mutated its own copy" % (name, got))
    got.append(7)
    got2 = b.read_result(b.get_memento(fwh(f, 1)))
    if got2 != [1, 2, 3]:
        bad.append("Q2 %s: value memoized as [1, 2, 3] reads %r after a reader mutated what read_result returned" % (name, got2))

# Q3: version strings with percent escapes: two functions f#'a:b' and f#'a%3Ab' share a directory; 'x%41' is listed as 'xA'
@m.memento_function(version="a:b")
def q3(x): return x
q3a = q3


@m.memento_function(version="a%3Ab")
def q3(x): return x
q3b = q3


@m.memento_function(version="x%41")
def q3c(x): return x


b, t = fresh()
b.memoize(None, mk_memento(q3a, 1, "A"), "A")
if b.is_memoized(q3b.fn_reference(), fwh(q3b, 1).arg_hash):
    bad.append("Q3: memoizing %s makes %s memoized" % (q3a.fn_reference().qualified_name, q3b.fn_reference().qualified_name))
b.memoize(None, mk_memento(q3c, 1, "C"), "C")
names = sorted(x.qualified_name for x in b.list_functions())
if q3c.fn_reference().qualified_name not in names:
    bad.append("Q3: list_functions() = %r does not contain %r" % (names, q3c.fn_reference().qualified_name))

# Q4: forget_everything with a shared path removes key-override / content data too; with separate metadata path it does not: is anything
#     that must survive lost?  A memento of ANOTHER backend instance over the same store keeps reading? (all forgotten -> nothing to check)
# Q5: is_memoized / get_memento agree after the cache evicted the entry but a weak reference survives, then forget via a second route
b, t = fresh(memory_cache_mb=0.0005)
arr = np.arange(50)
b.memoize(None, mk_memento(f, 1, arr), arr)          # oversize for the cache: only a weak ref
b2 = FilesystemStorageBackend(path=t + "/d")
b2.forget_call(fwh(f, 1))                             # (another handle on the same store: outside the single-writer assumption, informational)
print("\n".join(bad) or "all probes held")
sys.exit(1 if bad else 0)
