"""C05/C07 assumption probe: override keys inside the store's own namespaces.
  (a) override 'c/<sha of X>' holding Y: a later result X is deduplicated onto Y (excluded by the stated assumption 'no override starts with c/')
  (b) override 'm' / 'm/...' (NOT excluded): list_functions breaks or lists phantom functions
exit 1 if (b) misbehaves or (a) reproduces."""
import sys, tempfile, pickle, hashlib
sys.path.insert(0, "/tmp/audit2_B1/a3")
from harness import *
from twosigma.memento.partition import InMemoryPartition
bad = []
b = FilesystemStorageBackend(path=tempfile.mkdtemp(prefix="a3ns_"))
sha = hashlib.sha256(pickle.dumps("X", protocol=5)).hexdigest()
b.memoize("c/" + sha, mk_memento(f, 1, "Y"), "Y")
b.memoize(None, mk_memento(ff, 1, "X"), "X")
got = FilesystemStorageBackend(path=b.config_path).read_result(b.get_memento(fwh(ff, 1)))
if got != "X":
    bad.append("(a) [assumption-excluded] ff(1) memoized as 'X' reads %r" % (got,))
b = FilesystemStorageBackend(path=tempfile.mkdtemp(prefix="a3ns_"))
b.memoize(None, mk_memento(f, 1, "v"), "v")
b.memoize("m", mk_memento(f, 2, InMemoryPartition({"a": 1})), InMemoryPartition({"a": 1}))
try:
    names = sorted(x.qualified_name for x in b.list_functions())
    if names != [f.fn_reference().qualified_name]:
        bad.append("(b) after a partition stored under override key 'm', list_functions() = %r" % names)
except Exception as e:
    bad.append("(b) after a partition stored under override key 'm', list_functions() raises %r" % (e,))
b = FilesystemStorageBackend(path=tempfile.mkdtemp(prefix="a3ns_"))
b.memoize("m/report", mk_memento(f, 1, "v"), "v")
try:
    names = sorted(x.qualified_name for x in b.list_functions())
    if names != [f.fn_reference().qualified_name]:
        bad.append("(b) after override key 'm/report', list_functions() = %r" % names)
except Exception as e:
    bad.append("(b) after override key 'm/report', list_functions() raises %r" % (e,))
print("\n".join(bad) or "ok"); sys.exit(1 if bad else 0)
