"""C05: custom metadata under unusual but legal key strings (the dictionary model is indifferent to the key's characters).
exit 1 = violated."""
import sys, tempfile, os
sys.path.insert(0, "/tmp/audit2_B1/a3")
from harness import *
bad = []
for kw in ({}, {"memory_cache_mb": 1}):
    for key in ("a[1]", "a/b", "what?"):
        t = tempfile.mkdtemp(prefix="a3mk_")
        b = FilesystemStorageBackend(path=t, **kw)
        b.memoize(None, mk_memento(f, 1, "v"), "v")
        b.write_metadata(fwh(f, 1), key, b"x")
        if b.read_metadata(fwh(f, 1), key) != b"x":
            bad.append("%r key %r: read after write -> %r" % (kw, key, b.read_metadata(fwh(f, 1), key)))
        try:
            b.forget_call(fwh(f, 1))
        except Exception as e:
            bad.append("%r key %r: forget_call raises %r" % (kw, key, e)); continue
        lf = [x.qualified_name for x in b.list_functions()]
        if lf:
            bad.append("%r key %r: after forget_call of the only call, list_functions() = %r" % (kw, key, lf))
        b.memoize(None, mk_memento(f, 1, "v2"), "v2")
        got = b.read_metadata(fwh(f, 1), key)
        if got is not None:
            bad.append("%r key %r: metadata forgotten with its call reappears after re-memoizing: %r" % (kw, key, got))
    t = tempfile.mkdtemp(prefix="a3mk_")
    b = FilesystemStorageBackend(path=t, **kw)
    b.memoize(None, mk_memento(f, 1, "v"), "v")
    b.write_metadata(fwh(f, 1), "k.with_data", b"x")
    try:
        got = b.read_metadata(fwh(f, 1), "k")
        if got is not None:
            bad.append("%r: read_metadata('k') after writing key 'k.with_data' -> %r" % (kw, got))
    except Exception as e:
        bad.append("%r: read_metadata('k') (never written) after writing key 'k.with_data' raises %r" % (kw, e))
print("\n".join(bad) or "ok"); sys.exit(1 if bad else 0)
