"""C05: is_all_memoized(fns: Iterable[...]) with a one-shot iterable (the declared parameter type) on a backend with a memory cache.
exit 1 = answers differ from the dictionary model."""
import sys, tempfile
sys.path.insert(0, "/tmp/audit2_B1/a3")
from harness import *
bad = []
for name, b in (("fs", FilesystemStorageBackend(path=tempfile.mkdtemp())), ("fs+cache", FilesystemStorageBackend(path=tempfile.mkdtemp(), memory_cache_mb=1)), ("mem", MemoryStorageBackend())):
    b.memoize(None, mk_memento(f, 1, "v"), "v")
    calls = [f.fn_reference().with_args(1), f.fn_reference().with_args(2)]     # f(2) was never memoized
    if b.is_all_memoized(calls):
        bad.append("%s: is_all_memoized(list) True although f(2) is not memoized" % name)
    if b.is_all_memoized(iter(calls)):
        bad.append("%s: is_all_memoized(iterator) True although f(2) is not memoized" % name)
    if b.is_all_memoized(x for x in calls):
        bad.append("%s: is_all_memoized(generator) True although f(2) is not memoized" % name)
print("\n".join(bad) or "ok"); sys.exit(1 if bad else 0)
