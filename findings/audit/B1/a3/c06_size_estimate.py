"""C06: 'a result larger than the budget is never resident', 'memory attributed never exceeds the budget',
'the usage counter equals what the resident entries account for' -- against the real size estimator (the contracts ASSUME
_estimate_object_size(obj) >= 0 and treat it as the size).   exit 1 = violated."""
import sys
sys.path.insert(0, "/tmp/audit2_B1/a3")
from harness import *
import pandas as pd
from twosigma.memento.storage_base import MemoryCache

bad = []

# 1. negative estimate: Series/DataFrame with > 100 rows and very uneven row sizes (linear regression over a 33/67 split sample)
neg = None
for seed in range(200):
    np.random.seed(seed)
    s = pd.Series(["x"] * 400, dtype=object)
    s.iloc[7] = "y" * 3_000_000
    np.random.seed(seed)
    est = MemoryCache._estimate_object_size(s)
    if est < 0:
        neg = (seed, est)
        break
if neg:
    seed, est = neg
    c = MemoryCache(1)  # 1 MiB budget
    np.random.seed(seed)
    c.put(mk_memento(f, 1, s), s, True)
    resident = list(c.cache)
    real = int(s.memory_usage(deep=True))
    if resident:
        bad.append("Series of %d real bytes in a %d-byte cache: estimate %d, RESIDENT, memory_usage=%d (negative accounting)" % (real, c.memory_cache_bytes, est, c.memory_usage))
    # the negative account now lets the cache exceed its budget with honest entries
    n = 0
    for i in range(2, 40):
        v = "z" * 200_000
        c.put(mk_memento(f, i, v), v, True)
    tot = sum(sys.getsizeof(e.value) for e in c.cache.values() if isinstance(e.value, str))
    if tot > c.memory_cache_bytes:
        bad.append("after the negative entry, %d bytes of plain strings are resident in a cache of %d bytes (memory_usage=%d)" % (tot, c.memory_cache_bytes, c.memory_usage))
else:
    print("no negative estimate found")

# 2. dict: 'estimate size of values' measures the dict_values view object (about 40 bytes), not the values
big = {"k": "v" * 5_000_000}
c = MemoryCache(1)
c.put(mk_memento(f, 1, big), big, True)
if c.cache:
    bad.append("dict holding a 5,000,000-byte string is resident in a 1 MiB cache; attributed size %d" % c.memory_usage)

# 3. list: size = len * size(first element)
lst = ["a"] + ["w" * 1_000_000] * 5
c = MemoryCache(1)
c.put(mk_memento(f, 1, lst), lst, True)
if c.cache:
    bad.append("list holding 5 MB of strings is resident in a 1 MiB cache; attributed size %d" % c.memory_usage)

# 4. through the storage backend: the budget is meaningless for dict results
import tempfile
b = FilesystemStorageBackend(path=tempfile.mkdtemp(prefix="a3c06_"), memory_cache_mb=1)
for i in range(20):
    v = {"k": "v" * 1_000_000, "i": i}
    b.memoize(None, mk_memento(f, i, v), v)
held = sum(len(e.value["k"]) for e in b._memory_cache.cache.values())
if held > b._memory_cache.memory_cache_bytes:
    bad.append("backend with memory_cache_mb=1 keeps %d bytes of dict results resident (memory_usage counter: %d)" % (held, b._memory_cache.memory_usage))

print("\n".join(bad) or "size accounting honest")
sys.exit(1 if bad else 0)
