"""C05: custom metadata written with store_with_data must behave like dict[(function, arg hash, key)] = value.
Uses only the public MementoFunction API (put_metadata / get_metadata).  exit 1 = property violated."""
import sys, tempfile
sys.path.insert(0, "/repo")
import twosigma.memento as m

bad = []


@m.memento_function
def g(x):
    return "same result"      # g(1) and g(2) serialize to the same bytes -> one shared content object


@m.memento_function
def h(x):
    return "same result"      # a different function producing the same bytes


def with_backend(**kw):
    tmp = tempfile.mkdtemp(prefix="a3md_")
    env = m.Environment.get()
    env.default_cluster.storage = m.StorageBackend.create("filesystem", dict(path=tmp, **kw))


for kw in ({}, {"memory_cache_mb": 1}):
    with_backend(**kw)
    # --- 1. two calls with equal results: metadata "stored with data" of one call overwrites the other's
    g(1); g(2); h(1)
    g.put_metadata("log", b"log of g(1)", 1, store_with_data=True)
    g.put_metadata("log", b"log of g(2)", 2, store_with_data=True)
    got = g.get_metadata("log", args=(1,))
    if got != b"log of g(1)":
        bad.append("%r: after put_metadata(log, g(1)) and put_metadata(log, g(2)) [store_with_data], get_metadata(log, g(1)) = %r" % (kw, got))
    h.put_metadata("log", b"log of h(1)", 1, store_with_data=True)
    got = g.get_metadata("log", args=(2,))
    if got != b"log of g(2)":
        bad.append("%r: after another FUNCTION h(1) wrote its log with data, get_metadata(log, g(2)) = %r" % (kw, got))
    # --- 2. forgetting a call does not forget its stored-with-data metadata: it reappears for another call
    g.forget(1)   # forget_call
    g(1)
    got = g.get_metadata("log", args=(1,))
    if got is not None:
        bad.append("%r: forgotten metadata reappeared for g(1): %r" % (kw, got))
    # --- 3. plain write followed by a with-data write of the same key: the older value is served
    with_backend(**kw)
    g(3)
    g.put_metadata("note", b"old", 3)
    g.put_metadata("note", b"new", 3, store_with_data=True)
    got = g.get_metadata("note", args=(3,))
    if got != b"new":
        bad.append("%r: put_metadata(note, old) then put_metadata(note, new, store_with_data=True): get_metadata -> %r" % (kw, got))

print("\n".join(bad) or "metadata stored with data behaves like a dictionary per call")
sys.exit(1 if bad else 0)
