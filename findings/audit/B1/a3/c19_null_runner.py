"""C19: null runner never executes a body (memoized results are still served); null storage never memoizes. exit 1 = violated."""
import sys, os, tempfile
sys.path.insert(0, "/repo")
import twosigma.memento as m
from twosigma.memento.runner_null import NullRunnerBackend
from twosigma.memento.storage_null import NullStorageBackend
from twosigma.memento.storage_filesystem import FilesystemStorageBackend as FSB
t = tempfile.mkdtemp(prefix="a3nr_")
os.environ["A3CNT"] = t + "_cnt"; open(t + "_cnt", "w").close()
cnt = lambda: len(open(t + "_cnt").read())
@m.memento_function(cluster="nr")
def body(x):
    open(os.environ["A3CNT"], "a").write("x")
    return x + 1
@m.memento_function(cluster="nr")
def caller(x):
    open(os.environ["A3CNT"], "a").write("x")
    return body(x) + 1
def env(storage, runner=None):
    kw = dict(name="nr", storage=storage)
    if runner is not None: kw["runner"] = runner
    m.Environment.set(m.Environment(name="e", base_dir=t, repos=[m.ConfigurationRepository(name="r", clusters={"nr": m.FunctionCluster(**kw)})]))
bad = []
env(FSB(path=t + "/d")); assert body(1) == 2 and cnt() == 1
env(FSB(path=t + "/d"), NullRunnerBackend())
for fn, a in ((body, 1), (body, 5), (caller, 1), (caller, 7)):
    try:
        r = fn(a); bad.append("null runner: %s(%d) returned %r" % (fn.__name__, a, r))
    except RuntimeError: pass
    except Exception as e: bad.append("null runner: %s(%d) raised %r" % (fn.__name__, a, e))
try:
    r = body.call_batch([{"x": 1}, {"x": 9}]); bad.append("null runner: call_batch returned %r" % (r,))
except RuntimeError: pass
except Exception as e: bad.append("null runner call_batch raised %r" % (e,))
if cnt() != 1: bad.append("null runner executed a body: count %d" % cnt())
# null storage: everything recomputed, nothing reported
env(NullStorageBackend())
n0 = cnt(); body(1); body(1); caller(1)
if cnt() != n0 + 4: bad.append("null storage: expected 4 executions, got %d" % (cnt() - n0))
if body.memento(1) is not None or body.list_mementos(): bad.append("null storage reports mementos: %r %r" % (body.memento(1), body.list_mementos()))
try:
    for _ in body.list_mementos(): pass
except TypeError as e:
    bad.append("null storage: iterating MementoFunction.list_mementos() raises %r" % (e,))
print("\n".join(bad) or "ok"); sys.exit(1 if bad else 0)
