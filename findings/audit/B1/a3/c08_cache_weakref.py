"""C08 with a memory cache: one reported I/O error (ENOSPC) while memoizing a weak-referenceable result that is too big for the cache
(numpy array / DataFrame).  The cache keeps a weak reference although nothing was stored; while the caller holds the first result,
is_memoized() answers True, the runner says 'memoized elsewhere' and never writes again: every later call recomputes, forever,
although the disk is healthy again.   exit 1 = violated ('memoization also recovers')."""
import sys, os, tempfile, logging
sys.dont_write_bytecode = True
sys.path.insert(0, "/tmp/audit2_B1/a3"); sys.path.insert(0, "/repo")
from crash_replay_copy import FaultFS
import numpy as np
import twosigma.memento as m
from twosigma.memento.storage_filesystem import FilesystemStorageBackend as FSB
logging.disable(logging.CRITICAL)
CNT = {"n": 0}


@m.memento_function(cluster="a3w", auto_dependencies=False)
def big(x):
    CNT["n"] += 1
    return np.arange(100000) + x          # 800 kB > the 0.5 MiB cache budget below


store = tempfile.mkdtemp(prefix="a3w_")
m.Environment.set(m.Environment(name="e", base_dir=store, repos=[m.ConfigurationRepository(
    name="r", clusters={"a3w": m.FunctionCluster(name="a3w", storage=FSB(path=store + "/data", memory_cache_mb=0.5))})]))
bad = []
# primitive #5 = open-for-write of the data file on an empty store (makedirs x4 precede it? find it: first open_w)
probe = FaultFS(store, None, None)
# find the index of the first open_w in a clean run on another store
s2 = tempfile.mkdtemp(prefix="a3w_")
m.Environment.set(m.Environment(name="e", base_dir=s2, repos=[m.ConfigurationRepository(
    name="r", clusters={"a3w": m.FunctionCluster(name="a3w", storage=FSB(path=s2 + "/data", memory_cache_mb=0.5))})]))
with FaultFS(s2, None, None) as p:
    big(0)
first_open = [n for n, name, _ in p.log if name == "open_w"][0]
m.Environment.set(m.Environment(name="e", base_dir=store, repos=[m.ConfigurationRepository(
    name="r", clusters={"a3w": m.FunctionCluster(name="a3w", storage=FSB(path=store + "/data", memory_cache_mb=0.5))})]))
CNT["n"] = 0
with FaultFS(store, first_open, ("error", "none")) as fs:
    r1 = big(1)                                       # ENOSPC reported while writing; swallowed, value returned
assert fs.fired and CNT["n"] == 1 and r1[0] == 1
# the disk is fine from here on; the caller keeps using r1
counts = []
for i in range(4):
    r = big(1)
    assert r[0] == 1
    counts.append(CNT["n"])
stored = big.memento(1) is not None
on_disk = os.path.isdir(store + "/data/m")
if counts[-1] != counts[0]:
    bad.append("after one ENOSPC, big(1) is recomputed on every call in this process (executions after calls 1..4: %r) and is never written "
               "(memento on disk: %s) although every later write would succeed" % (counts, on_disk and bool(os.listdir(store + "/data/m"))))
del r1
r = big(1); r = big(1); n1 = CNT["n"]; r = big(1)
print("after the caller dropped the first result: recomputed again? %s" % (CNT["n"] != n1))
print("\n".join(bad) or "recovered")
sys.exit(1 if bad else 0)
