import twosigma.memento as m

@m.memento_function(version="1", cluster="b1")
def kinds(d):
    """distinguishes {1: v} from {'1': v}"""
    return sorted((type(k).__name__, v) for k, v in d.items())

@m.memento_function(version="1", cluster="b1")
def grow(lst):
    """a body that mutates its (normalised copy of the) argument"""
    lst.append(9)
    return len(lst)
