import sys, os, logging
sys.path.insert(0, "/repo"); sys.path.insert(0, os.path.dirname(__file__))
logging.disable(logging.CRITICAL)
import twosigma.memento as m
from twosigma.memento.storage_filesystem import FilesystemStorageBackend as FSB
store = sys.argv[1]; cache = float(sys.argv[2])
m.Environment.set(m.Environment(name="e", base_dir=store, repos=[m.ConfigurationRepository(name="r", clusters={"main": m.FunctionCluster(name="main", storage=FSB(path=store + "/d", memory_cache_mb=cache or None))})]))
import modw
print("f(h,1) =", modw.f(modw.h, 1), "f(k,1)=", modw.f(modw.k, 1))
st = m.Environment.get().get_cluster(None).storage
try:
    print("list_mementos", len(modw.f.list_mementos()))
except Exception as e:
    print("list_mementos raises", repr(e)[:200])
print("list_functions", [x.qualified_name for x in st.list_functions()])
import os
try:
    if os.environ.get('GVER')!='2': raise SystemExit
    modw.f.forget_all(); print("forget_all ok; list_functions", [x.qualified_name for x in st.list_functions()])
except Exception as e:
    print("forget_all raises", repr(e)[:200])
