import os, twosigma.memento as m
CNT = os.environ["CNTFILE"]
if os.environ.get("GVER") == "2":
    @m.memento_function
    def g(x):
        return x + 2000
else:
    @m.memento_function
    def g(x):
        return x + 1

@m.memento_function(version="1")
def f(x):
    open(CNT, "a").write("f")
    return g(x) * 2
