import sys, os, logging
sys.path.insert(0, "/repo"); sys.path.insert(0, os.path.dirname(__file__))
logging.disable(logging.CRITICAL)
import twosigma.memento as m
from twosigma.memento.storage_filesystem import FilesystemStorageBackend as FSB
store = sys.argv[1]; cache = float(sys.argv[2])
m.Environment.set(m.Environment(name="e", base_dir=store, repos=[m.ConfigurationRepository(name="r", clusters={"main": m.FunctionCluster(name="main", storage=FSB(path=store + "/d", memory_cache_mb=cache or None))})]))
import modv
for i in range(3):
    print("f(1) =", modv.f(1))
st = m.Environment.get().get_cluster(None).storage
fa = modv.f.fn_reference().with_args(1)
print("is_memoized", st.is_memoized(fa.fn_reference, fa.arg_hash), "get_memento", st.get_memento(fa.fn_reference_with_arg_hash()) is not None,
      "list_mementos", end=" ")
try:
    print(len(st.list_mementos(modv.f.fn_reference())))
except Exception as e:
    print("raises", repr(e))
print("executions so far:", len(open(os.environ["CNTFILE"]).read()))
