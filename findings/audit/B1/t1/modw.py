import os, twosigma.memento as m
if os.environ.get("GVER") == "2":
    @m.memento_function
    def h(x):
        return x + 2000
else:
    @m.memento_function
    def h(x):
        return x + 1

@m.memento_function(version="1")
def f(fn, x):
    return fn(x) * 2

@m.memento_function(version="1")
def k(x):
    return x
