import sys, os, random, tempfile, logging, gc
sys.path.insert(0, "/tmp/audit2_B1/rnd")
logging.disable(logging.CRITICAL)
from harness import *
import pandas as pd

def val(r):
    k = r.randrange(8)
    if k == 0: return r.randrange(5)
    if k == 1: return "s" * r.choice([1, 300, 3000])
    if k == 2: return np.arange(r.choice([3, 100, 2000])) + r.randrange(3)
    if k == 3: return pd.DataFrame({"a": np.arange(r.choice([2, 150, 1500])) + r.randrange(3)})
    if k == 4: return pd.Series(np.arange(r.choice([2, 150])) + r.randrange(3))
    if k == 5: return None
    if k == 6: return [r.randrange(3)] * r.choice([1, 50])
    return {"k": r.randrange(3)}

def same(a, b):
    if isinstance(a, (pd.DataFrame, pd.Series)): return type(a) == type(b) and a.equals(b)
    return eqv(a, b)

fns = [f1, f10, ff, f_]
def run(seed, nops=60):
    r = random.Random(seed)
    tmp = tempfile.mkdtemp(prefix="rnd_", dir="/tmp/audit2_B1/rnd")
    bs = backends(tmp)
    model = {}; meta = {}
    keep = []
    for step in range(nops):
        op = r.choice(["mem", "mem", "mem", "memko", "read", "read", "ism", "fc", "ff", "fe", "lf", "lm", "wm", "rm", "drop", "allm"])
        fn = r.choice(fns); a = r.randrange(3); key = (fn.fn_reference().qualified_name, a)
        for name, b in bs.items():
            try:
                if op in ("mem", "memko"):
                    r2 = random.Random(seed * 1000 + step); v = val(r2)
                    b.memoize(("ov%d" % r2.randrange(2)) if op == "memko" else None, mk_memento(fn, a, v), v)
                    keep.append(v)
                    model[key] = v
                elif op == "read":
                    mem = b.get_memento(fwh(fn, a))
                    if (mem is not None) != (key in model): return "seed %d step %d %s: get_memento(%s) present=%s model=%s" % (seed, step, name, key, mem is not None, key in model)
                    if mem is not None:
                        got = b.read_result(mem); keep.append(got)
                        if not same(got, model[key]): return "seed %d step %d %s: read %r want %r" % (seed, step, name, got, model[key])
                elif op == "ism":
                    got = bool(b.is_memoized(fn.fn_reference(), fwh(fn, a).arg_hash))
                    if got != (key in model): return "seed %d step %d %s: is_memoized(%s)=%s" % (seed, step, name, key, got)
                elif op == "allm":
                    lst = [fn.fn_reference().with_args(x) for x in range(3)]
                    got = bool(b.is_all_memoized(lst)); want = all((key[0], x) in model for x in range(3))
                    if got != want: return "seed %d step %d %s: is_all_memoized=%s want %s" % (seed, step, name, got, want)
                elif op == "fc":
                    b.forget_call(fwh(fn, a)); model.pop(key, None); [meta.pop(k) for k in list(meta) if k[0] == key]
                elif op == "ff":
                    b.forget_function(fn.fn_reference())
                    for k in list(model):
                        if k[0] == key[0]: del model[k]
                    [meta.pop(k) for k in list(meta) if k[0][0] == key[0]]
                elif op == "fe":
                    b.forget_everything(); model.clear(); meta.clear()
                elif op == "lf":
                    got = sorted(x.qualified_name for x in b.list_functions()); want = sorted(set(k[0] for k in model))
                    if got != want: return "seed %d step %d %s: list_functions %r want %r" % (seed, step, name, got, want)
                elif op == "lm":
                    got = sorted(m_.invocation_metadata.fn_reference_with_args.args[0] for m_ in b.list_mementos(fn.fn_reference())); want = sorted(k[1] for k in model if k[0] == key[0])
                    if got != want: return "seed %d step %d %s: list_mementos %r want %r" % (seed, step, name, got, want)
                elif op == "wm":
                    if key in model:
                        v = b"m%d" % step; b.write_metadata(fwh(fn, a), "mk", v); meta[(key, "mk")] = v
                elif op == "rm":
                    got = b.read_metadata(fwh(fn, a), "mk")
                    if got != meta.get((key, "mk")): return "seed %d step %d %s: read_metadata %r want %r" % (seed, step, name, got, meta.get((key, "mk")))
                elif op == "drop":
                    del keep[:len(keep) // 2]; gc.collect()
            except Exception as e:
                import traceback; return "seed %d step %d %s op %s: raised %s" % (seed, step, name, op, traceback.format_exc()[-600:])
        # cache invariants
        for name, b in bs.items():
            c = getattr(b, "_memory_cache", None)
            if c is not None:
                if c.memory_usage != sum(e.obj_size for e in c.cache.values()) or c.memory_usage > c.memory_cache_bytes or sorted(c.cache) != sorted(c.lru_deque):
                    return "seed %d step %d %s: cache invariant broken" % (seed, step, name)
                if not model and (c.cache or len(c.refs)): return "seed %d step %d %s: cache not empty after everything forgotten" % (seed, step, name)
    return None
bad = []
for seed in range(int(sys.argv[1]), int(sys.argv[2])):
    x = run(seed)
    if x: bad.append(x); print(x)
    if len(bad) > 5: break
print("done", len(bad))
