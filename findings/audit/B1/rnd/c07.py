import sys, os, random, tempfile, logging, hashlib, glob
sys.path.insert(0, "/tmp/audit2_B1/rnd")
logging.disable(logging.CRITICAL)
from harness import *
from twosigma.memento.partition import InMemoryPartition
fns = [f1, f10, ff, f_]
def check(root):
    for link in glob.glob(root + "/c/*.link"):
        target = open(link).read(); h = os.path.basename(link)[:-5]
        if hashlib.sha256(open(target, "rb").read()).hexdigest() != h: return "content key %s does not hash to its bytes" % h
    return None
def run(seed):
    r = random.Random(seed); tmp = tempfile.mkdtemp(prefix="c07_", dir="/tmp/audit2_B1/rnd")
    for name, b in (("fs", FilesystemStorageBackend(path=tmp + "/a")), ("fs+cache", FilesystemStorageBackend(path=tmp + "/b", memory_cache_mb=0.001)), ("sep", FilesystemStorageBackend(path=tmp + "/c", metadata_path=tmp + "/cm"))):
        r = random.Random(seed); held = []
        for step in range(50):
            op = r.choice(["mem", "mem", "memko", "memko", "memnone", "mempart", "fc", "ff"])
            fn = r.choice(fns); a = r.randrange(3)
            if op.startswith("mem"):
                v = r.choice(["x", "y", [1], "z" * 2000])
                if op == "memnone": v = None
                if op == "mempart": v = InMemoryPartition({"k": r.choice(["x", None, 3])})
                ko = ("ov%d" % r.randrange(2)) if op in ("memko", "memnone", "mempart") and r.random() < .8 else None
                mem = mk_memento(fn, a, v); b.memoize(ko, mem, v)
                nfiles = None
                held.append((mem, v))
            elif op == "fc": b.forget_call(fwh(fn, a))
            elif op == "ff": b.forget_function(fn.fn_reference())
            x = check(b.config_path)
            if x: return "seed %d %s step %d: %s" % (seed, name, step, x)
            b2 = FilesystemStorageBackend(path=b.config_path, metadata_path=b.metadata_config_path)
            for mem, v in held:
                try:
                    got = b2.read_result(mem)
                    if isinstance(v, InMemoryPartition): ok = {k: got.get(k) for k in got.list_keys()} == {k: v.get(k) for k in v.list_keys()}
                    else: ok = eqv(got, v)
                except Exception as e:
                    ok = False; got = repr(e)
                if not ok: return "seed %d %s step %d: held memento reads %r, stored %r" % (seed, name, step, got, v)
        # dedupe: count versions per content key
        for d in glob.glob(b.config_path + "/c/.versions/*"):
            pass
        names = [os.listdir(d)[0] for d in glob.glob(b.config_path + "/c/.versions/*") if os.listdir(d)]
        if len(names) != len(set(names)): return "seed %d %s: content stored twice" % (seed, name)
    return None
bad = 0
for s in range(int(sys.argv[1]), int(sys.argv[2])):
    x = run(s)
    if x: print(x); bad += 1
print("done", bad)
