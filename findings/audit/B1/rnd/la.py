import sys, tempfile
sys.path.insert(0, "/tmp/audit2_B1/rnd")
from harness import *
tmp = tempfile.mkdtemp(prefix="la_", dir="/tmp/audit2_B1/rnd")
for name, b in backends(tmp).items():
    b.memoize(None, mk_memento(f1, 1, "v"), "v")
    b.write_metadata(fwh(f1, 2), "k", b"x")     # metadata of a call that is not memoized
    b.forget_call(fwh(f1, 1))
    print(name, "list_functions:", [x.qualified_name for x in b.list_functions()], "list_mementos:", len(b.list_mementos(f1.fn_reference())), "is_memoized f1(2):", bool(b.is_memoized(f1.fn_reference(), fwh(f1,2).arg_hash)))
    b.forget_function(f1.fn_reference())
    b.memoize(None, mk_memento(f1, 2, "w"), "w")
    print(name, "  metadata of f1(2) after forget_function + re-memoize:", b.read_metadata(fwh(f1, 2), "k"))
