"""C05 (and C06): StorageBackendBase.get_mementos / read_result put the memento they READ BACK from the metadata source into the memory
cache under the key the decoded memento computes for itself (MemoryCache._cache_key_for_memento), not under the key that was looked up.
The two differ whenever the argument hash recomputed from the JSON-decoded arguments is not the hash of the stored path: a dict argument
with non-string keys ({1: 'a'} is written as {"1": "a"}), or a body that mutated its argument before the memento was written.
Then ANOTHER call (f({'1': 'a'})) is reported memoized and served the result of f({1: 'a'}); forgetting the real call does not remove
the entry (it reappears / the usage counter does not return to zero).  Without a cache, and on the memory backend, everything is right.
exit 1 = property violated."""
import sys, os, logging, tempfile
sys.path.insert(0, "/repo"); sys.path.insert(0, os.path.dirname(os.path.abspath(__file__)))
logging.disable(logging.CRITICAL)
import twosigma.memento as m
from twosigma.memento.storage_filesystem import FilesystemStorageBackend as FSB
from twosigma.memento.storage_memory import MemoryStorageBackend
import c05_mod as M

bad = []
def env(st):
    m.Environment.set(m.Environment(name="e", base_dir=tempfile.gettempdir(), repos=[m.ConfigurationRepository(name="r", clusters={"b1": m.FunctionCluster(name="b1", storage=st)})]))
    return st

for label, mk in (("fs", lambda p: FSB(path=p)), ("fs+cache", lambda p: FSB(path=p, memory_cache_mb=1)), ("memory", None)):
    store = tempfile.mkdtemp(prefix="b1_c05_")
    if mk is None:
        st = env(MemoryStorageBackend()); reopen = lambda: st
    else:
        reopen = lambda: env(mk(store + "/d"))
    reopen()
    assert M.kinds({1: "a"}) == [("int", "a")] and M.grow([1]) == 2        # populate the store
    st = reopen()                                                            # a later process over the same store
    a_int = M.kinds.fn_reference().with_args({1: "a"}); a_str = M.kinds.fn_reference().with_args({"1": "a"})
    assert a_int.arg_hash != a_str.arg_hash
    assert M.kinds({1: "a"}) == [("int", "a")]                               # a look-up + read of the memoized call
    if st.is_memoized(a_str.fn_reference, a_str.arg_hash):
        bad.append("%s: after looking up kinds({1:'a'}), is_memoized(kinds({'1':'a'})) is True although that call was never memoized" % label)
    got = M.kinds({"1": "a"})
    if got != [("str", "a")]:
        bad.append("%s: kinds({'1':'a'}) returned %r, the memoized result of kinds({1:'a'})" % (label, got))
    M.kinds({2: "b"})
    st = reopen()
    b_str = M.kinds.fn_reference().with_args({"2": "b"})
    M.kinds({2: "b"}); M.kinds.forget({2: "b"})                             # look it up, then forget it: kinds({'2':'b'}) was never memoized
    if st.is_memoized(b_str.fn_reference, b_str.arg_hash) or st.get_memento(b_str.fn_reference_with_arg_hash()) is not None:
        bad.append("%s: after forget_call of kinds({2:'b'}) its memento is still served (for kinds({'2':'b'}), never memoized)" % label)
    c = getattr(st, "_memory_cache", None)
    if c is not None and c.cache:
        bad.append("%s: C06: every call looked up through this cache was forgotten, yet %d entr(ies) stay resident, memory_usage=%d" % (label, len(c.cache), c.memory_usage))
    st = reopen()
    r1 = M.grow([1]); r2 = M.grow([1, 9])
    if (r1, r2) != (2, 3):
        bad.append("%s: grow([1]), grow([1, 9]) = %r, expected (2, 3)" % (label, (r1, r2)))
print("\n".join(bad) or "look-ups cache mementos under the looked-up key")
sys.exit(1 if bad else 0)
