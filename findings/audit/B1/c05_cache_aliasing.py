"""C05: 'reads return the last value written', identically for the filesystem backend with and without a memory cache.
MemoryCache.put keeps the caller's own object (or, for frames, one private copy that read_result then hands to EVERY reader): what a caller does to the value it received changes what later calls of
the memoized function return, although the store still holds the value that was written.   exit 1 = violated."""
import sys, os, logging, tempfile
sys.path.insert(0, "/repo"); sys.path.insert(0, os.path.dirname(os.path.abspath(__file__)))
logging.disable(logging.CRITICAL)
import twosigma.memento as m
from twosigma.memento.storage_filesystem import FilesystemStorageBackend as FSB
import c05_alias_mod as M
bad = []
for label, cache in (("fs", None), ("fs+cache", 1)):
    store = tempfile.mkdtemp(prefix="b1_alias_")
    m.Environment.set(m.Environment(name="e", base_dir=store, repos=[m.ConfigurationRepository(name="r", clusters={"b1a": m.FunctionCluster(name="b1a", storage=FSB(path=store + "/d", memory_cache_mb=cache))})]))
    M.table()                                   # computed and memoized
    r = M.table(); r.loc[0, "a"] = 99; r["extra"] = 0       # a reader works on what it got
    got = M.table()
    if list(got.columns) != ["a"] or got["a"].tolist() != [1, 2, 3]:
        bad.append("%s: table() memoized as a=[1,2,3] now returns columns %s, a=%s" % (label, list(got.columns), got["a"].tolist()))
    first = M.big_table(); first.iloc[0, 0] = -1            # the first caller goes on using its (oversize) result
    got = M.big_table()
    if got.iloc[0, 0] != 0:
        bad.append("%s: big_table() memoized with a[0]=0 now returns a[0]=%d (the first caller's object, via the weak reference)" % (label, got.iloc[0, 0]))
    M.names().append("z"); M.names().append("w")
    got = M.names()
    if got != ["x", "y"]:
        bad.append("%s: names() memoized as ['x','y'] now returns %r" % (label, got))
print("\n".join(bad) or "memoized values are isolated from their readers")
sys.exit(1 if bad else 0)
