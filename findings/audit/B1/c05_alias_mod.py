import twosigma.memento as m, pandas as pd, numpy as np

@m.memento_function(version="1", cluster="b1a")
def table():
    return pd.DataFrame({"a": [1, 2, 3]})

@m.memento_function(version="1", cluster="b1a")
def big_table():
    return pd.DataFrame({"a": np.arange(200000)})      # 1.6 MB: larger than the 1 MiB cache -> only a weak reference is kept

@m.memento_function(version="1", cluster="b1a")
def names():
    return ["x", "y"]
