"""C06: 'when room is needed the entries dropped are those least recently written or READ while more recently used ones keep being
served without touching the underlying store'.  A look-up served by MemoryCache.get_mementos (what StorageBackend.get_memento(s),
MementoFunction.memento(), Memento.trace() ... use) is a read of the cache entry but does not refresh its recency, while is_memoized and
read_result do: the entry that is looked up all the time is the one dropped, and the next look-up of it goes to the store.
exit 1 = violated."""
import sys, tempfile
sys.path.insert(0, "/tmp/audit2_B1")
from harness import *
from twosigma.memento.storage_base import MemoryCache

bad = []
# --- MemoryCache alone: budget of 40 bytes = two memento-only entries of 16 bytes
c = MemoryCache(40 / 1024 / 1024)
mA, mB, mC = (mk_memento(f1, a, a) for a in (1, 2, 3))
c.put(mA, None, False); c.put(mB, None, False)
for _ in range(5):
    assert c.get_mementos([fwh(f1, 1)])[0] is mA          # A is used again and again, B never
c.put(mC, None, False)                                     # room is needed: the least recently used entry is B
if c.get_mementos([fwh(f1, 1)])[0] is None:
    bad.append("MemoryCache: A was looked up 5 times after B was written, yet A was dropped and B (never used) kept: resident = %s"
               % sorted(k[-8:] for k in c.cache))

# --- through the filesystem backend: count opens under the store
store = tempfile.mkdtemp(prefix="b1_c06_")
w = FilesystemStorageBackend(path=store)
for a in (1, 2, 3):
    w.memoize(None, mk_memento(f1, a, a), a)
b = FilesystemStorageBackend(path=store, memory_cache_mb=40 / 1024 / 1024)
opens = []
sys.addaudithook(lambda ev, args: opens.append(args[0]) if ev == "open" and isinstance(args[0], str) and args[0].startswith(store) else None)
b.get_memento(fwh(f1, 1)); b.get_memento(fwh(f1, 2))
for _ in range(5):
    n = len(opens); b.get_memento(fwh(f1, 1)); assert len(opens) == n      # served by the cache
b.get_memento(fwh(f1, 3))
n = len(opens); b.get_memento(fwh(f1, 1))
if len(opens) != n:
    bad.append("filesystem+cache: the most recently used call f(1) was dropped for f(3) and its next look-up touched the store (%d opens), "
               "while f(2), unused since it was cached, stayed resident" % (len(opens) - n))
print("\n".join(bad) or "look-ups keep entries recent")
sys.exit(1 if bad else 0)
