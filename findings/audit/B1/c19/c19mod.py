import os, twosigma.memento as m, pandas as pd, numpy as np
from twosigma.memento.partition import InMemoryPartition
from twosigma.memento.result import KeyOverrideResult
def _tick():
    open(os.environ["C19CNT"], "a").write("x")
@m.memento_function(cluster="ro")
def leaf(x):
    _tick()
    return x + 1
@m.memento_function(cluster="ro")
def top(x):
    _tick()
    return leaf(x) * 2
@m.memento_function(cluster="ro")
def frame(n):
    _tick()
    return pd.DataFrame({"a": np.arange(n)})
@m.memento_function(cluster="ro")
def boom(x):
    _tick()
    raise ValueError("boom %s" % x)
@m.memento_function(cluster="ro")
def part(x):
    _tick()
    return InMemoryPartition({"a": x, "b": [x]})
@m.memento_function(cluster="ro")
def ko(x):
    _tick()
    return KeyOverrideResult("hello", "over/ride%d" % (x % 2))
@m.memento_function(cluster="ro")
def none(x):
    _tick()
    return None
