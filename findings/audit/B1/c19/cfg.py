import sys, os, logging, tempfile
sys.path.insert(0, "/repo")
logging.disable(logging.CRITICAL)
import twosigma.memento as m
t = tempfile.mkdtemp()
for st in ({"type": "filesystem", "path": t + "/d", "readonly": True}, {"type": "filesystem", "path": t + "/d", "readonly": True, "memory_cache_mb": 1}, {"type": "memory", "readonly": True}, {"type": "null", "readonly": True}):
    env = m.Environment(name="e", base_dir=t, repos=[m.ConfigurationRepository(name="r", clusters={"c": m.FunctionCluster(config={"name": "c", "storage": st})})])
    s = env.get_cluster("c").storage
    print(type(s).__name__, "read_only =", s.read_only, "cache", getattr(s, "_memory_cache", None) is not None, "to_dict", s.to_dict())
