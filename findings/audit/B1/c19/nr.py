import sys, os, logging, tempfile
sys.path.insert(0, "/repo"); sys.path.insert(0, os.path.dirname(os.path.abspath(__file__)))
logging.disable(logging.CRITICAL)
os.environ["C19CNT"]="/tmp/audit2_B1/c19/cnt2"; open(os.environ["C19CNT"],"w").close()
import twosigma.memento as m
from twosigma.memento.runner_null import NullRunnerBackend
from twosigma.memento.storage_filesystem import FilesystemStorageBackend as FSB
import c19mod as M
cnt=lambda: len(open(os.environ["C19CNT"]).read())
t = tempfile.mkdtemp()
m.Environment.set(m.Environment(name="e", base_dir=t, repos=[m.ConfigurationRepository(name="r", clusters={"ro": m.FunctionCluster(name="ro", storage=FSB(path=t+"/d"), runner=NullRunnerBackend())})]))
for name, fn in (("plain", lambda: M.leaf(1)), ("force_local", lambda: M.leaf.force_local()(1)), ("batch force_local", lambda: M.leaf.force_local().call_batch([{"x": 2}]))):
    try: print(name, "->", fn(), "executions", cnt())
    except Exception as e: print(name, "raised", type(e).__name__, "executions", cnt())
