import sys, os, hashlib, logging, tempfile
sys.path.insert(0, "/repo"); sys.path.insert(0, os.path.dirname(os.path.abspath(__file__)))
logging.disable(logging.CRITICAL)
import twosigma.memento as m
from twosigma.memento.storage_filesystem import FilesystemStorageBackend as FSB
os.environ["C19CNT"]="/tmp/audit2_B1/c19/cnt"; open(os.environ["C19CNT"],"w").close()
import c19mod as M
cnt=lambda: len(open(os.environ["C19CNT"]).read())

def snap(root):
    out = {}
    for d, dn, fn in os.walk(root):
        out[d] = ("dir",)
        for f in fn:
            p = os.path.join(d, f)
            st = os.stat(p)
            out[p] = (st.st_size, st.st_mtime_ns, hashlib.sha256(open(p, "rb").read()).hexdigest())
    return out

def env(st):
    m.Environment.set(m.Environment(name="e", base_dir=store, repos=[m.ConfigurationRepository(name="r", clusters={"ro": m.FunctionCluster(name="ro", storage=st)})]))

bad = []
for variant in ("arg", "config", "arg+cache", "config+cache", "sepmeta+cache"):
    store = tempfile.mkdtemp(prefix="c19_", dir="/tmp/audit2_B1/c19")
    kw = dict(path=store + "/d")
    if variant.startswith("sepmeta"): kw["metadata_path"] = store + "/meta"
    env(FSB(**kw))
    M.top(1); M.frame(5); M.frame(300)
    try: M.boom(1)
    except ValueError: pass
    M.part(1); M.ko(1); M.none(1)
    M.top.put_metadata("k", b"v", 1); M.top.put_metadata("kd", b"vd", 1, store_with_data=True)
    before = snap(store)
    if "config" in variant:
        cfg = dict(kw, readonly=True)
        if "cache" in variant: cfg["memory_cache_mb"] = 0.001
        st = FSB(config=cfg)
    else:
        st = FSB(read_only=True, memory_cache_mb=(0.001 if "cache" in variant else None), **kw)
    assert st.read_only is True
    env(st)
    def step(name, fn, expect=None):
        try:
            r = fn()
            if expect == "raise": bad.append("%s: %s did not raise (returned %r)" % (variant, name, r))
        except Exception as e:
            if expect != "raise" and not (expect == "val" and isinstance(e, ValueError)):
                bad.append("%s: %s raised %r" % (variant, name, e))
        after = snap(store)
        if after != before:
            diff = sorted(set(after.items()) ^ set(before.items()))[:3]
            bad.append("%s: %s modified the store: %r" % (variant, name, diff))
    n0 = cnt()
    step("top(1) memoized", lambda: M.top(1))
    step("frame(5)", lambda: M.frame(5)); step("frame(300)", lambda: M.frame(300)); step("frame(300) again", lambda: M.frame(300))
    step("boom(1)", lambda: M.boom(1), "val")
    step("part(1)", lambda: M.part(1).get("a")); step("ko(1)", lambda: M.ko(1)); step("none(1)", lambda: M.none(1))
    if cnt() != n0: bad.append("%s: memoized results were recomputed (%d executions)" % (variant, cnt() - n0))
    step("top(2) new", lambda: M.top(2)); step("top(2) again", lambda: M.top(2))
    step("frame(7) new", lambda: M.frame(7)); step("boom(2) new", lambda: M.boom(2), "val"); step("part(2) new", lambda: M.part(2)); step("ko(2) new", lambda: M.ko(2)); step("ko(3) new", lambda: M.ko(3)); step("none(2)", lambda: M.none(2))
    step("call_batch", lambda: M.leaf.call_batch([{"x": 1}, {"x": 50}]))
    step("get_metadata", lambda: (M.top.get_metadata("k", args=(1,)), M.top.get_metadata("kd", args=(1,)), M.top.get_metadata("zz", args=(1,))))
    step("memento/list", lambda: (M.top.memento(1), M.top.list_mementos(), m.list_memoized_functions() if hasattr(m, "list_memoized_functions") else None))
    step("put_metadata", lambda: M.top.put_metadata("k", b"w", 1), "raise")
    step("put_metadata with data", lambda: M.top.put_metadata("k", b"w", 1, store_with_data=True), "raise")
    step("forget", lambda: M.top.forget(1), "raise")
    step("forget_all", lambda: M.top.forget_all(), "raise")
    step("forget_cluster", lambda: m.forget_cluster("ro"), "raise")
    step("memento.forget", lambda: M.top.memento(1).forget(), "raise")
    step("forget_exceptions_recursively", lambda: M.boom.memento(1).forget_exceptions_recursively(), "raise")
    step("top(1) after", lambda: M.top(1))
    got = M.top.get_metadata("k", args=(1,))
    if got != b"v": bad.append("%s: metadata changed: %r" % (variant, got))
print("\n".join(bad) or "read-only store untouched")
sys.exit(1 if bad else 0)
