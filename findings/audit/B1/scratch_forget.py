import sys, os, logging, tempfile
sys.path.insert(0, "/repo"); sys.path.insert(0, "/tmp/audit2_B1")
logging.disable(logging.CRITICAL)
import twosigma.memento as m
from twosigma.memento.storage_filesystem import FilesystemStorageBackend as FSB
import c05_mod as M
store = tempfile.mkdtemp(prefix="b1_sf_")
m.Environment.set(m.Environment(name="e", base_dir=store, repos=[m.ConfigurationRepository(name="r", clusters={"b1": m.FunctionCluster(name="b1", storage=FSB(path=store + "/d"))})]))
M.kinds({1: "a"})
M.kinds.memento({1: "a"}).forget()
print("still memoized after memento.forget():", M.kinds.memento({1: "a"}) is not None)
