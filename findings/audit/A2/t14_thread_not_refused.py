"""C14/C01: a memento function calling an UNDECLARED memento function from a worker thread is not refused (the call stack is thread-local, the
worker thread looks like top of stack), and an edit of the callee then leaves the caller's stored result stale."""
import sys; sys.path.insert(0, "/tmp/audit_A2")
from harness import *
PROG = '''
import sys
from concurrent.futures import ThreadPoolExecutor
from twosigma.memento import memento_function
@memento_function
def f(n):
    from util import g          # local import: `g` is a local variable, so it is not in f's static closure
    with ThreadPoolExecutor(2) as ex:
        return sum(ex.map(g, range(n)))
@memento_function
def f_same_thread(n):
    from util import g
    return sum(map(g, range(n)))
'''
U1 = '''
from twosigma.memento import memento_function
@memento_function
def g(x):
    return x + 1
'''
U2 = U1.replace("x + 1", "x + 100")
print("-- same thread (control): must be refused")
p0 = staleness("t14a", [{"prog.py": PROG, "util.py": U1}, {"prog.py": PROG, "util.py": U2}], "prog.f_same_thread(3)", "prog.f_same_thread")
print("-- worker thread")
p = staleness("t14b", [{"prog.py": PROG, "util.py": U1}, {"prog.py": PROG, "util.py": U2}], "prog.f(3)", "prog.f")
print(p0 + p)
sys.exit(1 if p0 + p else 0)
