"""C01: program = script main.py (run as `python main.py`) + helper module util.py in the same directory.  The package scope is
{inspect.getmodule(f).__package__} = {None} for __main__, util's __package__ is '' : the helper is outside the scope, silently untracked."""
import sys, subprocess, os; sys.path.insert(0, "/tmp/audit_A2")
from harness import *
work = new_work("t16"); env = new_store(work)
MAIN = '''
import sys
sys.path.insert(0, "/repo")
from twosigma.memento import memento_function, Environment
Environment.set(%r)
import util
@memento_function
def f(x):
    return util.helper(x)
if __name__ == "__main__":
    print(f(1), f.version(), [str(r) for r in f.hash_rules()])
''' % env
outs = []
for u in ("def helper(x):\n    return x + 1\n", "def helper(x):\n    return x + 5\n"):
    write_files(work, {"main.py": MAIN, "util.py": u})
    p = subprocess.run(["/venv/bin/python", "main.py"], cwd=work, capture_output=True, text=True, env=dict(os.environ, PYTHONDONTWRITEBYTECODE="1"))
    print(p.stdout.strip(), p.stderr[-300:]); outs.append(p.stdout.split()[0])
print("edition 2 must return 6; got", outs[1])
sys.exit(0 if outs[1] == "6" else 1)
