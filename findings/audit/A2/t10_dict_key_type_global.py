"""C01: the serialisation of tracked variables is not injective: dict keys 1 and '1' render the same."""
import sys; sys.path.insert(0, "/tmp/audit_A2")
from harness import *
A = {'prog.py': 'import sys, functools, datetime\nfrom twosigma.memento import memento_function\nD = {1: "a"}\n@memento_function\ndef f(x):\n    return D.get(1)\n'}
B = {k: v.replace('{1: "a"}', '{"1": "a"}') for k, v in A.items()}
assert A != B
p = staleness('t10_dict_key_type_global', [A, B], "prog.f(1)", "prog.f")
print("VIOLATION: " + "; ".join(p) if p else "holds")
sys.exit(1 if p else 0)
