"""C01/C13 (cross-process): a modifier clone (f.force_local() / ignore_result / with_context_args / partial) freezes f.version() AT CLONE TIME as an explicit
version.  Created at module level before a dependency is defined, the frozen version does not contain the dependency: editing it never invalidates."""
import sys; sys.path.insert(0, "/tmp/audit_A2")
from harness import *
A = {"prog.py": '''
from twosigma.memento import memento_function
@memento_function
def f(x):
    return g(x)
f_local = f.force_local()
@memento_function
def g(x):
    return x + 1
'''}
B = {k: v.replace("x + 1", "x + 5") for k, v in A.items()}
p = staleness("t18", [A, B], "prog.f_local(1)", "prog.f_local")
print("VIOLATION: " + "; ".join(p) if p else "holds")
sys.exit(1 if p else 0)
