import sys; sys.path.insert(0, "/tmp/audit_A2/inproc")
from common import *
SRC = '''
from twosigma.memento import memento_function
class Cfg:
    def __init__(self, k):
        self.k = k
CFG = Cfg(1)
@memento_function
def f(x):
    return x + CFG.k
'''
d = setup("x3", {"prog.py": SRC})
import prog
v1 = prog.f.version(); r1 = prog.f(1)
prog.CFG = prog.Cfg(50)        # rebinding the module attribute the dotted name starts from
v2 = prog.f.version(); r2 = prog.f(1)
truth = fresh_version(d, {"prog.py": SRC.replace("Cfg(1)", "Cfg(50)")})
print("before:", v1, r1, "| after CFG = Cfg(50):", v2, r2, "| fresh process:", truth, "un-memoized: 51")
sys.exit(1 if (v2 != truth or r2 != 51) else 0)
