import sys; sys.path.insert(0, "/tmp/audit_A2/inproc")
from common import *
SRC = '''
from twosigma.memento import memento_function
K = 1
def helper(x):
    return x + K
@memento_function
def f(x):
    return helper(x)
'''
d = setup("x2", {"prog.py": SRC})
import prog
c = prog.f.force_local()      # modifier clone (also: ignore_result / with_context_args / partial)
v1 = c.version(); r1 = c(1)
prog.K = 50                    # rebinding a tracked module variable
v_reg = prog.f.version()
v2 = c.version(); r2 = c(1)
truth = fresh_version(d, {"prog.py": SRC.replace("K = 1", "K = 50")})
print("clone before:", v1, r1, "| after K=50: clone", v2, r2, "registered fn", v_reg, prog.f(1), "| fresh process:", truth, "un-memoized: 51")
sys.exit(1 if (v2 != truth or r2 != 51) else 0)
