"""C13/C01 (in-process, 're-executing definitions'): functions (re)defined with exec() have no retrievable source: list_dotted_names silently returns
the empty set, so NO dependency of such a function is tracked (plain helper edits are invisible)."""
import sys; sys.path.insert(0, "/tmp/audit_A2/inproc")
from common import *
SRC = '''
from twosigma.memento import memento_function
def helper(x):
    return x + 1
@memento_function
def f(x):
    return helper(x)
'''
d = setup("x6", {"prog.py": SRC})
import prog
r0 = prog.f(1)
# re-execute the definition of f (unchanged text) in the module namespace, as a notebook / REPL does
exec('@memento_function\ndef f(x):\n    return helper(x)\n', prog.__dict__)
try:
    v1 = prog.f.version(); r1 = prog.f(1)
except Exception as e:
    print("version()/call raised", type(e).__name__, e); sys.exit(1)
exec('def helper(x):\n    return x + 5\n', prog.__dict__)     # edit the helper
v2 = prog.f.version(); r2 = prog.f(1)
print("rules of re-executed f:", [str(r) for r in prog.f.hash_rules()])
print("after re-exec of f:", v1, r1, "| after editing helper:", v2, r2, "(un-memoized: 6)")
sys.exit(1 if r2 != 6 else 0)
