import sys; sys.path.insert(0, "/tmp/audit_A2/inproc")
from common import *
SRC = '''
import functools
from twosigma.memento import memento_function
@memento_function
def g(x):
    return x + 1
@memento_function
def key(x):
    return x
@memento_function
def h(x):
    return x * 2

# 1. nested lambda parameter / nested local named like a memento function: no reference to the global at all
@memento_function
def over1(xs):
    return sorted(xs, key=lambda g: -g)
@memento_function
def over2(x):
    def inner():
        h = 3
        return h
    return inner() + x

# 2. decorator-wrapped memento function (wrapper without functools.wraps)
def logged(fn):
    def wrapper(*a):
        return fn(*a)
    return wrapper
g_logged = logged(g)
@memento_function
def under1(x):
    return g_logged(x)

# 3. class / static method
class Tools:
    @staticmethod
    def s(x):
        return g(x)
    @classmethod
    def c(cls, x):
        return h(x)
    def m(self, x):
        return g(x)
@memento_function
def viastatic(x):
    return Tools.s(x)
@memento_function
def viaclassmethod(x):
    return Tools.c(x)
@memento_function
def viainstance(x):
    t = Tools()
    return t.m(x)
@memento_function
def viainstance2(x):
    return Tools().m(x)
# 4. functools.partial of a memento function at module level
g_part = functools.partial(g)
@memento_function
def viapartial(x):
    return g_part(x)
# 5. comprehension / generator in a plain helper, cycle between plain helpers
def pa(x):
    return pb(x) if x > 0 else 0
def pb(x):
    return pa(x - 1) + sum(g(i) for i in range(2))
@memento_function
def viacycle(x):
    return pa(x)
# 6. memento function stored in a dict / list at module level
TABLE = {"g": g}
LIST = [h]
@memento_function
def viatable(x):
    return TABLE["g"](x) + LIST[0](x)
'''
d = setup("x5", {"prog.py": SRC})
import prog
from twosigma.memento.exception import UndeclaredDependencyError
def names(s): return sorted(m.qualified_name_without_version.split(":")[1] for m in s)
expect = dict(over1=[], over2=[], under1=["g"], viastatic=["g"], viaclassmethod=["h"], viainstance=["g"], viainstance2=["g"], viapartial=["g"], viacycle=["g"], viatable=["g", "h"])
args = dict(over1=[[3, 1, 2]])
bad = 0
for n, exp in expect.items():
    fn = getattr(prog, n)
    t = names(fn.dependencies().transitive_memento_fn_dependencies())
    dd = names(fn.dependencies().direct_memento_fn_dependencies())
    try:
        r = fn(*args.get(n, [1]))
    except UndeclaredDependencyError as e:
        r = "UndeclaredDependencyError"
    except Exception as e:
        r = type(e).__name__ + str(e)[:80]
    flag = "" if t == exp else ("  <-- closure differs from the reference graph %s" % exp)
    if t != exp: bad += 1
    print("%-15s transitive=%s direct=%s call=%r%s" % (n, t, dd, r, flag))
sys.exit(1 if bad else 0)
