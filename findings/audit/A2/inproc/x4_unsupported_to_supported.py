import sys; sys.path.insert(0, "/tmp/audit_A2/inproc")
from common import *
SRC = '''
from twosigma.memento import memento_function
LIMITS = {1, 2}          # a set: not a type the variable tracker can serialise -> no rule at all
@memento_function
def f(x):
    return sorted(LIMITS)
'''
d = setup("x4", {"prog.py": SRC})
import prog
v1 = prog.f.version(); r1 = prog.f(1)
prog.LIMITS = [7, 8]       # now a supported type
v2 = prog.f.version(); r2 = prog.f(1)
truth = fresh_version(d, {"prog.py": SRC.replace("{1, 2} ", "[7, 8] ")})
print("before:", v1, r1, "| after LIMITS=[7, 8]:", v2, r2, "| fresh process:", truth, "un-memoized: [7, 8]")
sys.exit(1 if (v2 != truth or r2 != [7, 8]) else 0)
