"""Harness: run editions of a temp module in child processes against a persistent filesystem store."""
import json, os, shutil, subprocess, sys, tempfile

CHILD = r'''
import sys, json, os
sys.path.insert(0, "/repo")
sys.path.insert(0, os.environ["A2_WORK"])
from twosigma.memento import Environment
Environment.set(os.environ["A2_ENV"])
import importlib
prog = importlib.import_module(os.environ.get("A2_MOD", "prog"))
out = {}
try:
    out["result"] = repr(eval(os.environ["A2_EXPR"], {"prog": prog}))
except Exception as e:
    out["error"] = type(e).__name__ + ": " + str(e)[:300]
vf = os.environ.get("A2_VERSION_OF")
if vf:
    try:
        out["version"] = eval(vf, {"prog": prog}).version()
    except Exception as e:
        out["version_error"] = type(e).__name__ + ": " + str(e)[:300]
print("A2OUT" + json.dumps(out))
'''

def new_work(name):
    d = os.path.join("/tmp/audit_A2/work", name)
    shutil.rmtree(d, ignore_errors=True)
    os.makedirs(d)
    return d

def new_store(work, name="store"):
    s = os.path.join(work, name)
    shutil.rmtree(s, ignore_errors=True)
    os.makedirs(s)
    with open(os.path.join(s, "env.json"), "w") as f:
        f.write('{"name": "a2"}')
    return os.path.join(s, "env.json")

def write_files(work, files):
    for rel, src in files.items():
        p = os.path.join(work, rel)
        os.makedirs(os.path.dirname(p), exist_ok=True)
        with open(p, "w") as f:
            f.write(src)
    # avoid stale pyc
    for root, dirs, fs in os.walk(work):
        for d in dirs:
            if d == "__pycache__":
                shutil.rmtree(os.path.join(root, d), ignore_errors=True)

def run(work, env, expr, version_of=None, seed="0", mod="prog"):
    e = dict(os.environ, A2_WORK=work, A2_ENV=env, A2_EXPR=expr, A2_MOD=mod, PYTHONHASHSEED=str(seed), PYTHONDONTWRITEBYTECODE="1")
    if version_of:
        e["A2_VERSION_OF"] = version_of
    p = subprocess.run(["/venv/bin/python", "-c", CHILD], capture_output=True, text=True, env=e)
    out = None
    for line in p.stdout.splitlines():
        if line.startswith("A2OUT"):
            out = json.loads(line[5:])
    if out is None:
        out = {"crash": p.stderr[-600:]}
    out["bodies"] = [l[5:] for l in p.stderr.splitlines() if l.startswith("BODY ")]
    return out

def staleness(name, editions, expr, version_of=None, mod="prog"):
    """editions: list of dict rel->source. Run each edition in turn against ONE persistent store; compare each with a fresh-store run.
    Returns list of problems."""
    work = new_work(name)
    persistent = new_store(work, "store_persistent")
    problems = []
    for i, files in enumerate(editions):
        write_files(work, files)
        got = run(work, persistent, expr, version_of, mod=mod)
        fresh = run(work, new_store(work, "store_fresh"), expr, version_of, mod=mod)
        ok = ("error" in got and got["error"].startswith("UndeclaredDependencyError")) or got.get("result") == fresh.get("result") and "result" in got
        print("edition %d: memoized run -> %s | un-memoized (fresh store) -> %s | version %s" % (i, got.get("result", got.get("error", got.get("crash"))), fresh.get("result", fresh.get("error", fresh.get("crash"))), got.get("version")))
        if not ok:
            problems.append("edition %d: memoized run returned %r, current program computes %r" % (i, got.get("result", got.get("error", got.get("crash"))), fresh.get("result", fresh.get("error"))))
    return problems
