"""C01: a plain helper decorated with a functools.wraps decorator is hashed through __wrapped__ only: the decorator's argument (a constant of the program) is not part of the version."""
import sys; sys.path.insert(0, "/tmp/audit_A2")
from harness import *
A = {'prog.py': 'import sys, functools, datetime\nfrom twosigma.memento import memento_function\ndef scale(k):\n    def deco(fn):\n        @functools.wraps(fn)\n        def wrapper(*a):\n            return k * fn(*a)\n        return wrapper\n    return deco\n@scale(2)\ndef helper(x):\n    return x + 1\n@memento_function\ndef f(x):\n    return helper(x)\n'}
B = {k: v.replace("@scale(2)", "@scale(3)") for k, v in A.items()}
assert A != B
p = staleness('t04_decorator_argument', [A, B], "prog.f(1)", "prog.f")
print("VIOLATION: " + "; ".join(p) if p else "holds")
sys.exit(1 if p else 0)
