"""C01: co_freevars is hashed but the cell contents are not: helper = make(1) -> make(2)."""
import sys; sys.path.insert(0, "/tmp/audit_A2")
from harness import *
A = {'prog.py': 'import sys, functools, datetime\nfrom twosigma.memento import memento_function\ndef make(k):\n    def inner(x):\n        return x + k\n    return inner\nhelper = make(1)\n@memento_function\ndef f(x):\n    return helper(x)\n'}
B = {k: v.replace("make(1)", "make(2)") for k, v in A.items()}
assert A != B
p = staleness('t07_closure_cell', [A, B], "prog.f(1)", "prog.f")
print("VIOLATION: " + "; ".join(p) if p else "holds")
sys.exit(1 if p else 0)
