"""C01: methods of a class of the same module called through a local instance are not tracked (only Class.attr dotted names are)."""
import sys; sys.path.insert(0, "/tmp/audit_A2")
from harness import *
A = {'prog.py': 'import sys, functools, datetime\nfrom twosigma.memento import memento_function\nclass Foo:\n    def run(self, x):\n        return x + 1\n@memento_function\ndef f(x):\n    o = Foo()\n    return o.run(x)\n'}
B = {k: v.replace("x + 1", "x + 3") for k, v in A.items()}
assert A != B
p = staleness('t12_method_via_instance', [A, B], "prog.f(1)", "prog.f")
print("VIOLATION: " + "; ".join(p) if p else "holds")
sys.exit(1 if p else 0)
