"""C01: a module-level bytes variable (a type encode_arg supports) is not tracked: encode_arg returns base64 BYTES, json.dumps raises TypeError, _serialize_value swallows it."""
import sys; sys.path.insert(0, "/tmp/audit_A2")
from harness import *
A = {'prog.py': 'import sys, functools, datetime\nfrom twosigma.memento import memento_function\nKEY = b"abc"\n@memento_function\ndef f(x):\n    return KEY\n'}
B = {k: v.replace('b"abc"', 'b"xyz"') for k, v in A.items()}
assert A != B
p = staleness('t08_bytes_global', [A, B], "prog.f(1)", "prog.f")
print("VIOLATION: " + "; ".join(p) if p else "holds")
sys.exit(1 if p else 0)
