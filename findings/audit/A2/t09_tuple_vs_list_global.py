"""C01: the serialisation of tracked variables is not injective: tuple and list render the same."""
import sys; sys.path.insert(0, "/tmp/audit_A2")
from harness import *
A = {'prog.py': 'import sys, functools, datetime\nfrom twosigma.memento import memento_function\nS = (1, 2)\n@memento_function\ndef f(x):\n    return isinstance(S, tuple)\n'}
B = {k: v.replace("(1, 2)", "[1, 2]") for k, v in A.items()}
assert A != B
p = staleness('t09_tuple_vs_list_global', [A, B], "prog.f(1)", "prog.f")
print("VIOLATION: " + "; ".join(p) if p else "holds")
sys.exit(1 if p else 0)
