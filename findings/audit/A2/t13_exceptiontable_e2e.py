"""C01: end to end: try/except -> try/except/else in a plain helper (same co_code, different co_exceptiontable) keeps the version."""
import sys; sys.path.insert(0, "/tmp/audit_A2")
from harness import *
A = {'prog.py': 'import sys, functools, datetime\nfrom twosigma.memento import memento_function\ndef q():\n    raise KeyError("q")\ndef helper(x):\n    try:\n        x = x + 1\n        q()\n    except KeyError:\n        return -x\n@memento_function\ndef f(x):\n    try:\n        return helper(x)\n    except KeyError:\n        return "KeyError escaped"\n'}
B = {k: v.replace("        x = x + 1\n        q()\n    except KeyError:\n        return -x\n", "        x = x + 1\n    except KeyError:\n        return -x\n    else:\n        q()\n") for k, v in A.items()}
assert A != B
p = staleness('t13_exceptiontable_e2e', [A, B], "prog.f(1)", "prog.f")
print("VIOLATION: " + "; ".join(p) if p else "holds")
sys.exit(1 if p else 0)
