"""C01: a plain helper decorated with functools.lru_cache has no __globals__: no rule matches, it is silently untracked."""
import sys; sys.path.insert(0, "/tmp/audit_A2")
from harness import *
A = {'prog.py': 'import sys, functools, datetime\nfrom twosigma.memento import memento_function\n@functools.lru_cache(maxsize=None)\ndef helper(x):\n    return x + 1\n@memento_function\ndef f(x):\n    return helper(x)\n'}
B = {k: v.replace("x + 1", "x + 5") for k, v in A.items()}
assert A != B
p = staleness('t06_lru_cache_helper', [A, B], "prog.f(1)", "prog.f")
print("VIOLATION: " + "; ".join(p) if p else "holds")
sys.exit(1 if p else 0)
