"""C01: the version digests the CONCATENATION of rule hashes without separators/keys; explicit version strings of dependencies enter raw, so editing g '1'->'11' and h '11'->'1' (with new bodies) leaves the auto version of f unchanged: stale result."""
import sys; sys.path.insert(0, "/tmp/audit_A2")
from harness import *
A = {'prog.py': 'import sys, functools, datetime\nfrom twosigma.memento import memento_function\n@memento_function(version="1")\ndef g(x):\n    return x + 1\n@memento_function(version="11")\ndef h(x):\n    return x * 2\n@memento_function\ndef f(x):\n    return g(x) + h(x)\n'}
B = {k: v.replace('version="1")\ndef g(x):\n    return x + 1', 'version="11")\ndef g(x):\n    return x + 100').replace('version="11")\ndef h(x):\n    return x * 2', 'version="1")\ndef h(x):\n    return x * 200') for k, v in A.items()}
assert A != B
p = staleness('t02_explicit_version_concat', [A, B], "prog.f(1)", "prog.f")
print("VIOLATION: " + "; ".join(p) if p else "holds")
sys.exit(1 if p else 0)
