"""C03/C14: version (and the dependency closure) of an UNCHANGED program differs between processes with different PYTHONHASHSEED:
two plain functions with equal module:__qualname__ (lambdas) collide on the rule key; which one survives in the rule set depends on the
iteration order of the set of detected names.  With a memento call inside one lambda, the same program either works or is refused."""
import sys; sys.path.insert(0, "/tmp/audit_A2")
from harness import *
SRC = '''
from twosigma.memento import memento_function
@memento_function
def g(x):
    return x + 100
h1 = lambda x: x + 1
h2 = lambda x: g(x) * 2
@memento_function
def f(x):
    return h1(x) + h2(x)
'''
work = new_work("t15"); write_files(work, {"prog.py": SRC})
seen = {}
for s in range(10):
    r = run(work, new_store(work), "prog.f(1)", "prog.f", seed=s)
    seen.setdefault((r.get("version"), r.get("result", r.get("error", ""))[:40]), []).append(s)
for k, v in seen.items():
    print("seeds", v, "-> version %s, call -> %s" % k)
# second half of C03: second process against the same store must execute no body
env = new_store(work, "shared")
SRC2 = SRC.replace("return g(x) * 2", "return x * 2").replace("h2 = lambda x: g(x) * 2", "h2 = lambda x: x * 2").replace("    return h1(x) + h2(x)", "    print('BODY f', file=__import__('sys').stderr)\n    return h1(x) + h2(x)")
write_files(work, {"prog.py": SRC2})
first = run(work, env, "prog.f(1)", "prog.f", seed=0); second = run(work, env, "prog.f(1)", "prog.f", seed=2)
print("same store, unchanged program: process 1 (seed 0) version", first.get("version"), "bodies", first["bodies"], "| process 2 (seed 2) version", second.get("version"), "bodies run", second["bodies"])
sys.exit(1 if len(seen) > 1 or second["bodies"] else 0)
