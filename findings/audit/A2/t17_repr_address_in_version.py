"""C03 (secondary): fn_code_hash falls back to repr(fn) when the innermost __wrapped__ object has no __code__; repr of a functools.partial /
bound method / callable instance contains a memory address, so the version differs in every process and nothing is ever reused."""
import sys; sys.path.insert(0, "/tmp/audit_A2")
from harness import *
SRC = '''
import functools
from twosigma.memento import memento_function
def add(k, x):
    return x + k
_p = functools.partial(add, 1)
@functools.wraps(_p)
def helper(x):
    return _p(x)
@memento_function
def f(x):
    return helper(x)
'''
work = new_work("t17"); write_files(work, {"prog.py": SRC})
vs = {run(work, new_store(work), "prog.f(1)", "prog.f", seed=0).get("version") for _ in range(4)}
print("versions of one unchanged program over 4 processes with the SAME hash seed:", vs)
sys.exit(1 if len(vs) > 1 else 0)
