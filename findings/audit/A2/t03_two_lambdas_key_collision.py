"""C01/C03: two different plain functions with the same module:__qualname__ (two lambdas) get the same rule key; the set keeps one, the other is never hashed: editing it is not seen."""
import sys; sys.path.insert(0, "/tmp/audit_A2")
from harness import *
A = {'prog.py': 'import sys, functools, datetime\nfrom twosigma.memento import memento_function\nh1 = lambda x: x + 1\nh2 = lambda x: x * 2\n@memento_function\ndef f(x):\n    return h1(x) + h2(x)\n'}
B = {k: v.replace("x * 2", "x * 7").replace("x + 1", "x + 1 ") for k, v in A.items()}
assert A != B
p = staleness('t03_two_lambdas_key_collision', [A, B], "prog.f(1)", "prog.f")
print("VIOLATION: " + "; ".join(p) if p else "holds")
sys.exit(1 if p else 0)
