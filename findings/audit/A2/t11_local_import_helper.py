"""C01/C14: a plain helper imported inside the function body is a local name: removed from the closure, never hashed, and (being plain) never refused."""
import sys; sys.path.insert(0, "/tmp/audit_A2")
from harness import *
A = {'prog.py': 'import sys, functools, datetime\nfrom twosigma.memento import memento_function\n@memento_function\ndef f(x):\n    from util import helper\n    return helper(x)\n', 'util.py': 'def helper(x):\n    return x + 1\n'}
B = {k: v.replace("x + 1", "x + 5") for k, v in A.items()}
assert A != B
p = staleness('t11_local_import_helper', [A, B], "prog.f(1)", "prog.f")
print("VIOLATION: " + "; ".join(p) if p else "holds")
sys.exit(1 if p else 0)
