"""C01: a plain helper wrapped by a decorator without functools.wraps: only the wrapper's code is hashed, the body of the helper itself is not."""
import sys; sys.path.insert(0, "/tmp/audit_A2")
from harness import *
A = {'prog.py': 'import sys, functools, datetime\nfrom twosigma.memento import memento_function\ndef deco(fn):\n    def wrapper(*a):\n        return fn(*a)\n    return wrapper\n@deco\ndef helper(x):\n    return x + 1\n@memento_function\ndef f(x):\n    return helper(x)\n'}
B = {k: v.replace("x + 1", "x + 5") for k, v in A.items()}
assert A != B
p = staleness('t05_decorated_helper_no_wraps', [A, B], "prog.f(1)", "prog.f")
print("VIOLATION: " + "; ".join(p) if p else "holds")
sys.exit(1 if p else 0)
