import twosigma.memento as m


@m.memento_function(cluster="aud")
def leaf(a, b=0):
    return a + b


@m.memento_function(cluster="aud")
def mid(x):
    return leaf(x) + leaf.partial(x)(7) + leaf.partial(b=5)(x)


@m.memento_function(cluster="aud")
def root(x):
    return mid(x)
