import numpy as np
import twosigma.memento as m
from audtrace import T


@m.memento_function(cluster="aud")
def pixels(n):
    T("pixels", n)
    return np.arange(n, dtype=np.uint8)            # image data


@m.memento_function(cluster="aud")
def big_endian(n):
    T("big_endian", n)
    return np.frombuffer(bytes(8 * n), dtype=">f8")   # float64 read from a network-order file


@m.memento_function(cluster="aud")
def half(n):
    T("half", n)
    return np.ones(n, dtype=np.float16)


@m.memento_function(cluster="aud")
def labels(n):
    T("labels", n)
    return np.array(["a"] * n)


@m.memento_function(cluster="aud")
def days(n):
    T("days", n)
    return np.arange(n).astype("datetime64[D]")


@m.memento_function(cluster="aud")
def reference(n):
    T("reference", n)
    return np.arange(n, dtype=np.int64)


@m.memento_function(cluster="aud")
def pixels_in_list(n):
    T("pixels_in_list", n)
    return [np.arange(n, dtype=np.uint8)]           # the same array, one level down: stored and read back without complaint
