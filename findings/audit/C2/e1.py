import sys, os, tempfile
sys.path.insert(0, "/verif/findings"); sys.path.insert(0, "/tmp/audit3_C2")
from common import *
import mods
from audtrace import *
calls = trace
for kind, cache in (("fs", 0), ("fs", 10), ("mem", 0)):
    st = set_env(tempfile.mkdtemp(), kind, cache)
    print("==", kind, cache)
    for dt in ("int64", "uint8", "float16", "uint64", "U3", "complex64", "datetime64[D]", "object"):
        reset()
        out = []
        for i in range(2):
            try:
                r = mods.arr(dt); out.append((type(r).__name__, str(r.dtype)))
            except BaseException as e:
                out.append((type(e).__name__, str(e)[:60]))
        print(dt, out, "body runs", len(calls()))
