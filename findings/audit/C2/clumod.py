import twosigma.memento as m
FNS = {}
for i, c in enumerate(["a:", ":a", "a:b", "a#", "#", ":", "a#b:c", "a.b-c+d=e@f", "x:y#z"]):
    def mk(c):
        def f(x):
            return [c, x]
        f.__name__ = f.__qualname__ = "f%d" % i
        return m.memento_function(cluster=c, version="v:1#2")(f)
    FNS[c] = mk(c)
    globals()["f%d" % i] = FNS[c]
