import sys, os, tempfile
sys.path.insert(0, "/verif/findings"); sys.path.insert(0, "/tmp/audit3_C2")
from common import *
import mods
from audtrace import *
calls = trace
st = set_env(tempfile.mkdtemp(), "fs", 0)
print(mods.val.version()); print(mods.val(1)); print(mods.val.version()); print(mods.val(1)); print(calls())
print(mods.arr.version()); mods.arr("int64"); print(mods.arr.version()); mods.arr("int64"); print(calls())
