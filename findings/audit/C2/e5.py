import sys, os, tempfile, json
sys.path.insert(0, "/verif/findings"); sys.path.insert(0, "/tmp/audit3_C2")
from common import *
from twosigma.memento.storage_null import NullStorageBackend
from twosigma.memento.runner_null import NullRunnerBackend
from twosigma.memento.runner_local import LocalRunnerBackend
d = tempfile.mkdtemp()
def desc(c):
    s = c.storage
    out = dict(stype=type(s).__name__, ro=bool(s.read_only), rtype=type(c.runner).__name__, name=c.name, desc=c.description, locked=c.locked)
    if isinstance(s, FilesystemStorageBackend):
        out.update(path=str(s._data_source.base_path) if hasattr(s._data_source, "base_path") else None, meta=str(s._metadata_source.data_source.base_path),
                   cache=(s._memory_cache.memory_cache_bytes if s._memory_cache else None), codec=type(s.codec).__name__)
    return out
clusters = {
 "a": FunctionCluster(name="a", storage=FilesystemStorageBackend(path=d + "/a", memory_cache_mb=0.5, read_only=True), runner=NullRunnerBackend()),
 "b": FunctionCluster(name="b", storage=FilesystemStorageBackend(path=d + "/b", metadata_path=d + "/bm"), description="x"),
 "c": FunctionCluster(name="c", storage=MemoryStorageBackend(read_only=True)),
 "d": FunctionCluster(name="d", storage=NullStorageBackend()),
 "e": FunctionCluster({"name": "e", "storage": {"type": "filesystem", "path": d + "/e", "memory_cache_mb": 3, "readonly": True}, "runner": {"type": "local"}}),
 "f": FunctionCluster({"name": "f", "storage": {"type": "filesystem", "path": d + "/e", "memory_cache_mb": 3, "readonly": True}}, storage=FilesystemStorageBackend({"path": d + "/f0", "readonly": True, "memory_cache_mb": 2}, path=d + "/f", read_only=False, memory_cache_mb=0)),
 "g": FunctionCluster(name="g", storage=FilesystemStorageBackend(path="rel/g")),
 "k": FunctionCluster(name="other-name", storage=FilesystemStorageBackend(path=d + "/k")),
}
r1 = ConfigurationRepository(name="r1", clusters=clusters)
r2 = ConfigurationRepository(name="r2", clusters={"a": FunctionCluster(name="a", storage=MemoryStorageBackend()), "z": FunctionCluster(name="z", storage=MemoryStorageBackend())})
env = Environment(name="E", base_dir=d, repos=[r2])
env.prepend_repo(r1)
r0 = ConfigurationRepository(name="r0", clusters={"z": FunctionCluster(name="z", storage=NullStorageBackend())})
env.append_repo(r0)
dump = env.to_dict()
dump2 = json.loads(json.dumps(dump))
env2 = Environment(dump2)
bad = 0
for n in list(clusters) + ["z", "nope", None]:
    c1, c2 = env.get_cluster(n), env2.get_cluster(n)
    d1, d2 = (desc(c1) if c1 else None), (desc(c2) if c2 else None)
    print(n, "OK" if d1 == d2 else "DIFF", d1 if d1 == d2 else (d1, d2))
    bad += d1 != d2
print(env2.to_dict() == dump)
