import sys, os, tempfile
sys.path.insert(0, "/verif/findings"); sys.path.insert(0, "/tmp/audit3_C2")
from common import *
import mods
from audtrace import *
for kind, cache in (("fs", 0), ("mem", 0)):
    st = set_env(tempfile.mkdtemp(), kind, cache)
    print("==", kind, cache)
    for k in ("uni", "os", "key", "weird", "colon", "stopiter", "grp", "mod", "assert", "plain", "sysexit"):
        reset()
        out = []
        for i in range(3):
            try:
                r = mods.boom(k); out.append(("ret", r))
            except BaseException as e:
                out.append((type(e).__module__, type(e).__qualname__, str(e)[:50].replace("\n", "|"), getattr(e, "errno", None)))
        print(k, "runs", len(trace()));
        for o in out: print("    ", o)
        me = mods.boom.memento(k)
        print("     memento:", me and me.invocation_metadata.result_type)
