"""history harness: run(phases) -- each phase = (dict of module files, script text); each phase runs in a fresh process sharing one store dir."""
import os, subprocess, sys, tempfile, textwrap
PRE = '''
import sys, os, logging
sys.path.insert(0, os.environ.get("PYVC_REPO", "/repo")); sys.path.insert(0, os.environ["B3_MODS"])
logging.disable(logging.CRITICAL)
import twosigma.memento as m
from twosigma.memento import Environment, ConfigurationRepository, FunctionCluster
from twosigma.memento.storage_filesystem import FilesystemStorageBackend
store = os.environ["B3_STORE"]
clusters = {n: FunctionCluster(name=n, storage=FilesystemStorageBackend(path=os.path.join(store, "data_" + n))) for n in os.environ.get("B3_CLUSTERS", "c1").split(",")}
m.Environment.set(Environment(name="e", base_dir=store, repos=[ConfigurationRepository(name="r", clusters=clusters)]))
'''
def run(phases, clusters="c1"):
    root = tempfile.mkdtemp(prefix="c2h_")
    mods = os.path.join(root, "mods"); os.makedirs(mods)
    outs = []
    for files, script in phases:
        for fn, text in files.items():
            p = os.path.join(mods, fn)
            if text is None:
                if os.path.exists(p): os.unlink(p)
            else:
                open(p, "w").write(textwrap.dedent(text))
        sp = os.path.join(root, "phase.py")
        open(sp, "w").write(PRE + textwrap.dedent(script))
        env = dict(os.environ, B3_MODS=mods, B3_STORE=root, B3_CLUSTERS=clusters, PYTHONDONTWRITEBYTECODE="1")
        r = subprocess.run(["/venv/bin/python", sp], env=env, capture_output=True, text=True)
        outs.append((r.returncode, r.stdout, r.stderr))
    return outs
