import errno
import twosigma.memento as m
from audtrace import T


@m.memento_function(cluster="aud")
def read_cfg(path):
    T("read_cfg", path)
    raise OSError(errno.ENOENT, "No such file or directory", path)


@m.memento_function(cluster="aud")
def decode(hexbytes):
    T("decode", hexbytes)
    return bytes.fromhex(hexbytes).decode("utf-8")


@m.memento_function(cluster="aud")
def latin(hexbytes):
    T("latin", hexbytes)
    return bytes.fromhex(hexbytes).decode("latin-1")


def _load(path):
    try:
        return read_cfg(path)
    except OSError as e:
        if e.errno == errno.ENOENT:      # the usual idiom
            return "default"
        raise


def _text(hexbytes):
    try:
        return decode(hexbytes)
    except UnicodeDecodeError:
        return latin(hexbytes)


@m.memento_function(cluster="aud")
def load_a(path):
    return _load(path)


@m.memento_function(cluster="aud")
def load_b(path):
    return _load(path)


@m.memento_function(cluster="aud")
def text_a(hexbytes):
    return _text(hexbytes)


@m.memento_function(cluster="aud")
def text_b(hexbytes):
    return _text(hexbytes)
