import sys
if not hasattr(sys, "_aud"): sys._aud = []
def T(*a): __import__("sys")._aud.append(a)
def trace(): return list(sys._aud)
def reset(): del sys._aud[:]
def outcome(thunk):
    try: return ("returned", thunk())
    except BaseException as e: return ("raised", type(e).__name__, str(e)[:80])
