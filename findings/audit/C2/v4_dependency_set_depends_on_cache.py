"""C10: "as dependency set exactly the function versions invoked transitively beneath it, itself included.  This record is the same whether each
sub-call was computed, found in the store before the run ..."  The dependency set is a set of FunctionReference objects whose equality includes the
partial arguments of the call that happened to be made: mid(1) calls leaf(1), leaf.partial(1)(7) and leaf.partial(b=5)(1) -- ONE function version --
and records up to three entries for it.  Which ones depends on what was memoized before: leaf(1, 7) memoized through the plain spelling is served with
a reference without partial arguments, so the entry ('leaf', partial_args=(1,)) is missing.  The stored record (functionDependencies in the
.memento.json) of the same call differs with the history.  exit 1 when the stored records differ / hold one version more than once."""
import sys, os, tempfile, json, glob
sys.path.insert(0, "/verif/findings"); sys.path.insert(0, os.path.dirname(os.path.abspath(__file__)))
from common import *
import v4_mod as V

def deps(fn):
    me = fn.memento(1)
    return sorted((d.qualified_name.split("#")[0], repr(d.partial_args), repr(sorted(d.partial_kwargs.items()))) for d in me.function_dependencies)

recs = {}
for tag, pre in (("empty store", ()), ("leaf(1, 7) memoized before", (lambda: V.leaf(1, 7),)), ("leaf(1, 5) and leaf(1, 7) memoized before", (lambda: V.leaf(1, 5), lambda: V.leaf(1, 7)))):
    d = tempfile.mkdtemp(); set_env(d, "fs", 0)
    for p in pre: p()
    V.root(1)
    recs[tag] = (deps(V.mid), deps(V.root))
    print(tag)
    for who, r in zip(("mid", "root"), recs[tag]):
        print("   %s.function_dependencies (%d entries):" % (who, len(r)), r)
vals = list(recs.values())
dup = any(len({e[0] for e in r}) != len(r) for pair in vals for r in pair)
diff = any(v != vals[0] for v in vals)
print("VIOLATION: the recorded dependency set of the same call depends on the history (%s) and lists one function version several times (%s)" % (diff, dup) if diff or dup else "same record")
sys.exit(1 if diff or dup else 0)
