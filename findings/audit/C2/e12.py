import sys, os, tempfile
sys.path.insert(0, "/verif/findings"); sys.path.insert(0, "/tmp/audit3_C2")
from common import *
import ctxmod as K
from audtrace import *
for kind in ("fs", "mem"):
    st = set_env(tempfile.mkdtemp(), kind, 0)
    for mode in ("inherit", "own", "empty", "batch", "partial", "prevent"):
        for ctx in (None, {"r": 1}, {"r": 2}, {}):
            f = K.a if ctx is None else K.a.with_context_args(ctx)
            reset(); o = outcome(lambda: f(1, mode)); t = trace(); o2 = outcome(lambda: f(1, mode)); t2 = trace()[len(t):]
            me = f.memento(1, mode)
            def walk(me, depth=0, out=None):
                out = out if out is not None else []
                for i in me.invocation_metadata.invocations:
                    out.append((depth, i.fn_reference.function_name, i.context_args))
                    sub = st.get_memento(i.fn_reference_with_arg_hash())
                    if sub is None: out.append("MISSING")
                    else: walk(sub, depth + 1, out)
                return out
            print(kind, mode, ctx, o[:2], "runs", [x[0] for x in t], "again", t2, walk(me))
