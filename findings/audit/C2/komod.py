import twosigma.memento as m
from twosigma.memento.result import KeyOverrideResult
from audtrace import T
@m.memento_function(cluster="aud")
def ko(x, key):
    T("ko", x, key)
    return KeyOverrideResult(x, key)
