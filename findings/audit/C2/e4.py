import sys, os, tempfile, itertools
sys.path.insert(0, "/verif/findings"); sys.path.insert(0, "/tmp/audit3_C2")
from common import *
import prov_mod as P
from audtrace import *
def record(me):
    im = me.invocation_metadata
    return ([(i.fn_reference.qualified_name, i.arg_hash, repr(i.fn_reference.partial_args), repr(sorted(i.fn_reference.partial_kwargs.items())), repr(sorted((i.context_args or {}).items()))) for i in im.invocations],
            sorted(set(d.qualified_name for d in me.function_dependencies)), im.result_type)
PRE = {"leaf_x": lambda: P.leaf(1), "leaf13": lambda: outcome(lambda: P.leaf(13)), "leaf_p": lambda: P.leaf.partial(b=5)(1), "leaf_17": lambda: P.leaf(1, 7), "leaf2": lambda: P.leaf(2),
       "mid": lambda: P.mid(1), "batchy": lambda: P.batchy(1), "catcher": lambda: P.catcher(1), "leaf_ctx": lambda: P.leaf.with_context_args({"k": 1})(1), "leaf_12": lambda: P.leaf(1, 2), "leaf3": lambda: P.leaf(3)}
bad = 0
for kind, cache in (("fs", 0), ("fs", 10), ("mem", 0)):
    ref = {}
    names = sorted(PRE)
    import random
    rnd = random.Random(5)
    subsets = [(), tuple(names)] + [tuple(n for n in names if rnd.random() < 0.5) for _ in range(25)] + [(n,) for n in names]
    for sub in subsets:
        st = set_env(tempfile.mkdtemp(), kind, cache)
        for n in sub: PRE[n]()
        for fn, nm in ((P.root, "root"), (P.failing_root, "failing_root")):
            o = outcome(lambda: fn(1))
            rec = (o[:2] if o[0] == "raised" else o, record(fn.memento(1)))
            if nm not in ref: ref[nm] = (sub, rec)
            elif ref[nm][1] != rec:
                bad += 1
                print("DIFF", kind, cache, nm, "pre=", sub)
                a, b = ref[nm][1], rec
                print("  outcome", a[0], b[0])
                for i, (x, y) in enumerate(itertools.zip_longest(a[1][0], b[1][0])):
                    if x != y: print("  inv", i, x, y)
                print("  deps", set(a[1][1]) ^ set(b[1][1]), len(a[1][1]), len(b[1][1]))
    print(kind, cache, "reference root:", len(ref["root"][1][1][0]), "invocations", len(ref["root"][1][1][1]), "deps")
    for i in ref["root"][1][1][0]: print("   ", i[0], i[1][:8], i[2:])
    for d in ref["root"][1][1][1]: print("   dep", d)
print("bad", bad)
