"""C12: "the qualified name can be split back into exactly its parts".  FunctionReference.__init__ builds the qualified name from the memento
function's qualified_name_without_version (module ':' __qualname__) but records its own parts from other sources:
  * function_name = fn.__name__  -- for a memento function that is a member of a class (admitted: only '<locals>' is refused, and
    _find_function walks dotted names) the reference says 'load' while its qualified name says 'Loader.load'; two different functions
    Loader.load / Other.load report the same function_name and the same qualified_name_without_version ('aud::v3_mod:load');
  * qualified_name_without_cluster = text after the FIRST '::' -- for a cluster ending in ':' (admissible: no '::' inside) the name is
    'prod:::v3_mod:top#1' and the first '::' is not the separator: ':v3_mod:top#1'.
parse_qualified_name splits both names correctly; the reference's own parts are not the parts of its name.  exit 1 when they differ."""
import sys, os, tempfile
sys.path.insert(0, "/verif/findings"); sys.path.insert(0, os.path.dirname(os.path.abspath(__file__)))
from common import *
import v3_mod as V
from twosigma.memento.reference import FunctionReference

bad = []
for fn in (V.Loader.load, V.Other.load, V.top):
    r = fn.fn_reference()
    p = FunctionReference.parse_qualified_name(r.qualified_name)
    want = dict(cluster=r.cluster_name, module=r.module, function=r.function_name, version=fn.version())
    wo_version = (p["cluster"] + "::" if p["cluster"] is not None else "") + p["module"] + ":" + p["function"]
    wo_cluster = p["module"] + ":" + p["function"] + "#" + p["version"]
    print(r.qualified_name, "\n   parsed            :", p, "\n   reference's parts :", want,
          "\n   qualified_name_without_version:", r.qualified_name_without_version, "(name says %s)" % wo_version,
          "\n   qualified_name_without_cluster:", r.qualified_name_without_cluster, "(name says %s)" % wo_cluster)
    if p != want: bad.append((r.qualified_name, "parts"))
    if r.qualified_name_without_version != wo_version: bad.append((r.qualified_name, "qualified_name_without_version"))
    if r.qualified_name_without_cluster != wo_cluster: bad.append((r.qualified_name, "qualified_name_without_cluster"))
a, b = V.Loader.load.fn_reference(), V.Other.load.fn_reference()
if a.qualified_name != b.qualified_name and a.qualified_name_without_version == b.qualified_name_without_version:
    bad.append(("two functions, one qualified_name_without_version", a.qualified_name_without_version))
print("VIOLATION: %r" % bad if bad else "parts agree")
sys.exit(1 if bad else 0)
