import twosigma.memento as m
from audtrace import T
@m.memento_function(cluster="aud")
def c(x, **kw):
    T("c", x, tuple(sorted(kw)))
    return x
@m.memento_function(cluster="aud")
def b(x, mode):
    T("b", x, mode)
    if mode == "inherit": return c(x)
    if mode == "own": return c.with_context_args({"own": 1})(x)
    if mode == "empty": return c.with_context_args({})(x)
    if mode == "batch": return c.call_batch([{"x": x}, {"x": x + 1}])
    if mode == "partial": return c.partial(x)()
    if mode == "prevent": return c.with_prevent_further_calls(True)(x)
@m.memento_function(cluster="aud")
def a(x, mode):
    T("a", x, mode)
    return b(x, mode)
