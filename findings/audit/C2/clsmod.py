import twosigma.memento as m
from audtrace import T
class A:
    @staticmethod
    @m.memento_function(cluster="aud", version="1")
    def load(x):
        T("A.load", x)
        return "A%d" % x
class B:
    @staticmethod
    @m.memento_function(cluster="aud", version="1")
    def load(x):
        T("B.load", x)
        return "B%d" % x
@m.memento_function(cluster="aud", version="1")
def top(x):
    T("top", x)
    return A.load(x) + B.load(x)
