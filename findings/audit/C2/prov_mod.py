import twosigma.memento as m
from audtrace import T
@m.memento_function(cluster="aud")
def leaf(a, b=0):
    T("leaf", a, b)
    if a == 13:
        raise KeyError("unlucky")
    return a + b
@m.memento_function(cluster="aud")
def mid(x):
    T("mid", x)
    return leaf(x) + leaf.partial(b=5)(x) + leaf.partial(x)(7)
@m.memento_function(cluster="aud")
def batchy(x):
    T("batchy", x)
    r = leaf.call_batch([{"a": x}, {"a": 13}, {"a": x}, {"a": x + 1}], raise_first_exception=False)
    return [v if not isinstance(v, Exception) else -1 for v in r]
@m.memento_function(cluster="aud")
def catcher(x):
    T("catcher", x)
    try:
        leaf(13)
    except KeyError:
        pass
    leaf.ignore_result()(x)
    leaf.force_local()(x, 2)
    leaf.with_context_args({"k": 1})(x)
    return mid(x)
@m.memento_function(cluster="aud")
def root(x):
    T("root", x)
    a = catcher(x)
    b = batchy(x)
    c = mid(x)
    d = leaf.map_over_range(a=[x, x, 3])
    return [a, b, c]
@m.memento_function(cluster="aud")
def failing_root(x):
    T("failing_root", x)
    mid(x)
    return leaf(13)
