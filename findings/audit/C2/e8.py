import sys, os, tempfile
sys.path.insert(0, "/verif/findings"); sys.path.insert(0, "/tmp/audit3_C2")
from common import *
import prov_mod as P
from audtrace import *
for kind in ("fs", "mem"):
    st = set_env(tempfile.mkdtemp(), kind, 0)
    print(kind, outcome(lambda: P.leaf.call_batch([])), outcome(lambda: P.leaf.monitor_progress().call_batch([])), outcome(lambda: P.leaf.map_over_range(a=[])))
    P.leaf(2)
    r = outcome(lambda: P.leaf.monitor_progress().call_batch([{"a": 1}, {"a": 13}, {"a": 2}, {"a": 1}], raise_first_exception=False))
    print(r, trace()); reset()
    r = outcome(lambda: P.leaf.monitor_progress().ignore_result().call_batch([{"a": 1}, {"a": 13}, {"a": 5}, {"a": 5}], raise_first_exception=False))
    print(r, trace()); reset()
    r = outcome(lambda: P.leaf.monitor_progress().partial(1).call_batch([{"b": 1}, {"b": 0}, {}], raise_first_exception=True))
    print(r, trace()); reset()
    r = outcome(lambda: P.leaf.partial(b=1).map_over_range(a=range(12, 15)))
    print(r, trace()); reset()
