"""C10 ("this record is the same whether each sub-call was computed, found in the store before the run ... or raised an exception") and
C02 ("memoization is transparent: same outcome"), seen from the CALLER of a failing call.
A memoized exception is rebuilt by MementoException.to_exception() from its message only: FileNotFoundError(errno, msg, filename) comes back as
FileNotFoundError(text) with errno / filename None, UnicodeDecodeError (5 constructor arguments) comes back as MementoException.  A caller
that handles the failure the usual way (`except OSError as e: if e.errno == ENOENT`, `except UnicodeDecodeError`) therefore takes ANOTHER
path when the sub-call is served from the store: other result, other recorded invocations, and a failure that is itself memoized.
load_b / text_b are evaluated (1) on an empty store, (2) on a store where only the failing sub-call is memoized (by the twin load_a / text_a).
exit 1 when outcome or recorded invocations differ."""
import sys, os, tempfile
sys.path.insert(0, "/verif/findings"); sys.path.insert(0, os.path.dirname(os.path.abspath(__file__)))
from common import *
import v1_mod as V
from audtrace import outcome

def record(fn, arg):
    me = fn.memento(arg)
    return None if me is None else (me.invocation_metadata.result_type.name, [i.fn_reference.function_name for i in me.invocation_metadata.invocations])

bad = []
for kind, cache in (("fs", 0), ("fs", 10), ("mem", 0)):
    for twin, fn, arg in ((V.load_a, V.load_b, "/etc/app.cfg"), (V.text_a, V.text_b, "e9")):
        set_env(tempfile.mkdtemp(), kind, cache)
        fresh = (outcome(lambda: fn(arg))[:2], record(fn, arg))
        set_env(tempfile.mkdtemp(), kind, cache)
        twin(arg)                                   # memoizes the failing sub-call (and the twin), not fn
        cached = (outcome(lambda: fn(arg))[:2], record(fn, arg))
        print(kind, cache, fn.__name__, "\n   sub-call computed :", fresh, "\n   sub-call memoized :", cached)
        if fresh != cached:
            bad.append((kind, cache, fn.__name__))
print("VIOLATION: outcome / recorded invocations of the caller depend on whether the failing sub-call was memoized: %r" % bad if bad else "caller unaffected")
sys.exit(1 if bad else 0)
