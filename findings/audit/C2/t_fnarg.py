import sys, os
sys.path.insert(0, os.path.dirname(os.path.abspath(__file__)))
from hist import run
V1 = '''
    import twosigma.memento as m
    sys_calls = []
    @m.memento_function(cluster="c1")
    def g(a):
        return a + 1
    @m.memento_function(cluster="c1", version="1")
    def app(fn, x):
        return fn(x)
    @m.memento_function(cluster="c1", version="1")
    def top(x):
        print("BODY top", x)
        return app(g, x) * 10
'''
V2 = V1.replace("return a + 1", "return a + 2")
V3 = V1.replace('''    @m.memento_function(cluster="c1")
    def g(a):
        return a + 1
''', "    g = None\n")
S1 = 'import lib\nprint("top(1) =", lib.top(1))\n'
S2 = '''
import lib
for what, f in [("top(1)", lambda: lib.top(1)), ("top(1) again", lambda: lib.top(1)), ("top.memento(1)", lambda: lib.top.memento(1) is not None), ("top.list_mementos()", lambda: len(lib.top.list_mementos())),
   ("app.list_mementos()", lambda: len(lib.app.list_mementos()))]:
    try:
        print(what, "->", f())
    except BaseException as e:
        print(what, "RAISED", type(e).__name__, e)
'''
for tag, v2 in (("edited", V2), ("removed", V3)):
    outs = run([({"lib.py": V1}, S1), ({"lib.py": v2}, S2)])
    print("=====", tag); print(outs[0][1].strip(), outs[0][2][-300:]); print(outs[1][1].strip()); print(outs[1][2][-800:])
