import sys, os, tempfile
sys.path.insert(0, "/verif/findings"); sys.path.insert(0, "/tmp/audit3_C2")
from common import *
import mods
from audtrace import *
def show(p):
    try:
        ks = sorted(p.list_keys()); return (type(p).__name__, ks, [p.get(k) for k in ks])
    except BaseException as e:
        return ("ERR", type(e).__name__, str(e)[:100])
for kind, cache in (("fs", 0), ("fs", 10), ("fs", 0.00001), ("mem", 0)):
    st = set_env(tempfile.mkdtemp(), kind, cache)
    print("==", kind, cache)
    for mod in ("plain", "force_local", "ignore_result"):
        for n in (0, 2):
            st.forget_everything() if not st.read_only else None
            reset()
            f = {"plain": mods.part, "force_local": mods.part.force_local(), "ignore_result": mods.part.ignore_result()}[mod]
            r1 = outcome(lambda: f(n)); r2 = outcome(lambda: f(n)); r3 = outcome(lambda: mods.part(n))
            print(mod, n, "runs", len(trace()), [show(r[1]) if r[0] == "returned" and r[1] is not None else r for r in (r1, r2, r3)], mods.part.memento(n).invocation_metadata.result_type)
