import sys, os, tempfile
sys.path.insert(0, "/verif/findings"); sys.path.insert(0, "/tmp/audit3_C2")
from common import *
import vermod as V
from audtrace import *
for kind in ("fs", "mem"):
    st = set_env(tempfile.mkdtemp(), kind, 0)
    for v, f in V.FNS.items():
        o = outcome(lambda: f([1]))
        qn = f.fn_reference().qualified_name
        me = outcome(lambda: f.memento([1]) is not None)
        lm = outcome(lambda: len(f.list_mementos()))
        lf = outcome(lambda: qn in [r.qualified_name for r in st.list_functions()])
        print(kind, repr(v), qn, o[:2], "memento", me[1:], "list_mementos", lm[1:], "listed", lf[1:])
    print(sorted(r.qualified_name for r in st.list_functions()))
