import datetime, sys
import numpy as np, pandas as pd
import twosigma.memento as m
from twosigma.memento.partition import InMemoryPartition
from audtrace import T
@m.memento_function(cluster="aud")
def arr(kind):
    T(*("arr", kind))
    return np.array([1, 2, 3], dtype=kind)
@m.memento_function(cluster="aud")
def part(n):
    T(*("part", n))
    return InMemoryPartition({"k%d" % i: [i, None, "x"] for i in range(n)})
@m.memento_function(cluster="aud")
def val(x):
    T(*("val", x))
    return x
class Weird(Exception):
    pass
@m.memento_function(cluster="aud")
def boom(kind):
    T(*("boom", kind))
    if kind == "uni":
        raise UnicodeDecodeError("utf-8", b"\xff", 0, 1, "bad")
    if kind == "os":
        raise OSError(2, "No such file", "/x/y")
    if kind == "key":
        raise KeyError("k")
    if kind == "weird":
        raise type("A B", (Exception,), {})("m")
    if kind == "colon":
        raise type("A:B", (Exception,), {})("m")
    if kind == "stopiter":
        raise StopIteration("s")
    if kind == "sysexit":
        raise SystemExit(3)
    if kind == "grp":
        raise ExceptionGroup("g", [ValueError("v")])
    if kind == "mod":
        c = type("Nm", (Exception,), {}); c.__module__ = "os:path"
        raise c("m")
    if kind == "assert":
        assert False
    raise Weird(kind)
