import sys, os, tempfile
sys.path.insert(0, "/verif/findings"); sys.path.insert(0, "/tmp/audit3_C2")
from common import *
import clumod as V
from audtrace import *
from twosigma.memento.reference import FunctionReference
for kind in ("fs", "mem"):
    d = tempfile.mkdtemp()
    sts = {c: (FilesystemStorageBackend(path=os.path.join(d, "c%d" % i)) if kind == "fs" else MemoryStorageBackend()) for i, c in enumerate(V.FNS)}
    m.Environment.set(Environment(name="aud", base_dir=d, repos=[ConfigurationRepository(name="r", clusters={c: FunctionCluster(name=c, storage=s) for c, s in sts.items()})]))
    for c, f in V.FNS.items():
        st = sts[c]
        r = f.fn_reference()
        o = outcome(lambda: f(1)); o2 = outcome(lambda: f(1))
        p = FunctionReference.parse_qualified_name(r.qualified_name)
        lf = outcome(lambda: [(x.qualified_name, x.external, x.cluster_name) for x in st.list_functions()])
        print(kind, repr(c), r.qualified_name, "| parse", (p["cluster"], p["module"], p["function"], p["version"]), "| wo_cluster", r.qualified_name_without_cluster, "| wo_version", r.qualified_name_without_version,
              "|", o[:2], "memento", outcome(lambda: f.memento(1) is not None)[1:], "list", outcome(lambda: len(f.list_mementos()))[1:], lf[1:])
