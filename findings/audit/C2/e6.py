import sys, os, tempfile
sys.path.insert(0, "/verif/findings"); sys.path.insert(0, "/tmp/audit3_C2")
from common import *
import clsmod as C
from audtrace import *
from twosigma.memento.reference import FunctionReference
st = set_env(tempfile.mkdtemp(), "fs", 0)
r = C.A.load.fn_reference()
print("qualified", r.qualified_name, "| module", r.module, "| function_name", r.function_name, "| qnwv", r.qualified_name_without_version, "| fn qnwv", C.A.load.qualified_name_without_version)
print("parsed", FunctionReference.parse_qualified_name(r.qualified_name))
print(outcome(lambda: C.top(1)), trace())
print(outcome(lambda: C.top(1)), trace())
print("memento", C.A.load.memento(1) is not None, len(C.A.load.list_mementos()), len(C.B.load.list_mementos()))
print([f.qualified_name for f in st.list_functions()], [f.external for f in st.list_functions()])
me = C.top.memento(1)
print([(i.fn_reference.qualified_name, i.fn_reference.external, i.fn_reference.function_name) for i in me.invocation_metadata.invocations])
print(sorted((d.qualified_name, d.external) for d in me.function_dependencies))
