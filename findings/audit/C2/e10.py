import sys, os, tempfile
sys.path.insert(0, "/verif/findings"); sys.path.insert(0, "/tmp/audit3_C2")
from common import *
import komod as K
from audtrace import *
for kind, cache in (("fs", 0), ("fs", 5), ("mem", 0)):
    st = set_env(tempfile.mkdtemp(), kind, cache)
    for x, key in ((1, "k1"), (2, "k1"), (None, "k2"), ([1], "a/b"), ("s", ""), (1.5, "k1"), (3, "../up"), (4, "x.link"), (5, "c/zz")):
        reset()
        o1 = outcome(lambda: K.ko(x, key)); o2 = outcome(lambda: K.ko(x, key))
        print(kind, cache, (x, key), o1[:2], o2[:2], "runs", len(trace()))
    # earlier results still right?
    for x, key in ((1, "k1"), (2, "k1"), (1.5, "k1")):
        reset(); print("   re-read", (x, key), outcome(lambda: K.ko(x, key))[:2], "runs", len(trace()))
