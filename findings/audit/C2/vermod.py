import twosigma.memento as m
FNS = {}
for i, v in enumerate(["1.link", "a:b", "a#b", "x::y", "+=@", "1.memento.json", ".", "..", "-", "a.versions", ".tmp", "A", "a"]):
    def mk(v):
        def f(x):
            return [v, x]
        f.__name__ = f.__qualname__ = "f%d" % i
        return m.memento_function(cluster="aud", version=v)(f)
    FNS[v] = mk(v)
    globals()["f%d" % i] = FNS[v]
