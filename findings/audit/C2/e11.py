import sys, os, tempfile
sys.path.insert(0, "/verif/findings"); sys.path.insert(0, "/tmp/audit3_C2")
from common import *
import minmod as K
from audtrace import *
st = set_env(tempfile.mkdtemp(), "fs", 0)
for f, a in ((K.posonly, (1,)), (K.varargs, (1, 2)), (K.varargs, (1,)), (K.delta, (2,))):
    reset(); print(f.__name__, a, outcome(lambda: f(*a)), outcome(lambda: f(*a))[:2], "runs", len(trace()))
print(outcome(lambda: K.sq.map_over_range(x=[2, 2, 3])), outcome(lambda: K.sq.map_over_range(x=[[1], [2]])), trace())
