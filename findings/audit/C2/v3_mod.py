import twosigma.memento as m


class Loader:
    @staticmethod
    @m.memento_function(cluster="aud", version="1")
    def load(x):
        return "L%d" % x


class Other:
    @staticmethod
    @m.memento_function(cluster="aud", version="1")
    def load(x):
        return "O%d" % x


@m.memento_function(cluster="prod:", version="1")
def top(x):
    return x
