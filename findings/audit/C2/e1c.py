import sys, os, tempfile
sys.path.insert(0, "/verif/findings"); sys.path.insert(0, "/tmp/audit3_C2")
from common import *
import mods
st = set_env(tempfile.mkdtemp(), "fs", 0)
a = sorted(map(repr, mods.val.hash_rules())); mods.val(1); b = sorted(map(repr, mods.val.hash_rules()))
for x in a: print("A", x[:300])
for x in b: print("B", x[:300])
