import datetime
import twosigma.memento as m
from audtrace import T
@m.memento_function(cluster="aud")
def posonly(a, /, b=1):
    T("posonly", a, b)
    return a + b
@m.memento_function(cluster="aud")
def varargs(*xs):
    T("varargs", xs)
    return len(xs)
@m.memento_function(cluster="aud")
def delta(n):
    T("delta", n)
    return datetime.timedelta(days=n)
@m.memento_function(cluster="aud")
def sq(x):
    T("sq", x)
    return x * x
