"""C02: "for every supported result (... numpy arrays ...) the first call with given arguments runs the function body exactly once and every later
call with equal arguments returns an equal value of the same type without running the body again" (documented domain, docs/serialization.rst:
"numpy.ndarray (1-dimensional)", no dtype restriction).
memento_run_local classifies the result AFTER the body ran with ResultType.from_object, which knows seven dtypes (bool, int8/16/32/64 in native byte
order, float32/64 in native byte order) and raises ValueError for every other array: uint8 / uint64 / float16 / str / datetime64 arrays and
float64 arrays in non-native byte order.  The ValueError escapes from memento_run_local, the caller of a function whose body SUCCEEDED gets an
exception, nothing is memoized and the body runs again on every call.  exit 1 when it shows."""
import sys, os, tempfile
sys.path.insert(0, "/verif/findings"); sys.path.insert(0, os.path.dirname(os.path.abspath(__file__)))
from common import *
import v2_mod as V
from audtrace import outcome, trace, reset

bad = []
for kind, cache in (("fs", 0), ("fs", 10), ("mem", 0)):
    set_env(tempfile.mkdtemp(), kind, cache)
    for fn in (V.reference, V.pixels_in_list, V.pixels, V.big_endian, V.half, V.labels, V.days):
        reset()
        outs = [outcome(lambda: fn(3)) for _ in range(3)]
        shown = [(o[0], (str(getattr(o[1], "dtype", None) or o[1][0].dtype) if o[0] == "returned" else o[1] + ": " + o[2])) for o in outs]
        runs = len(trace())
        ok = runs == 1 and all(o[0] == "returned" for o in outs)
        print("%-3s cache=%-3s %-11s body runs: %d  memoized: %s  %s" % (kind, cache, fn.__name__, runs, fn.memento(3) is not None, shown[0]))
        if not ok:
            bad.append((kind, cache, fn.__name__, runs))
print("VIOLATION: array results in the documented domain are never memoized and the successful call raises: %r" % bad if bad else "all array results memoized")
sys.exit(1 if bad else 0)
