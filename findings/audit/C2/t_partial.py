import sys, os
sys.path.insert(0, os.path.dirname(os.path.abspath(__file__)))
from hist import run
V1 = '''
    import twosigma.memento as m
    @m.memento_function(cluster="c1")
    def g(a):
        return a + 1
    @m.memento_function(cluster="c1", version="1")
    def app(fn, x, y=0):
        return fn(x) + y
    @m.memento_function(cluster="c1", version="1")
    def top(x):
        print("BODY top", x)
        return app.partial(g)(x) * 10 + app.partial(fn=g, y=3)(x) + app.partial(g, x)(y=4)
'''
V2 = V1.replace("return a + 1", "return a + 2")
V3 = V1.replace('''    @m.memento_function(cluster="c1")
    def g(a):
        return a + 1
''', "    g = None\n")
V4 = V1.replace("def app(fn, x, y=0):", "def app(fn, x, y=0, z=1):")
V5 = V1.replace('''    @m.memento_function(cluster="c1", version="1")
    def app(fn, x, y=0):
        return fn(x) + y
''', "    app = None\n")
S1 = 'import lib\nprint("top(1) =", lib.top(1))\n'
S2 = '''
import lib
store = m.Environment.get().get_cluster("c1").storage
for what, f in [("top(1)", lambda: lib.top(1)), ("top.memento(1)", lambda: lib.top.memento(1) is not None), ("top.list_mementos()", lambda: len(lib.top.list_mementos())),
   ("list_functions", lambda: [(r.qualified_name, r.external) for r in store.list_functions()]),
   ("invocations found", lambda: [(i.fn_reference.qualified_name, i.fn_reference.external, store.get_memento(i.fn_reference_with_arg_hash()) is not None) for i in lib.top.memento(1).invocation_metadata.invocations]),
   ("list all", lambda: [len(store.list_mementos(r)) for r in store.list_functions()])]:
    try:
        print(what, "->", f())
    except BaseException as e:
        import traceback
        print(what, "RAISED", type(e).__name__, e); traceback.print_exc()
'''
for tag, v2 in (("same", V1), ("g edited", V2), ("g removed", V3), ("app signature", V4), ("app removed", V5)):
    outs = run([({"lib.py": V1}, S1), ({"lib.py": v2}, S2)])
    print("=====", tag); print(outs[0][1].strip(), outs[0][2][-300:]); print(outs[1][1].strip()); print(outs[1][2][-1500:])
