from common import *
from twosigma.memento.call_stack import CallStack

def cur():
    fr = CallStack.get().get_calling_frame()
    return fr.recursive_context.context_args, fr.memento.invocation_metadata.fn_reference_with_args.context_args

@m.memento_function(cluster="aud")
def leaf(x, **kw):
    T("leaf", x, kw, cur()); return x

@m.memento_function(cluster="aud")
def inner(x):
    T("inner", x, cur()); return leaf(x)

@m.memento_function(cluster="aud")
def inner_own(x):
    T("inner_own", x, cur()); return [leaf.with_context_args({"own": 1})(x), leaf.with_context_args({})(x), leaf(x)]

@m.memento_function(cluster="aud")
def top(x):
    T("top", x, cur()); return [inner(x), inner_own(x), leaf.call_batch([{"x": x}]), leaf.partial(x=x).map_over_range(y=[1])]

@m.memento_function(cluster="aud")
def leaf2(x, y):
    T("leaf2", x, y, cur()); return x

@m.memento_function(cluster="aud")
def top2(x):
    T("top2", x, cur()); return leaf2.partial(x=x).map_over_range(y=[1, 2])

for kind in ("fs",):
    with tempfile.TemporaryDirectory() as d:
        set_env(d, kind)
        reset()
        print(top.with_context_args({"a": 1})(1))
        for t in trace(): print(t)
        reset()
        print(top.with_context_args({"a": 2})(1))
        print(len(trace()))
        reset(); print(top(1)); print(len(trace()))
        reset(); print(top.with_context_args({})(1)); print(len(trace()))
        reset(); print(top2.with_context_args({"a": 1})(1)); print(trace())
        print(top.with_context_args({"a": 1}).memento(1).invocation_metadata.invocations)
