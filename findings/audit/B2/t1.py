from common import *
from twosigma.memento.result import KeyOverrideResult
from twosigma.memento.call_stack import CallStack

class BadStr(Exception):
    def __str__(self): raise RuntimeError("str failed")

@m.memento_function(cluster="aud")
def f_badstr(x):
    T("f_badstr", x); raise BadStr()

@m.memento_function(cluster="aud")
def f_sep(x):
    T("f_sep", x); raise KeyError("k. Original stack trace follows:\nfoo")

@m.memento_function(cluster="aud")
def f_kor_none(x):
    T("f_kor_none", x); return KeyOverrideResult(None, "mykey%d" % x)

@m.memento_function(cluster="aud")
def f_kor(x):
    T("f_kor", x); return KeyOverrideResult([1,2,x], "listkey")

@m.memento_function(cluster="aud")
def f_after(x):
    T("f_after", x); return x

for kind in ("fs","mem"):
    with tempfile.TemporaryDirectory() as d:
        set_env(d, kind)
        reset()
        print(kind, "badstr", outcome(lambda: f_badstr(1)), outcome(lambda: f_badstr(1)), trace(), CallStack.get().depth())
        print(kind, "after", outcome(lambda: f_after(1)), f_after.memento(1))
        reset()
        a = outcome(lambda: f_sep(1)); b = outcome(lambda: f_sep(1)); print(kind, "sep", a, b, trace())
        reset()
        print(kind, "kor_none", outcome(lambda: f_kor_none(1)), outcome(lambda: f_kor_none(1)), trace(), f_kor_none.memento(1).invocation_metadata.result_type, f_kor_none.memento(1).content_key)
        reset()
        print(kind, "kor", outcome(lambda: f_kor(1)), outcome(lambda: f_kor(1)), outcome(lambda: f_kor(2)), outcome(lambda: f_kor(2)),outcome(lambda: f_kor(1)), trace())
        reset()
        print(kind, "kor ignore", outcome(lambda: f_kor.ignore_result()(5)), outcome(lambda: f_kor(5)), trace())
