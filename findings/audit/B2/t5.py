from common import *
import numpy as np
from twosigma.memento.call_stack import CallStack

class IntStr(Exception):
    def __str__(self): return self.args[0]

@m.memento_function(cluster="aud")
def f_intstr(x):
    T("f_intstr", x); raise IntStr(x)

@m.memento_function(cluster="aud")
def add(x, y):
    T("add", x, y); return x + y

@m.memento_function(cluster="aud")
def npf(x):
    T("npf", x); return np.float64(x) / 2

@m.memento_function(cluster="aud")
def lst(x):
    T("lst", x); return [x]

@m.memento_function(cluster="aud")
def g(x):
    fr = CallStack.get().get_calling_frame()
    T("g", x, fr.recursive_context.context_args); return x

@m.memento_function(cluster="aud")
def apply(fn, x):
    T("apply", x); return fn(x)

@m.memento_function(cluster="aud")
def failing(x):
    T("failing", x)
    if x % 2: raise ValueError("odd %d" % x)
    return x

for kind in ("fs", "mem"):
    with tempfile.TemporaryDirectory() as d:
        set_env(d, kind, cache_mb=10)
        reset(); print(kind, "intstr", outcome(lambda: f_intstr(5)), outcome(lambda: f_intstr(5)), trace())
        reset(); print(kind, "partial batch", add.partial(1).call_batch([{"y": 2}, {"y": 3}]), add(1, 2), add(1, y=3), add.partial(y=2)(1), trace())
        reset(); a = npf(3); b = npf(3); print(kind, "npf", type(a), type(b), a == b)
        reset(); a = lst(3); a.append(99); print(kind, "lst alias", lst(3), trace())
        reset(); print(kind, "ctx fn arg", apply.with_context_args({"outer": 1})(g.with_context_args({"own": 2}), 1), trace())
        reset(); print(kind, "progress", failing.monitor_progress().call_batch([{"x": i} for i in range(4)], raise_first_exception=False), len(trace()))
        print(kind, "progress again", failing.monitor_progress().call_batch([{"x": i} for i in range(4)], raise_first_exception=False), len(trace()))
