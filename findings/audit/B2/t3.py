from common import *
from twosigma.memento.exception import NonMemoizedException
import itertools

@m.memento_function(cluster="aud")
def leaf(x):
    T("leaf", x); return x

@m.memento_function(cluster="aud")
def bad(x):
    T("bad", x); raise KeyError(x)

@m.memento_function(cluster="aud")
def nm(x):
    T("nm", x); raise NonMemoizedException("nm%s" % x)

@m.memento_function(cluster="aud")
def mid(x):
    T("mid", x); return leaf(x) + leaf(x + 1)

@m.memento_function(cluster="aud")
def midbad(x):
    T("midbad", x)
    leaf(x)
    return bad(x)

@m.memento_function(cluster="aud")
def top(x):
    T("top", x)
    r = []
    r.append(mid(x))
    r.append(leaf(x))
    try: bad(x)
    except KeyError: r.append("ke")
    try: midbad(x)
    except KeyError: r.append("ke2")
    try: nm(x)
    except NonMemoizedException: r.append("nm")
    r.append(leaf.call_batch([{"x": x}, {"x": x+5}, {"x": x}]))
    r.append(bad.call_batch([{"x": x}, {"x": x+5}, {"x": x}], raise_first_exception=False) and 1)
    r.append(mid(x))
    return r

def rec(mem):
    im = mem.invocation_metadata
    return ([(f.fn_reference.qualified_name.split("#")[0], f.arg_hash[:6]) for f in im.invocations], sorted(d.qualified_name.split("#")[0] for d in mem.function_dependencies))

pre = [lambda: leaf(1), lambda: leaf(2), lambda: leaf(6), lambda: outcome(lambda: bad(1)), lambda: outcome(lambda: bad(6)), lambda: mid(1), lambda: outcome(lambda: midbad(1))]
for kind in ("fs", "mem"):
    seen = {}
    for mask in range(2 ** len(pre)):
        with tempfile.TemporaryDirectory() as d:
            set_env(d, kind)
            for i, p in enumerate(pre):
                if mask >> i & 1: p()
            top(1)
            r = rec(top.memento(1))
            seen.setdefault(repr(r), []).append(mask)
    print(kind, len(seen))
    for k, v in seen.items(): print(k, v[:10])
