"""C16 (outside memento_run_batch: reference.py argument normalisation): a memento function passed as an ARGUMENT with its own context
arguments / prevent_further_calls attached reaches the body as a bare reference; calling it there inherits the caller's context instead of
"their own, which then replace them entirely".  exit 1 when it shows."""
from common import *
from twosigma.memento.call_stack import CallStack

@m.memento_function(cluster="aud")
def g(x):
    T("g", CallStack.get().get_calling_frame().recursive_context.context_args); return x

@m.memento_function(cluster="aud")
def apply(fn, x):
    return fn(x)

with tempfile.TemporaryDirectory() as d:
    set_env(d, "mem"); reset()
    apply.with_context_args({"outer": 1})(g.with_context_args({"own": 2}), 1)
    seen = trace()[0][1]
print("g ran under context args", seen)
sys.exit(1 if seen != {"own": 2} else 0)
