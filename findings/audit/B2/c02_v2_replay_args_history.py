"""C02 (borderline, depends on how "original message preserved" is read): a recorded exception is "replayed the same way".  The replayed
instance is built as cls(message + '. Original stack trace follows:\n' + stack): its args / str() are NOT those of the exception the
first call raised (KeyError('k').args[0] == 'k'; the replay's args[0] is "'k'. Original stack trace follows:\nTraceback ...").  A
deterministic caller that looks at the exception (`except KeyError as e: return e.args[0]`, `str(e) == ...`) therefore computes -- and
memoizes -- a different value depending on whether the sub-call was already in the store.  exit 1 when it shows."""
from common import *

@m.memento_function(cluster="aud")
def lookup(k):
    T("lookup", k); raise KeyError(k)

@m.memento_function(cluster="aud")
def missing_key(k):
    try:
        lookup(k)
    except KeyError as e:
        return e.args[0]

bad = []
for kind in ("fs", "mem"):
    vals = {}
    for pre in (False, True):
        with tempfile.TemporaryDirectory() as d:
            set_env(d, kind)
            first = outcome(lambda: lookup("k"))
            if pre:
                pass
            else:
                lookup.forget("k")
            vals[pre] = missing_key("k")
            later = outcome(lambda: lookup("k"))
            if first[2] != later[2] and not pre:
                bad.append("%s: lookup('k') first call str(e)=%r, later call str(e)=%r..." % (kind, first[2], later[2][:60]))
    if vals[False] != vals[True]:
        bad.append("%s: missing_key('k') == %r when lookup('k') was not memoized, == %r... when it was" % (kind, vals[False], vals[True][:50]))
print("\n".join(bad) or "replayed exceptions carry the original args")
sys.exit(1 if bad else 0)
