from common import *
import glob, threading
from twosigma.memento.exception import NonMemoizedException
from twosigma.memento.call_stack import CallStack

@m.memento_function(cluster="aud")
def nm(x):
    T("nm", x); raise NonMemoizedException("nm%s" % x)

@m.memento_function(cluster="aud")
def val(x):
    T("val", x); return [x, x]

@m.memento_function(cluster="aud")
def leaf(x):
    fr = CallStack.get().get_calling_frame()
    T("leaf", x, fr.recursive_context.context_args); return x

@m.memento_function(cluster="aud")
def thr(x):
    out = []
    t = threading.Thread(target=lambda: out.append(leaf(x))); t.start(); t.join()
    return out[0]

with tempfile.TemporaryDirectory() as d:
    set_env(d, "fs")
    reset(); print(nm.call_batch([{"x": 1}, {"x": 1}], raise_first_exception=False), trace())
    val.call_batch([{"x": i} for i in range(3)])
    files = [f for f in glob.glob(d + "/data/**", recursive=True) if os.path.isfile(f)]
    blobs = [f for f in files if "/c/" in f or "pickle" in f]
    print(len(files), [f[len(d):] for f in files][:12])
    reset(); print(thr.with_context_args({"a": 1})(1), trace(), thr.with_context_args({"a": 1}).memento(1).invocation_metadata.invocations)
