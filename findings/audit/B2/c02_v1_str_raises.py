"""C02: "A raised exception is recorded and replayed the same way (same class when it can be rebuilt from its message, otherwise the
framework's memoized-exception type...)".  A body raises an ordinary Exception subclass whose __str__ fails (here: returns a non-string,
a common bug -- `return self.args[0]` with an int argument; also a __str__ that raises).  memento_run_local calls
MementoException.from_exception(e) inside its `except Exception` handler; from_exception evaluates str(e) unguarded, so the TypeError of
str() escapes memento_run_local: the caller sees an unrelated TypeError instead of the body's exception, nothing is recorded, and the
body runs again on every call (also for each duplicate in a batch).  exit 1 when it shows."""
from common import *

class CodeError(Exception):
    def __str__(self):
        return self.args[0]          # fine for CodeError("text"), TypeError for CodeError(5)

class Boom(Exception):
    def __str__(self):
        raise RuntimeError("cannot render")

@m.memento_function(cluster="aud")
def f_code(x):
    T("f_code", x); raise CodeError(x)

@m.memento_function(cluster="aud")
def f_boom(x):
    T("f_boom", x); raise Boom(x)

bad = []
for kind in ("fs", "mem"):
    with tempfile.TemporaryDirectory() as d:
        set_env(d, kind)
        for fn, cls in ((f_code, "CodeError"), (f_boom, "Boom")):
            reset()
            first = outcome(lambda: fn(5)); later = outcome(lambda: fn(5))
            runs = len(trace())
            if first[1] not in (cls, "MementoException") or later[1] not in (cls, "MementoException"):
                bad.append("%s %s: body raised %s, caller got first=%r later=%r" % (kind, fn.__name__, cls, first[1:], later[1:]))
            if runs != 1:
                bad.append("%s %s: body ran %d times for two equal calls; memento recorded: %r" % (kind, fn.__name__, runs, fn.memento(5) is not None))
            reset()
            fn.call_batch([{"x": 7}, {"x": 7}], raise_first_exception=False)
            if len(trace()) != 1:
                bad.append("%s %s: batch with a duplicated element ran the body %d times" % (kind, fn.__name__, len(trace())))
print("\n".join(bad) or "exceptions with a failing __str__ are recorded and replayed")
sys.exit(1 if bad else 0)
