import logging, os, sys, tempfile
sys.path.insert(0, "/repo")
logging.disable(logging.CRITICAL)
import twosigma.memento as m
from twosigma.memento import Environment, ConfigurationRepository, FunctionCluster
from twosigma.memento.storage_filesystem import FilesystemStorageBackend
from twosigma.memento.storage_memory import MemoryStorageBackend

def set_env(store, kind="fs", cache_mb=0, cluster="aud"):
    if kind == "fs":
        st = FilesystemStorageBackend(path=os.path.join(store, "data"), memory_cache_mb=cache_mb)
    else:
        st = MemoryStorageBackend()
    m.Environment.set(Environment(name="aud", base_dir=store, repos=[ConfigurationRepository(name="r", clusters={
        cluster: FunctionCluster(name=cluster, storage=st)})]))
    return st

sys._aud = []
def T(*a): sys._aud.append(a)
def trace(): return list(sys._aud)
def reset(): del sys._aud[:]
def outcome(thunk):
    try: return ("returned", thunk())
    except BaseException as e: return ("raised", type(e).__name__, str(e)[:80])
