from common import *
@m.memento_function(cluster="aud")
def f_after(x):
    TRACE.append(("f_after", x)); return x
with tempfile.TemporaryDirectory() as d:
    st = set_env(d, "fs")
    print(outcome(lambda: f_after(1)), f_after.memento(1), TRACE)
    print(outcome(lambda: f_after(1)), f_after.memento(1), TRACE)
    print(st.list_functions(), m.Environment.get().get_cluster("aud").storage is st)
