"""C15 (weak): "each distinct element's body runs at most once" -- a duplicated element whose body raises a NonMemoizedException runs once
per occurrence (nothing is recorded, batch_run has no in-batch reuse).  batch_run's clause is only body_calls <= old + len(batch).  exit 1 when it shows."""
from common import *
from twosigma.memento.exception import NonMemoizedException

@m.memento_function(cluster="aud")
def nm(x):
    T("nm", x); raise NonMemoizedException("nm%s" % x)

with tempfile.TemporaryDirectory() as d:
    set_env(d, "mem"); reset()
    nm.call_batch([{"x": 1}, {"x": 1}, {"x": 1}], raise_first_exception=False)
    n = len(trace())
print("body of the one distinct element ran", n, "times")
sys.exit(1 if n > 1 else 0)
