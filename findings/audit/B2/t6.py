from common import *
import datetime
from twosigma.memento.call_stack import CallStack

@m.memento_function(cluster="aud")
def helper(a, b=2):
    return a

@m.memento_function(cluster="aud")
def leaf(a=None, b=None, c=None, d=None, e=None, **kw):
    T("leaf"); return 1

ARGS = [((1, "s", 2.5, None, True), {}), ((datetime.date(2020, 1, 1), datetime.datetime(2020, 1, 1, 3, tzinfo=datetime.timezone.utc)), {}),
        (([1, [2, {"k": datetime.date(2020, 1, 2)}]],), {"z": {"a": [1, 2]}}), ((helper, helper.partial(1), helper.partial(b=3)), {"f": helper.partial(a=5)}),
        ((), {"d": datetime.datetime(2020, 1, 1, 3)})]

@m.memento_function(cluster="aud")
def top(i):
    a, k = ARGS[i]
    return leaf(*a, **k)

bad = []
with tempfile.TemporaryDirectory() as d:
    set_env(d, "fs")
    for i, (a, k) in enumerate(ARGS):
        for ctx in (None, {"c": 1}, {"c": {"n": [1, datetime.date(2020, 1, 1)]}}):
            reset()
            t = top.with_context_args(ctx) if ctx is not None else top
            l = leaf.with_context_args(ctx) if ctx is not None else leaf
            t(i)
            n1 = len(trace())
            l(*a, **k)
            n2 = len(trace())
            inv = t.memento(i).invocation_metadata.invocations[0]
            if n2 != n1 or l.memento(*a, **k) is None: bad.append((i, ctx, n1, n2, inv.arg_hash))
print(bad)
