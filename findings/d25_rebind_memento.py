import sys, os; sys.path.insert(0, os.path.join(os.path.dirname(os.path.abspath(__file__)), "inproc"))
from common import *
SRC = '''
from twosigma.memento import memento_function
@memento_function
def g1(x):
    return x + 1
@memento_function
def g2(x):
    return x + 1000
dep = g1
@memento_function
def f(x):
    return dep(x)
'''
d = setup("x1", {"prog.py": SRC})
import prog
v1 = prog.f.version(); r1 = prog.f(1)
prog.dep = prog.g2           # in-process rebinding of a tracked module attribute
v2 = prog.f.version()
try: r2 = prog.f(1)
except Exception as e: r2 = type(e).__name__
truth = fresh_version(d, {"prog.py": SRC.replace("dep = g1", "dep = g2")})
print("before:", v1, r1, "| after rebinding dep=g2:", v2, r2, "| fresh process version of the resulting program:", truth, "| un-memoized result: 1001")
bad = (v2 != truth) or (r2 not in (1001, "UndeclaredDependencyError"))
sys.exit(1 if bad else 0)
