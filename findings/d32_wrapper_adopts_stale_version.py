"""C13 (event 'creating ... unregistered wrappers'): MementoFunction(fn, register_fn=False) created after a tracked variable changed /
after the wrapped plain function was redefined takes the name-keyed cache entry without validating anything (its own rule list is empty)."""
import sys, os; sys.path.insert(0, os.path.join(os.path.dirname(os.path.abspath(__file__)), "inproc"))
from common_b4 import *
IMPL = '''
K = 1
def body(x):
    return x + K
'''
PROG = '''
from twosigma.memento import memento_function
import impl
f = memento_function(impl.body)
'''
FRESH = '''
from twosigma.memento.memento import MementoFunction
import impl
w = MementoFunction(impl.body, register_fn=False)
'''
d = setup("v2", {"prog.py": PROG, "impl.py": IMPL})
import prog, impl
from twosigma.memento.memento import MementoFunction
v0 = prog.f.version(); r0 = prog.f(1)                        # 2 memoized
bad = []
# (a) a tracked module variable is rebound, then an unregistered wrapper of the same function is created and asked
impl.K = 50
w = MementoFunction(impl.body, register_fn=False)
va = w.version(); ra = w(1)
IMPL_A = IMPL.replace("K = 1", "K = 50")
truth_a = fresh_version(d, {"impl.py": IMPL_A, "w.py": FRESH}, expr="w.w.version()", mods=("w",))
print("(a) K=50: wrapper version", va, "result", ra, "| fresh process", truth_a, "| expected result 51")
if va != truth_a or ra != 51:
    bad.append("(a) wrapper created after K was rebound reports the stale cached version %s (fresh: %s) and returns %r instead of 51" % (va, truth_a, ra))
# (b) the plain function is redefined (module edited and reloaded), then wrapped without registration
prog.f.version(); prog.f(1)                                     # registered function re-validates (K change noticed): cache entry current, 51 memoized
IMPL_B = IMPL_A.replace("return x + K", "return x * 1000 + K")
write(d, "impl.py", IMPL_B); importlib.reload(impl)
w2 = MementoFunction(impl.body, register_fn=False)
vb = w2.version(); rb = w2(1)
truth_b = fresh_version(d, {"impl.py": IMPL_B, "w.py": FRESH}, expr="w.w.version()", mods=("w",))
print("(b) body redefined: wrapper version", vb, "result", rb, "| fresh process", truth_b, "| expected result 1050")
if vb != truth_b or rb != 1050:
    bad.append("(b) wrapper of the redefined body reports the version of the OLD body %s (fresh: %s) and returns %r instead of 1050" % (vb, truth_b, rb))
for b in bad: print("VIOLATION:", b)
sys.exit(1 if bad else 0)
