import sys
sys.path.insert(0, sys.argv[1] if len(sys.argv) > 1 else "/repo")
from twosigma.memento.reference import FunctionReference
ok = True
for qn in ["no_such_mod:f#1", "twosigma.memento.reference:no_such_fn#1", "clu::no_such_mod:f#1"]:
    try:
        r = FunctionReference.from_qualified_name(qn)
        print("ok", qn, "->", r.qualified_name, "external=", r.external, "cluster=", r.cluster_name)
        ok = ok and r.qualified_name == qn and r.external
    except BaseException as e:
        print("RAISED", qn, type(e).__name__, e); ok = False
sys.exit(0 if ok else 1)
