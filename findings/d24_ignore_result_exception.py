"""C02 (call modifier ignore_result) / C15: "Exceptions will still be propagated even if ignore_result is set" (base.py docstring);
a recorded exception is replayed the same way on every later call.  Real code: the first ignore_result call raises, every later one
returns None (process_existing_memento returns (None, valid) before looking at the stored result type); in a batch the failing
slot of a memoized element holds None and raise_first_exception raises nothing.  exit 1 when it shows."""
import sys
import os; sys.path.insert(0, os.path.dirname(os.path.abspath(__file__)))
from common import *

@m.memento_function(cluster="aud")
def fail(x):
    if x == 3:
        raise KeyError("three")
    return x

def outcome(thunk):
    try: return ("returned", thunk())
    except Exception as e: return ("raised", type(e).__name__)

bad = []
for kind in ("fs", "mem"):
    with tempfile.TemporaryDirectory() as d:
        set_env(d, kind)
        f = fail.ignore_result()
        first = outcome(lambda: f(3))
        later = outcome(lambda: f(3))
        if first != later:
            bad.append("%s: fail.ignore_result()(3): first call %r, later call %r" % (kind, first, later))
        b1 = outcome(lambda: f.call_batch([{"x": 1}, {"x": 3}], raise_first_exception=True))
        if b1[0] != "raised":
            bad.append("%s: call_batch(raise_first_exception=True) over a memoized failing element %r (individual call raised on first run)" % (kind, b1))
        plain = outcome(lambda: fail(3))
        if plain[0] != "raised":
            bad.append("%s: plain call after: %r" % (kind, plain))
print("\n".join(bad) or "ignore_result propagates memoized exceptions")
sys.exit(1 if bad else 0)
