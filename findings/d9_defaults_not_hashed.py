"""D9 (C01): default values of parameters are not part of the code hash: editing a default does not change the version."""
import sys
sys.path.insert(0, sys.argv[1] if len(sys.argv) > 1 else "/repo")
from twosigma.memento.code_hash import fn_code_hash
def a(x, y=1): return x + y
h1 = fn_code_hash(a)
def a(x, y=2): return x + y   # noqa: F811
h2 = fn_code_hash(a)
def b(x, *, scale=1): return x * scale
k1 = fn_code_hash(b)
def b(x, *, scale=10): return x * scale   # noqa: F811
k2 = fn_code_hash(b)
print("positional default edited: hash changed =", h1 != h2, "| keyword-only default edited: hash changed =", k1 != k2)
sys.exit(0 if (h1 != h2 and k1 != k2) else 1)
