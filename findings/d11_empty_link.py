"""
D11 (property C08): the process dies between open(link, "w") and the write of its content, so the link file of a
content key (variant "content") or of a memento (variant "memento") is left EMPTY.  Path("") is ".", which exists, so
exists_nonversioned() answers True for it and get_versioned_key() returns version "".

usage: d11_empty_link.py [<checkout>]      (default /repo)

Phase 1 runs in a child process: it memoizes f(3) and the process dies (os._exit)
right after <store>/.../*.link (or the temporary file that is later moved onto it) was opened for
writing, leaving it empty.
Phase 2 runs in a fresh process on the same store and checks that f(3) and g(3)
(another function producing the same result) return the right value, raise nothing
and are served from the store again after the first successful write.

exit 0: property holds, exit 1: property violated.
"""
import builtins
import logging
import os
import shutil
import subprocess
import sys
import tempfile

CHECKOUT = os.path.abspath(sys.argv[1] if len(sys.argv) > 1 and not sys.argv[1].startswith("--") else "/repo")
logging.disable(logging.CRITICAL)  # keep the library's warnings out of the output
sys.path.insert(0, CHECKOUT)

import twosigma.memento as m  # noqa: E402
from twosigma.memento import (  # noqa: E402
    Environment,
    ConfigurationRepository,
    FunctionCluster,
)
from twosigma.memento.storage_filesystem import FilesystemStorageBackend  # noqa: E402

CALLS = {"f": 0, "g": 0}


def expected(x):
    return {"value": x * 7, "tag": "c08-demo", "items": list(range(x))}


# auto_dependencies off: otherwise the CALLS global becomes part of the version hash
@m.memento_function(cluster="c08", auto_dependencies=False)
def f(x):
    CALLS["f"] += 1
    return {"value": x * 7, "tag": "c08-demo", "items": list(range(x))}


# auto_dependencies off: otherwise the CALLS global becomes part of the version hash
@m.memento_function(cluster="c08", auto_dependencies=False)
def g(x):
    CALLS["g"] += 1
    return {"value": x * 7, "tag": "c08-demo", "items": list(range(x))}


def set_env(store):
    m.Environment.set(
        Environment(
            name="c08env",
            base_dir=store,
            repos=[
                ConfigurationRepository(
                    name="repo",
                    clusters={
                        "c08": FunctionCluster(
                            name="c08",
                            storage=FilesystemStorageBackend(
                                path=os.path.join(store, "data")
                            ),
                        )
                    },
                )
            ],
        )
    )


def child_crash(store, variant):
    """Memoize f(3); die right after the link file was opened for writing."""
    set_env(store)
    real_open = builtins.open
    content_dir = os.path.join(store, "data", "c") + os.sep
    data_dir = os.path.join(store, "data") + os.sep

    class DyingFile:
        def __init__(self, fobj):
            self._f = fobj

        def __enter__(self):
            return self

        def __exit__(self, *a):
            self._f.close()

        def write(self, s):
            os._exit(42)  # the process dies before anything is written

    def faulty_open(file, mode="r", *a, **kw):
        fobj = real_open(file, mode, *a, **kw)
        name = str(file)
        hit = name.startswith(content_dir) if variant == "content" else (name.startswith(data_dir) and not name.startswith(content_dir))
        if hit and (name.endswith(".link") or name.endswith(".link.tmp")) and "w" in mode:
            return DyingFile(fobj)
        return fobj

    builtins.open = faulty_open
    f(3)
    os._exit(0)  # not reached when the fault fired


def child_check(store):
    set_env(store)
    problems = []

    def call(fn, name, label):
        try:
            r = fn(3)
        except BaseException as e:  # noqa
            problems.append("{}: {}(3) raised {!r}".format(label, name, e))
            return
        if r != expected(3):
            problems.append("{}: {}(3) returned wrong value {!r}".format(label, name, r))

    # f: first call after the crash may recompute, and re-memoizes
    call(f, "f", "1st call after crash")
    n = CALLS["f"]
    call(f, "f", "2nd call after crash")
    call(f, "f", "3rd call after crash")
    if CALLS["f"] != n:
        problems.append(
            "f(3) is recomputed on every call after a successful write "
            "(ran {} extra times): memoization never recovers".format(CALLS["f"] - n)
        )
    # g: other function producing the same result (shares the content key)
    call(g, "g", "g 1st call")
    n = CALLS["g"]
    call(g, "g", "g 2nd call")
    call(g, "g", "g 3rd call")
    if CALLS["g"] != n:
        problems.append(
            "g(3) is recomputed on every call after a successful write "
            "(ran {} extra times): memoization never recovers".format(CALLS["g"] - n)
        )
    for p in problems:
        print("VIOLATION:", p)
    sys.stdout.flush()
    os._exit(1 if problems else 0)


def run_variant(variant):
    store = tempfile.mkdtemp(prefix="d11_")
    try:
        me = os.path.abspath(__file__)
        rc = subprocess.call([sys.executable, me, CHECKOUT, "--crash", store, variant])
        if rc != 42:
            print("demo problem: fault was not injected (child exit {})".format(rc))
            return 2
        print("--- variant {}: store after the crash".format(variant))
        rc = subprocess.call([sys.executable, me, CHECKOUT, "--check", store])
        if rc == 0:
            print("OK ({}): store not poisoned".format(variant))
        return rc
    finally:
        shutil.rmtree(store, ignore_errors=True)


def main():
    return max(run_variant("content"), run_variant("memento"))


if __name__ == "__main__":
    if len(sys.argv) > 2 and sys.argv[2] == "--crash":
        child_crash(sys.argv[3], sys.argv[4])
    elif len(sys.argv) > 2 and sys.argv[2] == "--check":
        child_check(sys.argv[3])
    else:
        sys.exit(main())
