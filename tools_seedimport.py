#!/usr/bin/env python3
"""Import confirmed seeded changes from /tmp/seed_out/<pid>/ into /verif/seeded/<pid>-<n>/."""
import json, os, re, shutil, sys
log = open("/tmp/seed_out/confirm_all.log").read() if os.path.exists("/tmp/seed_out/confirm_all.log") else ""
for extra in sys.argv[1:]:
    log += open(extra).read()
for m in re.finditer(r"(C\d+)/(\d) tests=\[(.*?)\] demo_with_patch_exit=(\d+) demo_without_exit=(\d+)", log):
    pid, n, tests, w, wo = m.groups()
    if not (tests.startswith("319 passed") and w == "1" and wo == "0"):
        print("NOT confirmed", pid, n, tests, w, wo); continue
    d = "/verif/seeded/%s-%s" % (pid, n)
    os.makedirs(d, exist_ok=True)
    src = "/tmp/seed_out/%s" % pid
    shutil.copy(src + "/patch%s.diff" % n, d + "/patch.diff")
    shutil.copy(src + "/demo%s.py" % n, d + "/demo.py")
    notes = open(src + "/notes%s.txt" % n).read()
    meta_path = d + "/meta.json"
    meta = json.load(open(meta_path)) if os.path.exists(meta_path) else {}
    meta.update({"property": pid, "needs_to_manifest": notes.strip(),
                 "confirmed": {"how": "scratch worktree of /repo HEAD: git apply patch.diff; pytest (whole suite); demo.py <worktree>; git checkout; demo.py <worktree>",
                               "tests_with_change": tests, "demo_exit_with_change": int(w), "demo_exit_without_change": int(wo)}})
    json.dump(meta, open(meta_path, "w"), indent=1)
    print("imported", d)
