"""Statement executor and expression evaluator (code mode and spec mode) on top of engine.Exec."""
import ast
import builtins

import z3

from .ty import *  # noqa
from . import source as S
from .engine import (Exec, PathEnd, Unsupported, PyRaise, ReturnSig, BreakSig, ContinueSig, Universal, EmptyV,
                     BUILTIN_EXC, State, sort_key)


def is_exc_subclass(reg, src, sub, sup):
    """Exception class table: builtins from CPython itself, repo classes from the source (class facts)."""
    if sub == sup:
        return True
    if sub in BUILTIN_EXC and sup in BUILTIN_EXC:
        return issubclass(getattr(builtins, sub), getattr(builtins, sup))
    chain = reg.exc_bases.get(sub)
    if chain is None:
        return False
    return any(is_exc_subclass(reg, src, b, sup) for b in chain)


class Frame:
    def __init__(self, fi, env):
        self.fi, self.env = fi, env


class Interp(Exec):
    # ------------------------------------------------------------------ statements
    def exec_block(self, body):
        for s in S.strip_body(body):
            self.exec_stmt(s)

    def exec_stmt(self, s):
        m = getattr(self, "st_" + s.__class__.__name__, None)
        if m is None:
            raise Unsupported("statement %s at line %d" % (s.__class__.__name__, s.lineno))
        return m(s)

    def frame_contract(self):
        """The contract that governs the function whose body is being executed: for the function under verification the variant named
        by the check (module:Qual.name@tag), otherwise the callee's plain contract."""
        fi = self.frame.fi if self.frame else None
        if fi is None:
            return None
        if fi.fid == self.fid.split("@")[0]:
            return self.reg.contracts.get(self.fid)
        return self.reg.contracts.get(fi.fid)

    def st_Pass(self, s):
        pass

    def st_Expr(self, s):
        self.ev(s.value)

    def st_Return(self, s):
        raise ReturnSig(self.ev(s.value) if s.value is not None else VNone)

    def st_Assign(self, s):
        v = self.ev(s.value)
        for t in s.targets:
            self.assign(t, v)

    def st_AnnAssign(self, s):
        if s.value is not None:
            self.assign(s.target, self.ev(s.value))

    def st_AugAssign(self, s):
        cur = self.ev(self._as_load(s.target))
        rhs = self.ev(s.value)
        if isinstance(cur, VCont):
            c = self.cont(cur)
            if isinstance(s.op, ast.BitOr) and isinstance(c, SetV):
                self.set_update(cur, rhs)
                return
            if isinstance(s.op, ast.Add) and isinstance(c, (ListV, EmptyV)):
                self.list_extend(cur, rhs)
                return
            raise Unsupported("augmented assignment on container")
        self.assign(s.target, self.binop(s.op, cur, rhs))

    def _as_load(self, t):
        t2 = ast.parse(ast.unparse(t), mode="eval").body
        ast.copy_location(t2, t)
        return t2

    def st_Delete(self, s):
        for t in s.targets:
            if isinstance(t, ast.Subscript):
                base = self.ev(t.value)
                k = self.ev(t.slice)
                if isinstance(base, VCont) and isinstance(self.cont(base), DictV):
                    self.dict_del(base, k)
                    continue
            raise Unsupported("del target")

    def st_If(self, s):
        if self.branch(self.truth(self.ev(s.test))):
            self.narrow(s.test, True)
            self.exec_block(s.body)
        else:
            self.narrow(s.test, False)
            self.exec_block(s.orelse)

    def narrow(self, test, outcome):
        """After branching on `x`, `x is None`, `x is not None`, `not x`: a maybe-None local known to be present loses its
        Optional wrapper (the path condition already says so)."""
        if isinstance(test, ast.UnaryOp) and isinstance(test.op, ast.Not):
            return self.narrow(test.operand, not outcome)
        if isinstance(test, ast.BoolOp) and isinstance(test.op, ast.And) and outcome:
            for v in test.values:
                self.narrow(v, True)
            return
        if isinstance(test, ast.BoolOp) and isinstance(test.op, ast.Or) and not outcome:
            for v in test.values:
                self.narrow(v, False)
            return
        name, present = None, None
        if isinstance(test, ast.Name):
            name, present = test.id, outcome  # truthy implies not None
            if not outcome:
                return
        elif isinstance(test, ast.Compare) and len(test.ops) == 1 and isinstance(test.left, ast.Name) and isinstance(test.comparators[0], ast.Constant) and test.comparators[0].value is None:
            if isinstance(test.ops[0], (ast.Is, ast.Eq)):
                name, present = test.left.id, not outcome
            elif isinstance(test.ops[0], (ast.IsNot, ast.NotEq)):
                name, present = test.left.id, outcome
        if name is None or name not in self.st.env:
            return
        v = self.st.env[name]
        if isinstance(v, VOpt):
            if present:
                self.st.env[name] = v.val
            else:
                self.st.env[name] = VNone

    def st_Assert(self, s):
        ctr = self.frame_contract()
        if ctr is not None and ctr.labels.get("asserts_assumed"):
            # stated in the contract: the function's own run-time asserts are taken as preconditions (AssertionError paths are outside the claim)
            try:
                self.assume(self.truth(self.ev(s.test)))
            except Unsupported:
                pass
            return
        c = self.truth(self.ev(s.test))
        self.oblige("assert@%d" % s.lineno, c, kind="assert")
        self.assume(c)

    def st_Raise(self, s):
        if s.exc is None:
            if self.cur_exc is None:
                raise Unsupported("bare raise outside handler")
            raise PyRaise(self.cur_exc)
        v = self.ev(s.exc)
        if isinstance(v, VClass):
            v = VExc(v.name, [])
        if isinstance(v, VObj):
            v = self.exc_of_obj(v)
        if not isinstance(v, VExc):
            raise Unsupported("raise of non-exception %r" % (v,))
        raise PyRaise(v)

    def exc_of_obj(self, v):
        return v

    def st_Try(self, s):
        try:
            try:
                self.exec_block(s.body)
            except PyRaise as pr:
                exc = pr.exc
                handled = False
                for h in s.handlers:
                    if self.exc_matches(exc, h.type):
                        handled = True
                        saved = self.cur_exc
                        self.cur_exc = exc
                        if h.name:
                            self.st.env[h.name] = exc
                        try:
                            self.exec_block(h.body)
                        finally:
                            self.cur_exc = saved
                        break
                if not handled:
                    raise
            else:
                self.exec_block(s.orelse)
        except (PyRaise, ReturnSig, BreakSig, ContinueSig):
            if s.finalbody:
                self.exec_block(s.finalbody)
            raise
        else:
            if s.finalbody:
                self.exec_block(s.finalbody)

    def exc_matches(self, exc, tnode):
        if tnode is None:
            return True
        names = []
        if isinstance(tnode, ast.Tuple):
            for e in tnode.elts:
                names.append(self.exc_class_name(e))
        else:
            names.append(self.exc_class_name(tnode))
        for n in names:
            if is_exc_subclass(self.reg, self.src, exc.cls, n):
                return True
        if not exc.exact:
            for n in names:
                if any(is_exc_subclass(self.reg, self.src, n, x) for x in getattr(exc, "excl", [])):
                    continue
                if is_exc_subclass(self.reg, self.src, n, exc.cls):
                    b = self.fresh("exc_is_" + n, z3.BoolSort())
                    if self.branch(b):
                        exc.cls = n
                        return True
        return False

    def exc_class_name(self, node):
        v = self.ev(node)
        if isinstance(v, VClass):
            n = v.name
            return {"IOError": "OSError", "EnvironmentError": "OSError"}.get(n, n)
        raise Unsupported("except clause type")

    def st_While(self, s):
        self.loop(s, None, None)

    def iter_view(self, it):
        return it

    def st_For(self, s):
        it = self.iter_view(self.ev(s.iter))
        if isinstance(it, VTuple) and len(it.items) == 2 and isinstance(it.items[0], VBuiltin) and it.items[0].name == "enumerate":
            self.enumerating = True
            try:
                return self.loop(s, s.target, it.items[1])
            finally:
                self.enumerating = False
        self.loop(s, s.target, it)

    def st_Break(self, s):
        raise BreakSig()

    def st_Continue(self, s):
        raise ContinueSig()

    def st_With(self, s):
        # context managers: by contract table (enter/exit effects on ghost state)
        mgrs = []
        for item in s.items:
            cm = self.ev(item.context_expr)
            h = self.with_enter(cm, item)
            mgrs.append((cm, h))
        try:
            self.exec_block(s.body)
        except (PyRaise, ReturnSig, BreakSig, ContinueSig) as sig:
            self.with_exc = isinstance(sig, PyRaise)     # the block is left by an exception: __exit__ sees it
            try:
                for cm, h in reversed(mgrs):
                    self.with_exit(cm, h)
            finally:
                self.with_exc = False
            raise
        else:
            for cm, h in reversed(mgrs):
                self.with_exit(cm, h)

    def with_enter(self, cm, item):
        hook = self.reg.with_hooks.get(self.kind_of_cm(cm))
        if hook is None:
            raise Unsupported("with-statement on %r" % (cm,))
        val = hook[0](self, cm)
        if item.optional_vars is not None:
            self.assign(item.optional_vars, val)
        return val

    def with_exit(self, cm, h):
        self.reg.with_hooks[self.kind_of_cm(cm)][1](self, cm, h)

    def kind_of_cm(self, cm):
        if isinstance(cm, VObj):
            return cm.cls
        return type(cm).__name__

    def st_FunctionDef(self, s):
        # nested def: bound as closure over the current env (read-only capture) -- or, when the nested function has its own contract,
        # as that function (calls then go through the contract, the captured variables are taken from the current environment)
        fi = self.frame.fi if self.frame else None
        if fi is not None:
            q = fi.fid.split(":")[1]
            nested = "%s:%s.<locals>.%s" % (fi.module, q, s.name)
            if nested in self.reg.contracts and self.src.has_func(nested):
                self.st.env[s.name] = VFunc(nested)
                return
        self.st.env[s.name] = VLambda(s, self.st.env)

    def st_Import(self, s):
        for a in s.names:
            self.st.env[a.asname or a.name.split(".")[0]] = VModule(a.name)

    def st_ImportFrom(self, s):
        for a in s.names:
            self.st.env[a.asname or a.name] = self.resolve_import(self.frame.fi.module, ("." * s.level) + (s.module or ""), a.name)

    # ------------------------------------------------------------------ loops
    def next_loop_ordinal(self, node):
        key = id(node)
        return self.loop_ordinals.get(key)

    def loop(self, s, target, it, ordinal=None):
        """while / for with an invariant (cut) or unrolling for concrete iteration spaces."""
        fi = self.frame.fi
        ordinal = self.loop_ordinal_of(fi, s)
        c = self.frame_contract()
        invs = c.loops.get(ordinal) if c else None
        if c is not None and c.loops and fi.fid.split("@")[0] == self.fid.split("@")[0] and self.loop_drift(fi, c):
            # the loop structure of the function no longer matches the contract (code was restructured): every invariant clause of the
            # contract is a *candidate* at every loop; clauses that cannot be evaluated here or fail entry / preservation are dropped
            # (Houdini-style, verify.run iterates to a fixpoint).  Verdicts obtained this way need native confirmation.
            invs = self.drift_candidates(c, ordinal)
        # concrete iteration space -> unroll
        if target is not None and isinstance(it, VTuple):
            for x in it.items:
                self.assign(target, x)
                try:
                    self.exec_block(s.body)
                except BreakSig:
                    return
                except ContinueSig:
                    continue
            self.exec_block(s.orelse)
            return
        if invs is None:
            raise Unsupported("loop #%d in %s has no invariant" % (ordinal, fi.fid))
        lst = None
        if target is not None:
            if not isinstance(it, VCont):
                raise Unsupported("for over %r" % (it,))
            lst = self.cont(it)
            if isinstance(lst, EmptyV):
                self.exec_block(s.orelse)
                return
            if isinstance(lst, DictV) and lst.order is not None:
                lst = lst.order
            if not isinstance(lst, ListV):
                raise Unsupported("for over container %r" % type(lst))
        # 1. invariant on entry (index 0)
        ivar = "loop_i"
        self.st.env[ivar] = VInt(0)
        self.touch(TInt, z3.IntVal(0))
        if lst is not None:
            self.st.env["loop_n"] = VInt(lst.n)
            self.st.env["loop_list"] = it
            self.touch(TInt, lst.n)
        if getattr(self, "drift", False):
            usable = []
            for inv in invs:
                try:
                    self.eval_clause(inv)
                    usable.append(inv)
                except (Unsupported, PyRaise, KeyError, AttributeError) as e:
                    self.dropped_invariants.add((ordinal, inv))
            invs = usable
        for j, inv in enumerate(invs):
            self.prove_clause("loop%d-entry/%d" % (ordinal, j), inv, kind="loop-entry")
        # 2. havoc what the body modifies, assume invariant
        self.havoc_loop_targets(s, fi)
        i = self.fresh("i", z3.IntSort())
        self.touch(TInt, i)
        self.touch(TInt, i + 1)
        self.st.env[ivar] = VInt(i)
        self.assume(i >= 0)
        if lst is not None:
            self.assume(i <= lst.n)
        for inv in invs:
            self.assume_clause(inv)
        # 3. choose: iterate or exit
        if lst is not None:
            cond = i < lst.n
        else:
            cond = self.truth(self.ev(s.test))
        if self.branch(cond):
            if lst is not None:
                elem = self.from_term(lst.arr[i], lst.ty.e)
                if isinstance(lst.ty.e, TObj):
                    self.touch(TObj(), z3.simplify(lst.arr[i]))    # the current element is worth instantiating universals at
                if getattr(self, "enumerating", False) and isinstance(target, ast.Tuple):
                    self.enumerating = False
                    self.assign(target, VTuple([VInt(i), elem]))
                else:
                    self.assign(target, elem)
            try:
                self.exec_block(s.body)
            except BreakSig:
                self.exec_after_break = True
                return
            except ContinueSig:
                pass
            self.st.env[ivar] = VInt(i + 1)
            self.touch(TInt, i + 1)
            for j, inv in enumerate(invs):
                self.prove_clause("loop%d-preserved/%d" % (ordinal, j), inv, kind="loop-preserved")
            raise PathEnd("loop body end")
        else:
            if lst is not None:
                self.assume(i == lst.n)
            self.exec_block(s.orelse)

    def loop_drift(self, fi, c):
        if getattr(self, "_drift_cache", None) is None:
            order = []

            def visit(n):
                for ch in ast.iter_child_nodes(n):
                    if isinstance(ch, (ast.For, ast.While, ast.ListComp, ast.SetComp, ast.DictComp, ast.GeneratorExp)):
                        order.append(ch)
                    if isinstance(ch, (ast.FunctionDef, ast.Lambda)) and ch is not fi.node:
                        continue
                    visit(ch)
            visit(fi.node)
            stmts = {i + 1 for i, n in enumerate(order) if isinstance(n, (ast.For, ast.While))}
            declared = set(c.loops)
            comp_declared = {o for o in declared if o not in stmts}
            # drift: an invariant is declared for an ordinal that is not (any more) a loop or comprehension of the function, or a
            # for / while statement has no invariant although the contract declares invariants for others
            self._drift_cache = bool({o for o in declared if o > len(order)}) or bool(stmts - declared - set(getattr(c, "unroll", None) or ()))
            self.drift = self._drift_cache
            if self.drift and not hasattr(self, "dropped_invariants"):
                self.dropped_invariants = set()
        return self._drift_cache

    def drift_candidates(self, c, ordinal):
        out = []
        for o in sorted(c.loops):
            for cl in c.loops[o]:
                if cl not in out and (ordinal, cl) not in self.dropped_invariants:
                    out.append(cl)
        return out

    def loop_ordinal_of(self, fi, node):
        """1-based pre-order ordinal of a loop statement (For/While and side-effecting comprehensions) in its function."""
        k = 0
        for n in ast.walk(fi.node):
            pass
        order = []

        def visit(n):
            for ch in ast.iter_child_nodes(n):
                if isinstance(ch, (ast.For, ast.While, ast.ListComp, ast.SetComp, ast.DictComp, ast.GeneratorExp)):
                    order.append(ch)
                if isinstance(ch, (ast.FunctionDef, ast.Lambda)) and ch is not fi.node:
                    continue
                visit(ch)
        visit(fi.node)
        for idx, n in enumerate(order):
            if n is node:
                return idx + 1
        raise Unsupported("loop not found")

    def havoc_loop_targets(self, s, fi):
        """Havoc what the loop body may modify (effects.py: by-name over-approximation, transitive over callees)."""
        def recv_builtin(node):
            if isinstance(node, ast.Name) and node.id in self.st.env:
                return isinstance(self.st.env[node.id], (VCont, VStr, VTuple, VInt, VBool))
            return False
        eff = self.effects.of_nodes([s], (fi.module, fi.cls), recv_builtin)
        # objects created by earlier iterations exist at the loop head: the set of existing objects is some superset of the one before the loop
        a_pre = self.st.alloc
        a_head = self.fresh("alloc_head", a_pre.sort())
        self.add_universal([TObj()], lambda o: z3.Implies(a_pre[o], a_head[o]), "allocation-is-monotonic")
        self.st.alloc = a_head
        fc = self.frame_contract()
        if fc is not None and fc.labels.get("loop_havoc_heap"):
            # heap attributes written by assumed models (hooks) inside loops: invisible to the syntactic effect analysis, listed by the contract
            eff = dict(eff, fields=set(eff["fields"]) | set(fc.labels["loop_havoc_heap"]))
        if fc is not None and fc.labels.get("loop_keep"):
            # fields / ghosts the by-name effect analysis would havoc although the loop body cannot reach them (stated by the contract and
            # checked by the frame obligations of the callees involved)
            eff = dict(eff, fields=set(eff["fields"]) - set(fc.labels["loop_keep"]), ghosts=set(eff["ghosts"]) - set(fc.labels["loop_keep"]))
        for name in eff["locals"]:
            if name in self.st.env:
                self.st.env[name] = self.havoc_value(self.st.env[name], name)
        for (oid, f), v in list(self.st.fields.items()):
            if f not in eff["fields"]:
                continue
            cls = self.st.ents[oid]
            if isinstance(v, VCont):
                loc = ("f", oid, f)
                self.st.conts[loc] = self.havoc_cont(self.st.conts[loc], "h_%s_%s" % (cls, f))
            else:
                self.st.fields[(oid, f)] = self.havoc_value(v, "h_%s_%s" % (cls, f))
        for a in list(self.st.objheap):
            if a.split("#")[0] in eff["fields"]:
                self.st.objheap[a] = self.fresh("h_heap_" + a, self.st.objheap[a].sort())
        for a, (ty, mut) in self.reg.attrs.items():
            if mut and a in eff["fields"]:
                if isinstance(ty, TSet):
                    comps = {a + "#mem": z3.ArraySort(ty.e.sort(), z3.BoolSort()), a + "#count": z3.IntSort()}
                elif isinstance(ty, TList):
                    comps = {a + "#arr": z3.ArraySort(z3.IntSort(), ty.e.sort()), a + "#len": z3.IntSort()}
                else:
                    comps = {a: ty.sort()}
                for cn, srt in comps.items():
                    if cn not in self.st.objheap:
                        self.st.objheap[cn] = self.fresh("h_heap_" + cn, z3.ArraySort(ObjSort, srt))
        if __import__("os").environ.get("PYVC_DEBUG_EFF"):
            print("EFF", sorted(eff["ghosts"]), sorted(eff["locals"]), file=__import__("sys").stderr)
        for g in list(self.st.ghost):
            if g in eff["ghosts"]:
                self.st.ghost[g] = self.havoc_value(self.st.ghost[g], "h_ghost_" + g)

    def havoc_value(self, v, name):
        if isinstance(v, (VInt, VBool, VStr, VReal, VObj, VRec)):
            nv = self.from_term(self.fresh(name, v.t.sort()), self.type_of(v))
            return nv
        if isinstance(v, VOpt):
            return VOpt(self.fresh(name + "?", z3.BoolSort()), self.havoc_value(v.val, name))
        if v is VNone:
            return self.from_term(self.fresh(name, ObjSort), TObj())
        if isinstance(v, VTuple):
            return VTuple([self.havoc_value(x, name) for x in v.items])
        if isinstance(v, VCont):
            self.set_cont(v, self.havoc_cont(self.cont(v), name))
            return v
        if isinstance(v, (VEnt, VFunc, VClass, VModule, VBuiltin, VLambda, VExc, VMethod)):
            return v
        raise Unsupported("havoc %r" % (v,))

    def havoc_cont(self, c, name):
        if isinstance(c, EmptyV):
            raise Unsupported("havoc of an untyped empty container (%s); give it a type via contract labels" % name)
        self._ctr += 1
        return self.symcont(c.ty, "%s!%d" % (name, self._ctr))

    # ------------------------------------------------------------------ assignment
    def assign(self, t, v):
        if isinstance(t, ast.Name):
            if isinstance(v, VCont) and isinstance(self.cont(v), EmptyV) and self.frame is not None:
                c = self.frame_contract()
                lt = c.labels.get("local_types", {}).get(t.id) if c else None
                if lt is not None:
                    self.materialize(v, lt)
            self.st.env[t.id] = v
        elif isinstance(t, (ast.Tuple, ast.List)):
            if isinstance(v, VTuple) and len(v.items) == len(t.elts):
                for e, x in zip(t.elts, v.items):
                    self.assign(e, x)
            else:
                raise Unsupported("unpacking of %r" % (v,))
        elif isinstance(t, ast.Attribute):
            base = self.ev(t.value)
            self.set_attr(base, t.attr, v)
        elif isinstance(t, ast.Subscript):
            base = self.ev(t.value)
            k = self.ev(t.slice)
            if isinstance(base, VCont):
                c = self.cont(base)
                if isinstance(c, (DictV,)) or (isinstance(c, EmptyV) and c.kind in ("dict", "weakdict")):
                    if isinstance(c, DictV) and c.ty.weak or (isinstance(c, EmptyV) and c.kind == "weakdict"):
                        self.weak_set(base, k, v)
                    else:
                        self.dict_set(base, k, v)
                    return
            raise Unsupported("subscript store on %r" % (base,))
        else:
            raise Unsupported("assignment target %s" % t.__class__.__name__)

    def weak_set(self, base, k, v):
        """WeakValueDictionary.__setitem__: TypeError for objects that cannot be weakly referenced."""
        wr = z3.Function("weakrefable", ObjSort, z3.BoolSort())
        t = self.box(v)
        if not self.branch(wr(t)):
            raise PyRaise(VExc("TypeError", []))
        self.dict_set(base, k, VObj(t))

    def set_attr(self, base, name, v):
        if isinstance(base, VEnt):
            fty = self.reg.entities[base.cls].get(name)
            if fty is None:
                raise Unsupported("store to undeclared field %s.%s" % (base.cls, name))
            if isinstance(fty, (TDict, TOrdSet, TList, TSet, TStack)):
                if not isinstance(v, VCont):
                    raise Unsupported("non-container stored in container field")
                loc = ("f", base.oid, name)
                src = self.loc(v)
                if src != loc:
                    self.materialize(v, fty)
                    self.st.conts[loc] = self.cont(v)
                    self.st.alias[src] = loc
                self.st.fields[(base.oid, name)] = VCont(loc)
            else:
                self.st.fields[(base.oid, name)] = self.coerce(v, fty)
            return
        if isinstance(base, VObj):
            a = self.reg.attrs.get(name)
            if a and a[1]:
                arr = self.heap_arr(name, a[0])
                self.st.objheap[name] = z3.Store(arr, base.t, self.to_term(v, a[0]))
                return
            raise Unsupported("store to immutable/undeclared attribute %s of opaque object" % name)
        raise Unsupported("attribute store on %r" % (base,))

    def coerce(self, v, ty):
        """Keep python-side structure but make sure the value fits the declared type."""
        if isinstance(ty, TOpt) and not isinstance(ty.inner, TObj):
            if v is VNone:
                return VOpt(z3.BoolVal(True), self.sym(ty.inner, "unused!%d" % self._bump()))
            if isinstance(v, VOpt):
                return v
            return VOpt(z3.BoolVal(False), v)
        if isinstance(ty, TObj):
            cls = ty.cls[3:] if ty.cls and ty.cls.startswith("nn:") else ty.cls
            if isinstance(v, VObj) and v.cls and not cls:
                cls = v.cls
            return VObj(self.box(v), cls)
        if isinstance(ty, TEnt):
            return v
        if ty is TReal and isinstance(v, VInt):
            return VReal(z3.ToReal(v.t))
        return v

    def _bump(self):
        self._ctr += 1
        return self._ctr

    def heap_arr(self, name, ty):
        if name not in self.st.objheap:
            self.st.objheap[name] = z3.Const("heap0_" + name, z3.ArraySort(ObjSort, ty.sort()))
        return self.st.objheap[name]

    # ------------------------------------------------------------------ expressions
    def ev(self, n):
        m = getattr(self, "ev_" + n.__class__.__name__, None)
        if m is None:
            raise Unsupported("expression %s at line %s" % (n.__class__.__name__, getattr(n, "lineno", "?")))
        return m(n)

    def ev_Constant(self, n):
        v = n.value
        if v is None: return VNone
        if isinstance(v, bool): return VBool(v)
        if isinstance(v, int): return VInt(v)
        if isinstance(v, str): return VStr(v)
        if isinstance(v, float): return VReal(v)
        if v is Ellipsis: return VNone
        raise Unsupported("constant %r" % (v,))

    def ev_Name(self, n):
        return self.lookup(n.id)

    def lookup(self, name):
        if self.spec_mode and name in self.spec_env:
            return self.spec_env[name]
        if name in self.st.env:
            return self.st.env[name]
        fi = self.frame.fi if self.frame else None
        if fi is not None:
            v = self.resolve_module_name(fi.module, name)
            if v is not None:
                return v
        if fi is not None and fi.node.name == name:
            return VFunc(fi.fid)      # a (nested) function referring to itself
        if name in BUILTIN_EXC:
            return VClass(name)
        if hasattr(builtins, name):
            return VBuiltin(name)
        if self.spec_mode and name in self.reg.enums:
            return VClass(name)       # an enumeration declared by the contract module, named in a clause evaluated in a frame that does not import it
        cm = getattr(self, "_callee_mod", None)
        if self.spec_mode and cm:
            # a clause of a callee's contract: its names are those of the callee's own module
            v = self.resolve_module_name(cm, name)
            if v is not None:
                return v
        top = getattr(self, "fi", None)
        if self.spec_mode and top is not None and fi is not None and top.module != fi.module:
            # a clause of a callee's contract evaluated inside an inlined helper of another module: names are those of the function under verification
            v = self.resolve_module_name(top.module, name)
            if v is not None:
                return v
        if self.spec_mode and not getattr(self, "pure_code", 0) and getattr(self, "drift", False) is False and name.islower() and fi is not None \
                and any(isinstance(x, ast.Name) and x.id == name and isinstance(x.ctx, ast.Store) for x in ast.walk(fi.node)):
            # a local of the function that is not assigned on this path: specifications are total, its value here is arbitrary
            return VObj(self.fresh("unassigned_" + name, ObjSort))
        raise Unsupported("unresolved name %s" % name)

    def resolve_module_name(self, mod, name):
        m = self.src.module(mod)
        if name in self.reg.records:
            return VClass(name, mod)
        if name in m.funcs and "." not in name:
            return VFunc("%s:%s" % (mod, name))
        if name in m.classes:
            return VClass(name, mod)
        if name in m.imports:
            return self.resolve_import(mod, *m.imports[name])
        if name in m.assigns:
            key = "%s:%s" % (mod, name)
            if key in self.reg.consts:
                return self.reg.consts[key](self)
            node = m.assigns[name]
            if isinstance(node, ast.Constant):
                return self.ev_Constant(node)
            if isinstance(node, ast.Call) and isinstance(node.func, ast.Name) and node.func.id == "namedtuple":
                return VClass(name, mod)
            raise Unsupported("module-level value %s" % key)
        return None

    def resolve_import(self, mod, srcmod, orig):
        if srcmod == "twosigma.memento" and orig is not None:
            # absolute import from the package itself: follow the re-export in __init__.py
            init = self.src.module("__init__")
            if orig in init.imports:
                return self.resolve_import("__init__", *init.imports[orig])
        elif srcmod.startswith("twosigma.memento."):
            srcmod = "." + srcmod[len("twosigma.memento."):]
        if srcmod.startswith("."):
            tgt = srcmod.lstrip(".")
            if orig is None:
                return VModule(tgt)
            if not tgt:  # from . import x
                return VModule(orig)
            try:
                v = self.resolve_module_name(tgt, orig)
            except FileNotFoundError:
                v = None
            if v is None:
                raise Unsupported("import %s from %s" % (orig, srcmod))
            return v
        if orig is None:
            return VModule(srcmod)
        full = "%s.%s" % (srcmod, orig)
        if orig in BUILTIN_EXC:
            return VClass(orig)
        return VBuiltin(full)

    def ev_Attribute(self, n):
        base = self.ev(n.value)
        return self.get_attr(base, n.attr, n)

    def get_attr(self, base, name, node=None):
        if isinstance(base, VEnt):
            if (base.oid, name) in self.st.fields:
                return self.st.fields[(base.oid, name)]
            mod, cls = self.reg.entity_methods[base.cls]
            fi = self.src.find_method(mod, cls, name)
            if fi is None:
                ca = self.class_attr(mod, cls, name)
                if ca is not None:
                    return ca
                raise Unsupported("attribute %s.%s" % (base.cls, name))
            if fi.kind == "property":
                return self.call_function(fi, [base], {}, node)
            if fi.kind == "static":
                return VFunc(fi.fid)
            return VFunc(fi.fid, base)
        if isinstance(base, VObj):
            a = self.reg.attrs.get(name)
            if a is not None:
                ty, mutable = a
                if not self.spec_mode:
                    if not self.branch(base.t != PyNone):
                        raise PyRaise(VExc("AttributeError", []))
                if isinstance(ty, (TSet, TList)):
                    return VCont(("h", name, base.t))
                if mutable:
                    return self.from_term(self.heap_arr(name, ty)[base.t], ty)
                f = z3.Function("attr_" + name, ObjSort, ty.sort())
                r = self.from_term(f(base.t), ty)
                if isinstance(r, VObj) and r.cls and r.cls.startswith("nn:"):
                    r.cls = r.cls[3:]
                    self.assume(z3.Implies(base.t != PyNone, r.t != PyNone))
                if isinstance(r, VObj):
                    # immutable attribute of an object that existed at entry: its value existed at entry too
                    a0 = z3.Const("alloc0", z3.ArraySort(ObjSort, z3.BoolSort()))
                    self.assume(z3.Implies(a0[base.t], z3.Or(r.t == PyNone, a0[r.t])))
                return r
            if name in self.reg.obj_methods or name in self.reg.obj_method_hooks or (base.cls and "%s.%s" % (base.cls, name) in self.reg.obj_methods):
                return VMethod(base, name)
            if base.cls in self.reg.opaque_classes:
                fi = self.src.find_method(self.reg.opaque_classes[base.cls], base.cls, name)
                if fi is not None:
                    if fi.kind == "property":
                        return self.call_function(fi, [base], {}, node)
                    return VFunc(fi.fid, base)
            raise Unsupported("attribute %s of opaque object (cls=%s)" % (name, base.cls))
        if isinstance(base, VRec):
            if name in dict(base.ty.fields):
                return self.from_term(base.ty.get(base.t, name), base.ty.fty(name))
            if (base.ty.name, name) in self.reg.record_methods:
                return VMethod(base, name)
            raise Unsupported("attribute %s of record %s" % (name, base.ty.name))
        if isinstance(base, VOpt):
            if not self.spec_mode:
                if not self.branch(z3.Not(base.isnone)):
                    raise PyRaise(VExc("AttributeError", []))
            return self.get_attr(base.val, name, node)
        if base is VNone:
            if self.spec_mode:
                return VObj(self.fresh("undef_attr", ObjSort))   # specifications are total: the value is only meaningful under `is not None`
            raise PyRaise(VExc("AttributeError", []))
        if isinstance(base, (VCont, VStr, VTuple)):
            return VMethod(base, name)
        if isinstance(base, VClass):
            return self.class_member(base, name)
        if isinstance(base, VModule):
            return VBuiltin("%s.%s" % (base.name, name))
        if isinstance(base, VBuiltin):
            return VBuiltin("%s.%s" % (base.name, name))
        if isinstance(base, VExc):
            if name == "args":
                return VTuple(base.args)
            raise Unsupported("attribute %s of exception" % name)
        raise Unsupported("attribute %s of %r" % (name, base))

    def class_attr(self, mod, cls, name):
        node = self.src.module(mod).classes.get(cls)
        if node is None:
            return None
        for s in node.body:
            if isinstance(s, ast.Assign):
                for t in s.targets:
                    if isinstance(t, ast.Name) and t.id == name and isinstance(s.value, ast.Constant):
                        return self.ev_Constant(s.value)
                    if isinstance(t, ast.Name) and t.id == name and isinstance(s.value, ast.Tuple) and s.value.elts and all(
                            (isinstance(e, ast.Name) and e.id in ("bool", "int", "float", "str", "bytes", "tuple", "list", "dict", "set", "frozenset"))
                            or (isinstance(e, ast.Call) and isinstance(e.func, ast.Name) and e.func.id == "type" and len(e.args) == 1 and not e.keywords
                                and isinstance(e.args[0], ast.Constant) and e.args[0].value is None) for e in s.value.elts):
                        # a class-level tuple of builtin types (an isinstance filter): (type(None), bool, int, ...)
                        return VTuple([VBuiltin(e.id) if isinstance(e, ast.Name) else VBuiltin("NoneType") for e in s.value.elts])
                    if isinstance(t, ast.Name) and t.id == name and isinstance(s.value, ast.Call) and isinstance(s.value.func, ast.Name) \
                            and s.value.func.id in self.reg.records and not s.value.keywords and all(isinstance(a, ast.Constant) for a in s.value.args):
                        # a class-level constant built from literals: RecordClass("...")
                        rec = self.reg.records[s.value.func.id]
                        if len(rec.fields) == len(s.value.args):
                            vals = [self.to_term(self.ev_Constant(a), ty) for a, (_, ty) in zip(s.value.args, rec.fields)]
                            return VRec(rec.mk(*vals), rec)
        return None

    def class_member(self, base, name):
        cname = base.name
        if cname in self.reg.enums and name in self.reg.enums[cname]:
            return self.enum_member(cname, name)
        if base.module:
            r = self.src.resolve_class(base.module, cname.split(".")[0])
            if r:
                mod, _ = r
                m = self.src.module(mod)
                q = "%s.%s" % (cname, name)
                if q in m.classes:
                    return VClass(q, mod)
                fi = self.src.find_method(mod, cname, name)
                if fi is not None:
                    return VFunc(fi.fid)
                ca = self.class_attr(mod, cname, name)
                if ca is not None:
                    return ca
        raise Unsupported("class member %s.%s" % (cname, name))

    def enum_member(self, cname, name):
        members = self.reg.enums[cname]
        consts = [z3.Const("enum_%s_%s" % (cname, m), ObjSort) for m in members]
        key = "enum:" + cname
        if key not in self.enum_done:
            self.enum_done.add(key)
            self.assume(z3.Distinct(*(consts + [PyNone])) if len(consts) > 0 else True)
        return VObj(consts[members.index(name)], "enum:" + cname)

    def ev_BoolOp(self, n):
        # short-circuit with Python value semantics when operands are bools; value-returning forms only for bools
        if self.spec_mode:
            vals = [self.truth(self.ev(x)) for x in n.values]
            return VBool(z3.And(*vals) if isinstance(n.op, ast.And) else z3.Or(*vals))
        first = self.ev(n.values[0])
        rest = n.values[1:]
        cur = first
        for x in rest:
            t = self.truth(cur)
            if isinstance(n.op, ast.And):
                if self.branch(t):
                    cur = self.ev(x)
                else:
                    return cur
            else:
                if self.branch(t):
                    return cur
                cur = self.ev(x)
        return cur

    def ev_UnaryOp(self, n):
        if isinstance(n.op, ast.Not):
            self.pol = -self.pol
            try:
                v = self.ev(n.operand)
            finally:
                self.pol = -self.pol
            return VBool(z3.Not(self.truth(v)))
        v = self.ev(n.operand)
        if isinstance(n.op, ast.USub):
            if isinstance(v, VInt): return VInt(-v.t)
            if isinstance(v, VReal): return VReal(-v.t)
        raise Unsupported("unary op")

    def ev_BinOp(self, n):
        return self.binop(n.op, self.ev(n.left), self.ev(n.right))

    def binop(self, op, a, b):
        if isinstance(a, VBool): a = VInt(z3.If(a.t, 1, 0))
        if isinstance(b, VBool): b = VInt(z3.If(b.t, 1, 0))
        num = (VInt, VReal)
        if isinstance(a, num) and isinstance(b, num):
            real = isinstance(a, VReal) or isinstance(b, VReal)
            x = z3.ToReal(a.t) if real and isinstance(a, VInt) else a.t
            y = z3.ToReal(b.t) if real and isinstance(b, VInt) else b.t
            mk = VReal if real else VInt
            if isinstance(op, ast.Add): return mk(x + y)
            if isinstance(op, ast.Sub): return mk(x - y)
            if isinstance(op, ast.Mult): return mk(x * y)
            if isinstance(op, ast.Div):
                xr = z3.ToReal(x) if not real else x
                yr = z3.ToReal(y) if not real else y
                if not self.spec_mode and not self.branch(yr != 0):
                    raise PyRaise(VExc("ZeroDivisionError", []))
                return VReal(xr / yr)
            if isinstance(op, ast.FloorDiv) and not real:
                if not self.spec_mode and not self.branch(y != 0):
                    raise PyRaise(VExc("ZeroDivisionError", []))
                return VInt(x / y) if True else None
            if isinstance(op, ast.Mod) and not real:
                if not self.spec_mode and not self.branch(y != 0):
                    raise PyRaise(VExc("ZeroDivisionError", []))
                return VInt(x % y)
            raise Unsupported("numeric op %s" % op.__class__.__name__)
        if isinstance(a, VStr) and isinstance(b, VStr) and isinstance(op, ast.Add):
            return VStr(z3.Concat(a.t, b.t))
        if isinstance(a, VStr) and isinstance(op, ast.Mod):
            raise Unsupported("% formatting")
        if isinstance(op, ast.Mult) and isinstance(a, VCont) and isinstance(b, VInt):
            return self.list_repeat(a, b)
        if isinstance(a, VObj) and isinstance(b, VObj) and not self.spec_mode:
            # arithmetic on opaque objects (e.g. datetime difference): an uninterpreted function of both operands; may raise TypeError
            f = z3.Function("py_binop_" + op.__class__.__name__, ObjSort, ObjSort, ObjSort)
            return VObj(f(a.t, b.t))
        raise Unsupported("binop %s on %r, %r" % (op.__class__.__name__, a, b))

    def list_repeat(self, a, n):
        c = self.cont(a)
        if isinstance(c, ListV) and z3.is_int_value(z3.simplify(c.n)) and z3.simplify(c.n).as_long() == 1:
            x = c.arr[0]
            return self.new_box(ListV(c.ty, z3.K(z3.IntSort(), x), z3.If(n.t < 0, 0, n.t)))
        raise Unsupported("list repetition")

    def ev_IfExp(self, n):
        if self.spec_mode:
            saved, self.pol = self.pol, 0
            try:
                c = self.truth(self.ev(n.test))
                a, b = self.ev(n.body), self.ev(n.orelse)
            finally:
                self.pol = saved
            return self.ite(c, a, b)
        if self.branch(self.truth(self.ev(n.test))):
            saved = dict(self.st.env)
            self.narrow(n.test, True)
            try:
                return self.ev(n.body)
            finally:
                self.st.env = saved
        saved = dict(self.st.env)
        self.narrow(n.test, False)
        try:
            return self.ev(n.orelse)
        finally:
            self.st.env = saved

    def ite(self, c, a, b):
        if isinstance(a, VOpt) or isinstance(b, VOpt):
            ao = a if isinstance(a, VOpt) else VOpt(z3.BoolVal(a is VNone), a if a is not VNone else b.val)
            bo = b if isinstance(b, VOpt) else VOpt(z3.BoolVal(b is VNone), b if b is not VNone else a.val)
            return VOpt(z3.If(c, ao.isnone, bo.isnone), self.ite(c, ao.val, bo.val))
        for cls in (VInt, VBool, VStr, VReal):
            if isinstance(a, cls) and isinstance(b, cls):
                return cls(z3.If(c, a.t, b.t))
        if isinstance(a, VRec) and isinstance(b, VRec):
            return VRec(z3.If(c, a.t, b.t), a.ty)
        if isinstance(a, (VObj, type(VNone))) or isinstance(b, (VObj, type(VNone))):
            return VObj(z3.If(c, self.box(a), self.box(b)))
        raise Unsupported("ite on %r / %r" % (a, b))

    def ev_Compare(self, n):
        saved, self.pol = self.pol, 0
        try:
            return self._compare(n)
        finally:
            self.pol = saved

    def _compare(self, n):
        left = self.ev(n.left)
        res = None
        for op, rn in zip(n.ops, n.comparators):
            right = self.ev(rn)
            c = self.compare(op, left, right)
            res = c if res is None else z3.And(res, c)
            left = right
        return VBool(res)

    def compare(self, op, a, b):
        if isinstance(op, (ast.Eq, ast.NotEq)) and getattr(self.reg, "eq_may_raise", False) and not self.spec_mode \
                and isinstance(a, VObj) and isinstance(b, VObj) and a is not VNone and b is not VNone \
                and not ({(a.cls or "").replace("nn:", ""), (b.cls or "").replace("nn:", "")} & {"bytes", "str", "int", "bool", "float"}):
            # `==` / `!=` between two arbitrary objects runs their __eq__: user / library code whose answer need not be a bool (numpy compares element-wise
            # and `if a != b` then raises ValueError) -- opted into by contract modules whose functions compare values they do not control
            if self.choose([z3.BoolVal(True), z3.BoolVal(True)]) == 1:
                raise PyRaise(VExc("ValueError", []))
        if isinstance(op, (ast.Is, ast.Eq)):
            return self.equal(a, b, identity=isinstance(op, ast.Is))
        if isinstance(op, (ast.IsNot, ast.NotEq)):
            return z3.Not(self.equal(a, b, identity=isinstance(op, ast.IsNot)))
        if isinstance(op, (ast.In, ast.NotIn)):
            r = self.contains(b, a)
            return r if isinstance(op, ast.In) else z3.Not(r)
        if isinstance(a, VBool): a = VInt(z3.If(a.t, 1, 0))
        if isinstance(b, VBool): b = VInt(z3.If(b.t, 1, 0))
        if isinstance(a, (VInt, VReal)) and isinstance(b, (VInt, VReal)):
            x, y = a.t, b.t
            if isinstance(a, VReal) != isinstance(b, VReal):
                x = z3.ToReal(x) if isinstance(a, VInt) else x
                y = z3.ToReal(y) if isinstance(b, VInt) else y
            return {ast.Lt: x < y, ast.LtE: x <= y, ast.Gt: x > y, ast.GtE: x >= y}[type(op)]
        if isinstance(a, VStr) and isinstance(b, VStr):
            return {ast.Lt: a.t < b.t, ast.LtE: a.t <= b.t, ast.Gt: b.t < a.t, ast.GtE: b.t <= a.t}[type(op)]
        raise Unsupported("comparison %s on %r, %r" % (op.__class__.__name__, a, b))

    def equal(self, a, b, identity=False):
        if a is VNone and b is VNone:
            return z3.BoolVal(True)
        if a is VNone or b is VNone:
            o = b if a is VNone else a
            if isinstance(o, VObj): return o.t == PyNone
            if isinstance(o, VOpt): return o.isnone
            if isinstance(o, (VInt, VBool, VStr, VReal, VRec, VEnt, VCont, VTuple, VFunc, VClass, VExc)): return z3.BoolVal(False)
            raise Unsupported("None comparison with %r" % (o,))
        if isinstance(a, VOpt) or isinstance(b, VOpt):
            ao = a if isinstance(a, VOpt) else VOpt(z3.BoolVal(False), a)
            bo = b if isinstance(b, VOpt) else VOpt(z3.BoolVal(False), b)
            return z3.Or(z3.And(ao.isnone, bo.isnone), z3.And(z3.Not(ao.isnone), z3.Not(bo.isnone), self.equal(ao.val, bo.val, identity)))
        for cls in (VStr, VRec):
            if isinstance(a, cls) and isinstance(b, cls):
                return a.t == b.t
        if isinstance(a, VBool) and isinstance(b, VBool):
            return a.t == b.t
        if isinstance(a, (VInt, VBool, VReal)) and isinstance(b, (VInt, VBool, VReal)):
            x = z3.If(a.t, 1, 0) if isinstance(a, VBool) else a.t
            y = z3.If(b.t, 1, 0) if isinstance(b, VBool) else b.t
            return x == y
        if isinstance(a, VObj) and isinstance(b, VObj):
            if identity or self.spec_mode or (a.cls or "").startswith("enum:") or (b.cls or "").startswith("enum:"):
                return a.t == b.t
            eq = z3.Function("py_eq", ObjSort, ObjSort, z3.BoolSort())
            self.assume(z3.Implies(a.t == b.t, eq(a.t, b.t)))
            return eq(a.t, b.t)
        if isinstance(a, VObj) or isinstance(b, VObj):
            if self.spec_mode or identity:
                return self.box(a) == self.box(b)
            raise Unsupported("== between opaque object and %r" % ((b if isinstance(a, VObj) else a),))
        if isinstance(a, VEnt) and isinstance(b, VEnt):
            return z3.BoolVal(a.oid == b.oid)
        if isinstance(a, VTuple) and isinstance(b, VTuple):
            if len(a.items) != len(b.items):
                return z3.BoolVal(False)
            return z3.And(*[self.equal(x, y, identity) for x, y in zip(a.items, b.items)]) if a.items else z3.BoolVal(True)
        if isinstance(a, VCont) and isinstance(b, VCont) and self.spec_mode:
            return self.cont_equal(self.cont(a), self.cont(b))
        if isinstance(a, VStr) != isinstance(b, VStr) and isinstance(a, (VStr, VInt, VBool)) and isinstance(b, (VStr, VInt, VBool)):
            return z3.BoolVal(False)
        raise Unsupported("equality between %r and %r" % (a, b))

    def cont_equal(self, x, y):
        if isinstance(x, DictV) and isinstance(y, DictV):
            # extensional equality of finite maps, decided pointwise by the array theory
            k = self.fresh("ext", x.ty.k.sort())
            raise Unsupported("dict equality: use forall")
        if isinstance(x, ListV) and isinstance(y, ListV):
            raise Unsupported("list equality: use length + forall")
        raise Unsupported("container equality")

    def contains(self, c, x):
        if isinstance(c, VOpt) and self.spec_mode:
            c = c.val
        if isinstance(c, VCont):
            cc = self.cont(c)
            if isinstance(cc, DictV):
                return self.dict_contains(c, x).t
            if isinstance(cc, OrdSetV):
                kt = self.to_term(x, cc.ty.k)
                self.os_lemmas(cc, kt)
                return cc.mem[kt]
            if isinstance(cc, SetV):
                kt = self.to_term(x, cc.ty.e)
                self.touch(cc.ty.e, kt)
                return cc.mem[kt]
            if isinstance(cc, ListV) and cc.idx is not None:
                kt = self.to_term(x, cc.ty.e)
                self.touch(cc.ty.e, kt)
                return z3.And(0 <= cc.idx[kt], cc.idx[kt] < cc.n, cc.arr[cc.idx[kt]] == kt)
            if isinstance(cc, EmptyV):
                return z3.BoolVal(False)
            raise Unsupported("`in` on %s" % type(cc).__name__)
        if isinstance(c, VStr) and isinstance(x, VStr):
            return z3.Contains(c.t, x.t)
        if isinstance(c, VTuple):
            return z3.Or(*[self.equal(x, y) for y in c.items]) if c.items else z3.BoolVal(False)
        raise Unsupported("`in` on %r" % (c,))

    def truth(self, v):
        if isinstance(v, VBool): return v.t
        if isinstance(v, VInt): return v.t != 0
        if isinstance(v, VReal): return v.t != 0
        if isinstance(v, VStr): return z3.Length(v.t) > 0
        if v is VNone: return z3.BoolVal(False)
        if isinstance(v, VOpt): return z3.And(z3.Not(v.isnone), self.truth(v.val))
        if isinstance(v, VEnt):
            return z3.BoolVal(True)  # class facts: verified entities define neither __bool__ nor __len__ (checked in classfacts)
        if isinstance(v, VObj):
            if v.cls in self.reg.plain_truthy:
                return v.t != PyNone
            f = z3.Function("py_truthy", ObjSort, z3.BoolSort())
            self.assume(z3.Not(f(PyNone)))
            return f(v.t)
        if isinstance(v, VCont):
            c = self.cont(v)
            if isinstance(c, EmptyV): return z3.BoolVal(False)
            if isinstance(c, ListV): return c.n > 0
            if isinstance(c, StackV): return z3.BoolVal(True) if c.items else c.prefix_some
            return c.count > 0
        if isinstance(v, VTuple): return z3.BoolVal(len(v.items) > 0)
        if isinstance(v, VRec): return z3.BoolVal(True)
        if isinstance(v, (VFunc, VClass, VLambda)): return z3.BoolVal(True)
        raise Unsupported("truth of %r" % (v,))

    def ev_Tuple(self, n):
        return VTuple([self.ev(e) for e in n.elts])

    def ev_List(self, n):
        box = self.new_box(EmptyV("list"))
        for e in n.elts:
            self.list_append(box, self.ev(e))
        return box

    def ev_Dict(self, n):
        box = self.new_box(EmptyV("dict"))
        for k, v in zip(n.keys, n.values):
            if k is None:
                raise Unsupported("dict unpacking")
            self.dict_set(box, self.ev(k), self.ev(v))
        return box

    def ev_Set(self, n):
        box = self.new_box(EmptyV("set"))
        for e in n.elts:
            v = self.ev(e)
            c = self.cont(box)
            if isinstance(c, EmptyV):
                self.materialize(box, TSet(self.type_of(v) if not isinstance(v, VObj) else TObj()))
            self.call_method(box, "add", [v], {}, n)
        return box

    def ev_Subscript(self, n):
        base = self.ev(n.value)
        if isinstance(n.slice, ast.Slice):
            return self.slice(base, n.slice)
        k = self.ev(n.slice)
        if isinstance(base, VOpt) and self.spec_mode:
            base = base.val
        if isinstance(base, VCont):
            c = self.cont(base)
            if isinstance(c, DictV):
                return self.dict_get(base, k)
            if isinstance(c, ListV):
                return self.list_get(base, k)
            if isinstance(c, StackV) and isinstance(k, VInt) and z3.is_int_value(z3.simplify(k.t)) and z3.simplify(k.t).as_long() == -1:
                if c.items:
                    return c.items[-1]
                if not self.spec_mode and not self.branch(c.prefix_some):
                    raise PyRaise(VExc("IndexError", []))
                return c.prefix_top
            if isinstance(c, OrdSetV) and isinstance(k, VInt) and z3.is_int_value(z3.simplify(k.t)) and z3.simplify(k.t).as_long() in (0, -1):
                return self.os_peek(base, z3.simplify(k.t).as_long() == 0)
            if isinstance(c, EmptyV):
                if self.spec_mode:
                    return VObj(self.fresh("undef", ObjSort))
                raise PyRaise(VExc("KeyError" if c.kind in ("dict", "weakdict") else "IndexError", []))
        if isinstance(base, VTuple) and isinstance(k, VInt):
            kk = z3.simplify(k.t)
            if z3.is_int_value(kk):
                return base.items[kk.as_long()]
        if isinstance(base, VStr) and isinstance(k, VInt):
            return VStr(z3.SubString(base.t, k.t, 1))
        raise Unsupported("subscript on %r" % (base,))

    def slice(self, base, sl):
        if sl.step is not None:
            raise Unsupported("slice step")
        lo = self.ev(sl.lower) if sl.lower is not None else None
        hi = self.ev(sl.upper) if sl.upper is not None else None
        if isinstance(base, VStr):
            n = z3.Length(base.t)

            def norm(x, default):
                if x is None:
                    return default
                t = x.t
                return z3.If(t < 0, z3.If(t + n < 0, 0, t + n), z3.If(t > n, n, t))
            a, b = norm(lo, z3.IntVal(0)), norm(hi, n)
            return VStr(z3.SubString(base.t, a, z3.If(b - a < 0, 0, b - a)))
        raise Unsupported("slice of %r" % (base,))

    def ev_JoinedStr(self, n):
        parts = []
        for v in n.values:
            if isinstance(v, ast.Constant):
                parts.append(z3.StringVal(v.value))
            elif isinstance(v, ast.FormattedValue):
                if v.format_spec is not None or v.conversion not in (-1, 115):
                    raise Unsupported("format spec")
                parts.append(self.to_str(self.ev(v.value)))
        if not parts:
            return VStr("")
        return VStr(z3.Concat(*parts) if len(parts) > 1 else parts[0])

    def to_str(self, v):
        if isinstance(v, VStr): return v.t
        if isinstance(v, VInt): return z3.IntToStr(v.t) if False else z3.Function("py_str_int", z3.IntSort(), z3.StringSort())(v.t)
        if isinstance(v, VObj):
            return z3.Function("py_str", ObjSort, z3.StringSort())(v.t)
        if isinstance(v, VRec):
            return z3.Function("py_str_" + v.ty.name, v.ty.sort(), z3.StringSort())(v.t)
        if v is VNone:
            return z3.StringVal("None")
        raise Unsupported("str() of %r" % (v,))

    def ev_Lambda(self, n):
        return VLambda(n, dict(self.st.env))

    def ev_ListComp(self, n):
        return self.comprehension(n, "list")

    def ev_GeneratorExp(self, n):
        return self.comprehension(n, "list")

    def ev_SetComp(self, n):
        return self.comprehension(n, "set")

    def ev_Starred(self, n):
        raise Unsupported("starred expression")
