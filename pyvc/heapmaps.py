"""Mutable mapping objects on the heap (opt-in per contract module: `R.mutable_maps = True`).

Without the option an opaque object used as a mapping is read through the uninterpreted functions dict_has(o, k) / dict_val(o, k)
and can never be written.  With it the two functions become heap components

    $mh : Obj -> (Obj -> Bool)        keys of the mapping object
    $mv : Obj -> (Obj -> Obj)         values

so `o[k] = v`, `del o[k]`, `o.clear()`, `o.pop(k)` update them, `old(...)` sees the entry state, and the frame obligations of
verify.py apply (a function that writes any mapping object must list heap:$mh / heap:$mv and say which objects it leaves alone).
Keys are boxed values (strings through box_str).  `collections.defaultdict(dict)` objects (class tag `defaultdict`) insert a fresh empty
dict on a missing key when they are subscripted in code (never in specifications).  Truthiness of a dict object is "its key row is not
empty" -- an uninterpreted function of the row with the two obvious lemmas.

Aliasing is the heap's: two references to one mapping object see each other's writes.  A local dict *container* that is stored as an
object value is still frozen at that point (dyn.box), as before.
"""
import ast

import z3

from .ty import *  # noqa
from .engine import Unsupported, PyRaise, EmptyV
from .dyn import Dyn, kind_of

ROW_B = z3.ArraySort(ObjSort, z3.BoolSort())
ROW_V = z3.ArraySort(ObjSort, ObjSort)
MAPCLS = ("dict", "defaultdict")


class TRaw:
    """A heap component that is not an attribute of a declared type: just its sort."""

    def __init__(self, sort):
        self._sort = sort

    def sort(self):
        return self._sort


def owner_pair():
    """pair(container, key): the slot a row object was created for (injective: fst / snd are its inverses)."""
    return z3.Function("slot", ObjSort, ObjSort, ObjSort), z3.Function("slot_container", ObjSort, ObjSort), z3.Function("slot_key", ObjSort, ObjSort)


def register(R):
    """Called by a contract module that wants mutable mapping objects."""
    R.mutable_maps = True
    R.attrs["$mh"] = (TRaw(ROW_B), True)
    R.attrs["$mv"] = (TRaw(ROW_V), True)
    # ghost: the slot (container, key) a defaultdict row was created for; never changes once set.  Lets an invariant say "the row of q is
    # the object created for q" with one bound variable -- rows of different keys, or of different containers, are then different objects.
    R.attrs["$mo"] = (TObj(), True)

    def sp_row_slot(ex, n):
        x = ex.ev(n.args[0])
        return VObj(ex.heap_arr("$mo", TObj())[ex.box(x)])

    def sp_slot(ex, n):
        c, k = ex.ev(n.args[0]), ex.ev(n.args[1])
        pair, fst, snd = owner_pair()
        ct, kt = ex.box(c), ex.box(k)
        if not ex.bound_ids and ex.collector is None:
            ex.assume(z3.And(fst(pair(ct, kt)) == ct, snd(pair(ct, kt)) == kt, pair(ct, kt) != PyNone))
        else:
            ex.assume(z3.And(fst(pair(ct, kt)) == ct, snd(pair(ct, kt)) == kt, pair(ct, kt) != PyNone))
        return VObj(pair(ct, kt))
    def sp_allocated(ex, n):
        """allocated(x): the object exists in the current state (objects created later by the code are different from it)."""
        return VBool(ex.st.alloc[ex.box(ex.ev(n.args[0]))])
    R.spec_builtins["allocated"] = sp_allocated
    R.constructors["collections.defaultdict"] = lambda ex, args, kwargs: ex.new_defaultdict(args, kwargs)
    R.constructors["defaultdict"] = R.constructors["collections.defaultdict"]
    R.spec_builtins["row_slot"] = sp_row_slot
    R.spec_builtins["slot"] = sp_slot


class HeapMaps(Dyn):
    def mm(self):
        return getattr(self.reg, "mutable_maps", False)

    def mh(self):
        return self.heap_arr("$mh", TRaw(ROW_B))

    def mv(self):
        return self.heap_arr("$mv", TRaw(ROW_V))

    def dict_has_uf(self):
        if not self.mm():
            return super().dict_has_uf()
        H, W = self.mh(), self.mv()
        return (lambda o, k: H[o][k]), (lambda o, k: W[o][k])

    # ------------------------------------------------------------------ helpers
    def is_heap_map(self, v):
        if not (self.mm() and isinstance(v, VObj)):
            return False
        boxed = self.st.ghost.get("$boxed") or {}
        return z3.simplify(v.t).get_id() not in boxed

    def key_term(self, k):
        """Boxed key; the key is a ground term worth instantiating the contract's universals at."""
        if isinstance(k, VStr):
            self.touch(TStr, k.t)
        kt = self.box(k)
        self.touch(TObj(), kt)
        return kt

    def row_nonempty(self, row):
        return z3.Function("row_nonempty", ROW_B, z3.BoolSort())(row)

    def row_facts(self, o, kt=None):
        """Lemmas about the key row of mapping object o (at key kt): a row with a key is non-empty, the empty row is empty."""
        H = self.mh()
        if self.bound_ids or self.collector is not None:
            return
        self.assume(z3.Not(self.row_nonempty(z3.K(ObjSort, z3.BoolVal(False)))))
        if kt is not None:
            self.assume(z3.Implies(H[o][kt], self.row_nonempty(H[o])))

    def new_map_object(self, cls="dict"):
        d = self.fresh_obj(cls)
        self.assume(z3.And(kind_of(d) == 5, self.class_pred(cls)(d)))
        self.st.objheap["$mh"] = z3.Store(self.mh(), d, z3.K(ObjSort, z3.BoolVal(False)))
        self.st.objheap["$mo"] = z3.Store(self.heap_arr("$mo", TObj()), d, PyNone)     # not (yet) the row of any slot
        return d

    def value_facts(self, val):
        """Whatever a mapping of an existing object holds exists (induction over the writes: only existing values are stored)."""
        if not self.bound_ids and self.collector is None:
            self.assume(z3.Or(val == PyNone, self.st.alloc[val]))

    def map_store(self, o, kt, vt):
        H, W = self.mh(), self.mv()
        self.st.objheap["$mh"] = z3.Store(H, o, z3.Store(H[o], kt, z3.BoolVal(True)))
        self.st.objheap["$mv"] = z3.Store(W, o, z3.Store(W[o], kt, vt))
        self.row_facts(o, kt)

    def _contains(self, c, x):
        if self.is_heap_map(c):
            kt = self.key_term(x)        # the key becomes a ground term the contract's universals are instantiated at
            self.row_facts(c.t, kt)
        return super()._contains(c, x)

    # ------------------------------------------------------------------ truthiness
    def truth(self, v):
        if self.mm() and isinstance(v, VObj):
            base = super().truth(v)
            o = v.t
            if not self.bound_ids and self.collector is None:
                self.assume(z3.Not(self.row_nonempty(z3.K(ObjSort, z3.BoolVal(False)))))
            return z3.If(z3.And(o != PyNone, kind_of(o) == 5), self.row_nonempty(self.mh()[o]), base)
        return super().truth(v)

    # ------------------------------------------------------------------ o[k]  (defaultdict inserts in code, never in specifications)
    def _ev_Subscript(self, n):
        if self.mm() and not isinstance(n.slice, ast.Slice):
            base = self.ev(n.value)
            if self.is_heap_map(base) and base.cls == "defaultdict" and not self.spec_mode:
                k = self.ev(n.slice)
                kt = self.key_term(k)
                o = base.t
                if self.branch(self.mh()[o][kt]):
                    val = self.mv()[o][kt]
                    self.value_facts(val)
                    self.row_facts(o, kt)
                    return VObj(val, "dict")
                d = self.new_map_object("dict")
                self.map_store(o, kt, d)
                pair, fst, snd = owner_pair()
                self.assume(z3.And(fst(pair(o, kt)) == o, snd(pair(o, kt)) == kt, pair(o, kt) != PyNone))
                self.st.objheap["$mo"] = z3.Store(self.heap_arr("$mo", TObj()), d, pair(o, kt))
                return VObj(d, "dict")
            if self.is_heap_map(base) and self.spec_mode:
                try:
                    self.key_term(self.ev(n.slice))
                except Unsupported:
                    pass
            self._pre_base = (n.value, base)
            try:
                r = super()._ev_Subscript(n)
            finally:
                self._pre_base = None
            if self.is_heap_map(base) and isinstance(r, VObj):
                self.value_facts(r.t)
                if base.cls == "defaultdict":
                    return VObj(r.t, "dict")
            return r
        return super()._ev_Subscript(n)

    # ------------------------------------------------------------------ o[k] = v
    def assign(self, t, v):
        if self.mm() and isinstance(t, ast.Subscript) and not isinstance(t.slice, ast.Slice):
            base = self.ev(t.value)
            if self.is_heap_map(base):
                if not self.branch(base.t != PyNone):
                    raise PyRaise(VExc("TypeError", []))
                k = self.ev(t.slice)
                self.map_store(base.t, self.key_term(k), self.box(v))
                return
            self._pre_base = (t.value, base)
            try:
                return super().assign(t, v)
            finally:
                self._pre_base = None
        return super().assign(t, v)

    # ------------------------------------------------------------------ del o[k]
    def st_Delete(self, s):
        if self.mm():
            rest = []
            for t in s.targets:
                if isinstance(t, ast.Subscript) and not isinstance(t.slice, ast.Slice):
                    base = self.ev(t.value)
                    if self.is_heap_map(base):
                        k = self.ev(t.slice)
                        self.map_delete(base, k)
                        continue
                    self._pre_base = (t.value, base)
                rest.append(t)
            if not rest:
                return
            s = ast.Delete(targets=rest)
        return super().st_Delete(s)

    def map_delete(self, base, k, missing_ok=False):
        o, kt = base.t, self.key_term(k)
        H = self.mh()
        if not self.branch(H[o][kt]):
            if missing_ok:
                return None
            raise PyRaise(VExc("KeyError", [k]))
        old = self.mv()[o][kt]
        self.st.objheap["$mh"] = z3.Store(H, o, z3.Store(H[o], kt, z3.BoolVal(False)))
        return VObj(old)

    # ------------------------------------------------------------------ methods of mapping objects
    MAP_METHODS = ("get", "keys", "values", "items", "clear", "pop")

    def get_attr(self, base, name, node=None):
        if name in self.MAP_METHODS and self.is_heap_map(base) and base.cls in MAPCLS:
            return VMethod(base, name)
        return super().get_attr(base, name, node)

    def call_method(self, recv, name, args, kwargs, node):
        if self.is_heap_map(recv) and (recv.cls in MAPCLS) and name in ("get", "keys", "values", "items", "clear", "pop"):
            o = recv.t
            if not self.spec_mode and not self.branch(o != PyNone):
                raise PyRaise(VExc("AttributeError", []))
            H, W = self.mh(), self.mv()
            inner = "dict" if recv.cls == "defaultdict" else None
            if name == "get":
                kt = self.key_term(args[0])
                self.row_facts(o, kt)
                val = W[o][kt]
                self.value_facts(val)
                default = self.box(args[1]) if len(args) > 1 else PyNone
                return VObj(z3.If(H[o][kt], val, default), inner)
            if name == "clear":
                self.st.objheap["$mh"] = z3.Store(H, o, z3.K(ObjSort, z3.BoolVal(False)))
                return VNone
            if name == "pop":
                r = self.map_delete(recv, args[0], missing_ok=len(args) > 1)
                return args[1] if r is None else r
            if name == "keys":
                return self.map_keys(recv)
            if name == "items":
                view = self.obj_as_dict(recv)       # snapshot of the (string) keys / values now
                return super().call_method(view, name, args, kwargs, node)
            if name == "values":
                return self.map_values(recv)
        return super().call_method(recv, name, args, kwargs, node)

    def map_keys(self, recv):
        """d.keys() (string keys) as a duplicate-free list of exactly the keys the mapping has now."""
        o = recv.t
        H = self.mh()[o]
        bs = z3.Function("box_str", z3.StringSort(), ObjSort)
        arr = self.fresh("mapkeys", z3.ArraySort(z3.IntSort(), z3.StringSort()))
        idx = self.fresh("mapkeysidx", z3.ArraySort(z3.StringSort(), z3.IntSort()))
        n = self.fresh("nmapkeys", z3.IntSort())
        self.assume(n >= 0)
        self.assume((n > 0) == self.row_nonempty(H))
        lst = ListV(TList(TStr), arr, n, idx)
        self.injlist_facts(lst, lambda k: H[bs(k)])
        return self.new_box(lst)

    def map_values(self, recv):
        """d.values() as a list: as many items as keys; item i is the value of some key key_at(i) (distinct positions, distinct keys)."""
        o = recv.t
        H, W = self.mh()[o], self.mv()[o]
        arr = self.fresh("mapvalues", z3.ArraySort(z3.IntSort(), ObjSort))
        key_at = self.fresh("mapvalues_key", z3.ArraySort(z3.IntSort(), ObjSort))
        pos = self.fresh("mapvalues_pos", z3.ArraySort(ObjSort, z3.IntSort()))
        n = self.fresh("nmapvalues", z3.IntSort())
        self.assume(n >= 0)
        self.assume((n > 0) == self.row_nonempty(H))

        def items(i):
            self.touch(TObj(), key_at[i])
            return z3.Implies(z3.And(0 <= i, i < n), z3.And(H[key_at[i]], arr[i] == W[key_at[i]], pos[key_at[i]] == i))

        def covers(k):
            self.touch(TInt, pos[k])
            return z3.Implies(H[k], z3.And(0 <= pos[k], pos[k] < n, key_at[pos[k]] == k))
        self.add_universal([TInt], items, "map-values-items")
        self.add_universal([TObj()], covers, "map-values-cover")
        return self.new_box(ListV(TList(TObj()), arr, n))

    # ------------------------------------------------------------------ construction
    def new_defaultdict(self, args, kwargs):
        if not (len(args) == 1 and isinstance(args[0], (VBuiltin, VClass)) and getattr(args[0], "name", None) == "dict"):
            raise Unsupported("defaultdict with a factory other than dict")
        return VObj(self.new_map_object("defaultdict"), "defaultdict")

    def box(self, v):
        if self.mm() and isinstance(v, VCont) and isinstance(self.cont(v), EmptyV) and self.cont(v).kind == "dict" \
                and not self.bound_ids and self.collector is None and not self.spec_mode:
            return self.new_map_object("dict")      # dict() / {} stored as an object value: a fresh, empty, mutable mapping object
        return super().box(v)
