"""Types, z3 sorts and symbolic values of the pyvc engine.

Every Python value the executor manipulates is one of the V* wrappers below; each wraps
z3 terms.  Mutable containers are immutable *snapshots* (DictV, OrdSetV, ListV, SetV) held in
the state under a location; VCont is the reference to such a location.
"""
import z3

# ----------------------------------------------------------------------------- sorts
ObjSort = z3.DeclareSort("Obj")
PyNone = z3.Const("PyNone", ObjSort)

_rec_cache = {}
_opt_cache = {}


class Ty:
    def sort(self):
        raise NotImplementedError

    def __repr__(self):
        return self.__class__.__name__[1:]

    def __eq__(self, o):
        return repr(self) == repr(o)

    def __hash__(self):
        return hash(repr(self))


class _TInt(Ty):
    def sort(self):
        return z3.IntSort()


class _TBool(Ty):
    def sort(self):
        return z3.BoolSort()


class _TStr(Ty):
    def sort(self):
        return z3.StringSort()


class _TReal(Ty):
    def sort(self):
        return z3.RealSort()


class _TNone(Ty):
    pass


TInt, TBool, TStr, TReal, TNone = _TInt(), _TBool(), _TStr(), _TReal(), _TNone()


class TObj(Ty):
    """Opaque Python object (uninterpreted sort Obj, PyNone is a member)."""

    def __init__(self, cls=None):
        self.cls = cls

    def sort(self):
        return ObjSort

    def __repr__(self):
        return "Obj" if self.cls is None else "Obj<%s>" % self.cls


class TRec(Ty):
    """Immutable record (namedtuple / frozen class) as a z3 datatype."""

    def __init__(self, name, fields):
        self.name = name
        self.fields = list(fields)  # [(fname, Ty)]

    def sort(self):
        if self.name not in _rec_cache:
            d = z3.Datatype("Rec_" + self.name)
            d.declare("mk_" + self.name, *[("f_%s_%s" % (self.name, f), t.sort()) for f, t in self.fields])
            _rec_cache[self.name] = d.create()
        return _rec_cache[self.name]

    def mk(self, *terms):
        s = self.sort()
        return s.constructor(0)(*terms)

    def get(self, term, fname):
        s = self.sort()
        for i, (f, _) in enumerate(self.fields):
            if f == fname:
                return s.accessor(0, i)(term)
        raise KeyError(fname)

    def fty(self, fname):
        return dict(self.fields)[fname]

    def __repr__(self):
        return "Rec<%s>" % self.name


class TOpt(Ty):
    def __init__(self, inner):
        self.inner = inner

    def sort(self):
        if isinstance(self.inner, TObj):
            return ObjSort
        key = str(self.inner.sort())
        if key not in _opt_cache:
            d = z3.Datatype("Opt_" + key.replace(" ", "_").replace("(", "").replace(")", ""))
            d.declare("none")
            d.declare("some", ("val", self.inner.sort()))
            _opt_cache[key] = d.create()
        return _opt_cache[key]

    def __repr__(self):
        return "Opt<%r>" % self.inner


class TDict(Ty):
    def __init__(self, k, v, measures=(), ordered=False, weak=False, maybe_default=False):
        self.k, self.v = k, v
        self.measures = tuple(measures)  # record-field names summed by the ghost sum
        self.ordered = ordered
        self.weak = weak
        # the dictionary may be a collections.defaultdict handed in by the user: subscripting a missing key then INSERTS some default value and
        # returns it instead of raising KeyError (both behaviours are explored)
        self.maybe_default = maybe_default

    def __repr__(self):
        return "Dict<%r,%r>%s" % (self.k, self.v, "w" if self.weak else "")


class TOrdSet(Ty):
    """A deque/list used as a duplicate-free recency order."""

    def __init__(self, k):
        self.k = k

    def __repr__(self):
        return "OrdSet<%r>" % self.k


class TList(Ty):
    def __init__(self, e):
        self.e = e

    def __repr__(self):
        return "List<%r>" % self.e


class TSet(Ty):
    def __init__(self, e):
        self.e = e

    def __repr__(self):
        return "Set<%r>" % self.e


class TTuple(Ty):
    def __init__(self, items):
        self.items = list(items)

    def __repr__(self):
        return "Tuple%r" % (self.items,)


class TStack(Ty):
    """A list used as a stack of entities whose bottom part is unknown: (unknown prefix with an optional known top) ++ concrete items."""

    def __init__(self, e):
        self.e = e

    def __repr__(self):
        return "Stack<%r>" % self.e


class TEnt(Ty):
    """Mutable object with concrete identity in the executor; fields from the entity table."""

    def __init__(self, cls):
        self.cls = cls

    def __repr__(self):
        return "Ent<%s>" % self.cls


# ----------------------------------------------------------------------------- values
class V:
    pass


class VInt(V):
    def __init__(self, t):
        self.t = z3.IntVal(t) if isinstance(t, int) else t

    def __repr__(self):
        return "VInt(%s)" % self.t


class VBool(V):
    def __init__(self, t):
        self.t = z3.BoolVal(t) if isinstance(t, bool) else t

    def __repr__(self):
        return "VBool(%s)" % self.t


class VStr(V):
    def __init__(self, t):
        self.t = z3.StringVal(t) if isinstance(t, str) else t

    def __repr__(self):
        return "VStr(%s)" % self.t


class VReal(V):
    def __init__(self, t):
        self.t = z3.RealVal(t) if isinstance(t, (int, float)) else t

    def __repr__(self):
        return "VReal(%s)" % self.t


class _VNone(V):
    def __repr__(self):
        return "VNone"


VNone = _VNone()


class VObj(V):
    def __init__(self, t, cls=None):
        self.t, self.cls = t, cls

    def __repr__(self):
        return "VObj(%s)" % self.t


class VRec(V):
    def __init__(self, t, ty):
        self.t, self.ty = t, ty

    def __repr__(self):
        return "VRec(%s)" % self.t


class VOpt(V):
    """Maybe-None value: isnone is a z3 Bool, val the value when present."""

    def __init__(self, isnone, val):
        self.isnone, self.val = isnone, val

    def __repr__(self):
        return "VOpt(%s,%r)" % (self.isnone, self.val)


class VEnt(V):
    def __init__(self, oid, cls):
        self.oid, self.cls = oid, cls

    def __repr__(self):
        return "VEnt(%s#%d)" % (self.cls, self.oid)


class VTuple(V):
    def __init__(self, items):
        self.items = list(items)

    def __repr__(self):
        return "VTuple(%r)" % (self.items,)


class VCont(V):
    """Reference to a mutable container stored in state.conts[loc]."""

    def __init__(self, loc):
        self.loc = loc

    def __repr__(self):
        return "VCont(%r)" % (self.loc,)


class VFunc(V):
    """A function known by source (fid) possibly bound to a receiver."""

    def __init__(self, fid, recv=None):
        self.fid, self.recv = fid, recv

    def __repr__(self):
        return "VFunc(%s)" % self.fid


class VClass(V):
    def __init__(self, name, module=None):
        self.name, self.module = name, module

    def __repr__(self):
        return "VClass(%s)" % self.name


class VModule(V):
    def __init__(self, name):
        self.name = name


class VBuiltin(V):
    def __init__(self, name):
        self.name = name

    def __repr__(self):
        return "VBuiltin(%s)" % self.name


class VMethod(V):
    """Bound method of a non-entity value (container/str/obj method)."""

    def __init__(self, recv, name):
        self.recv, self.name = recv, name


class VExc(V):
    """Exception instance: cls is a class name; exact=False means 'cls or any subclass'."""

    def __init__(self, cls, args=(), exact=True, tag=None, excl=()):
        self.cls, self.args, self.exact, self.tag = cls, list(args), exact, tag
        self.excl = list(excl)  # classes (with subclasses) this exception is known NOT to be an instance of

    def __repr__(self):
        return "VExc(%s%s)" % (self.cls, "" if self.exact else "+")


class VStar(V):
    """`*obj` where obj is an opaque argument tuple."""

    def __init__(self, obj):
        self.obj = obj


class VLambda(V):
    def __init__(self, node, env):
        self.node, self.env = node, env


# ----------------------------------------------------------------------------- containers
class DictV:
    def __init__(self, ty, has, val, count, sums, nonneg, order=None):
        self.ty, self.has, self.val, self.count = ty, has, val, count
        self.sums, self.nonneg = dict(sums), dict(nonneg)
        self.order = order  # ListV-like (arr, n, idx) for ordered dicts or None

    def replace(self, **kw):
        d = DictV(self.ty, self.has, self.val, self.count, self.sums, self.nonneg, self.order)
        for k, v in kw.items():
            setattr(d, k, v)
        return d


class OrdSetV:
    def __init__(self, ty, mem, stamp, count, clock):
        self.ty, self.mem, self.stamp, self.count, self.clock = ty, mem, stamp, count, clock

    def replace(self, **kw):
        d = OrdSetV(self.ty, self.mem, self.stamp, self.count, self.clock)
        for k, v in kw.items():
            setattr(d, k, v)
        return d


class ListV:
    def __init__(self, ty, arr, n, idx=None):
        self.ty, self.arr, self.n, self.idx = ty, arr, n, idx

    rank = None

    def replace(self, **kw):
        d = ListV(self.ty, self.arr, self.n, self.idx)
        for k, v in kw.items():
            setattr(d, k, v)
        return d


class SetV:
    def __init__(self, ty, mem, count):
        self.ty, self.mem, self.count = ty, mem, count

    def replace(self, **kw):
        d = SetV(self.ty, self.mem, self.count)
        for k, v in kw.items():
            setattr(d, k, v)
        return d


class StackV:
    def __init__(self, ty, prefix_some, prefix_top, items):
        self.ty, self.prefix_some, self.prefix_top, self.items = ty, prefix_some, prefix_top, list(items)

    def replace(self, **kw):
        d = StackV(self.ty, self.prefix_some, self.prefix_top, self.items)
        for k, v in kw.items():
            setattr(d, k, v)
        return d
