"""One function per process: `python3-vt -m pyvc.worker <modules,comma> <fid> <timeout_ms> [opts-json]` -> JSON report on stdout."""
import importlib
import json
import sys
import traceback


def main():
    mods, fid, timeout = sys.argv[1].split(","), sys.argv[2], int(sys.argv[3])
    opts = json.loads(sys.argv[4]) if len(sys.argv) > 4 else {}
    from pyvc.spec import Registry
    from pyvc.source import Sources
    from pyvc.verify import Verifier
    try:
        R = Registry()
        for m in mods:
            importlib.import_module("contracts." + m).load(R)
        if fid.startswith("lemma:"):
            from pyvc.lemma import LemmaVerifier
            v = LemmaVerifier(R, Sources(), fid[6:], opts)
        else:
            if opts.get("extra_requires"):
                R.contracts[fid].requires.extend(opts["extra_requires"])
            for h in opts.get("inline", []):
                R.contracts[fid].inline_callees.add(h)
            v = Verifier(R, Sources(), fid, opts)
        rep = v.run(timeout)
        rep["assumed_contracts"] = sorted(c for c in rep.get("used_contracts", []) if (R.contracts.get(c) or R.externals.get(c[4:]) or R.obj_methods.get(c[10:])) and getattr(R.contracts.get(c) or R.externals.get(c[4:]) or R.obj_methods.get(c[10:]), "assumed", False))
        rep["assumption_notes"] = list(R.assumptions)
    except Exception as e:  # engine crash: exit code 3 semantics
        rep = {"fid": fid, "status": "crash", "reason": "%s: %s" % (type(e).__name__, e), "trace": traceback.format_exc()[-2000:], "obligations": []}
    sys.stdout.write(json.dumps(rep))


if __name__ == "__main__":
    main()
