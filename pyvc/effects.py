"""Syntactic write-effect analysis used to havoc loop targets (and for the C19 frame scan).

Over-approximation by *name*: a field/attribute name is in the effect set of a statement list when it is
assigned, deleted, subscript-stored or receives a mutating container method, in those statements or in any
package function that may be called from them (callees resolved by bare name over the whole package).
"""
import ast
import os

from . import source as S

MUTATORS = {"append", "appendleft", "pop", "popleft", "remove", "clear", "update", "add", "discard", "extend",
            "insert", "setdefault", "sort", "reverse", "popitem", "difference_update", "intersection_update"}


class Effects:
    def __init__(self, sources, reg):
        self.src, self.reg = sources, reg
        self.by_name = None
        self.memo = {}
        self.inline_here = set()

    def index(self):
        if self.by_name is not None:
            return
        self.by_name = {}
        for fn in sorted(os.listdir(S.PKG)):
            if fn.endswith(".py"):
                m = self.src.module(fn[:-3])
                for q, fi in m.funcs.items():
                    self.by_name.setdefault(q.split(".")[-1] if not q.endswith(".setter") else q.split(".")[-2], []).append(fi)
                for q in m.classes:
                    init = m.funcs.get(q + ".__init__")
                    if init:
                        self.by_name.setdefault(q.split(".")[-1], []).append(init)

    def of_nodes(self, nodes, ctx=None, recv_builtin=None):
        """Returns dict(fields=set, locals=set, ghosts=set).  ctx = (module, class) of the enclosing method, used to
        resolve `self.m(...)` / `Class.m(...)` calls precisely; other receivers are resolved by bare method name."""
        self.index()
        fields, locs, ghosts, calls = set(), set(), set(), set()
        self._direct(nodes, fields, locs, ghosts, calls, ctx, recv_builtin)
        seen, work = set(), list(calls)
        while work:
            call = work.pop()
            if call in seen:
                continue
            seen.add(call)
            kind, name, cctx = call
            for fi in self._resolve(kind, name, cctx):
                c = self.reg.contracts.get(fi.fid)
                if c is not None:
                    self._contract_mods(c, fields, ghosts)
                    # a callee applied by contract is represented by its `modifies` clause alone: the clause is trusted for
                    # assumed contracts and checked by the frame obligations of the callee's own verification otherwise
                    if c.assumed or fi.fid not in self.inline_here:
                        continue
                if fi.fid not in self.memo:
                    f2, l2, g2, c2 = set(), set(), set(), set()
                    self._direct(fi.node.body, f2, l2, g2, c2, (fi.module, fi.cls) if fi.cls else (fi.module, None))
                    self.memo[fi.fid] = (f2, g2, c2)
                f2, g2, c2 = self.memo[fi.fid]
                fields |= f2
                ghosts |= g2
                work.extend(c2)
            for table in (self.reg.obj_methods, self.reg.externals):
                for key, c in table.items():
                    if key.split(".")[-1] == name:
                        self._contract_mods(c, fields, ghosts)
        return {"fields": fields, "locals": locs, "ghosts": ghosts}

    def _subclasses(self, mod, cls):
        out = []
        for fn in sorted(os.listdir(S.PKG)):
            if not fn.endswith(".py"):
                continue
            m = self.src.module(fn[:-3])
            for q in m.classes:
                seen, stack = set(), [(m.name, q)]
                while stack:
                    x = stack.pop()
                    if x in seen:
                        continue
                    seen.add(x)
                    if x == (mod, cls) and (m.name, q) != (mod, cls):
                        out.append((m.name, q))
                        break
                    stack.extend(self.src.class_bases(*x))
        return out

    def _resolve(self, kind, name, cctx):
        if kind in ("self", "cls") and cctx and cctx[1]:
            mod, cls = cctx
            out = []
            fi = self.src.find_method(mod, cls, name)
            if fi is not None:
                out.append(fi)
            if kind == "self":
                for (m2, c2) in self._subclasses(mod, cls):
                    f2 = self.src.module(m2).funcs.get("%s.%s" % (c2, name))
                    if f2 is not None:
                        out.append(f2)
            if out:
                return out
        return self.by_name.get(name, [])

    def _contract_mods(self, c, fields, ghosts):
        for p in c.modifies:
            if p.startswith("ghost:"):
                ghosts.add(p[6:])
            elif p.startswith("heap:"):
                fields.add(p[5:])
            else:
                fields.add(p.split(".")[-1])

    def _direct(self, nodes, fields, locs, ghosts, calls, ctx, recv_builtin=None):
        for root in nodes:
            for n in ast.walk(root):
                if isinstance(n, ast.Attribute) and isinstance(n.ctx, (ast.Store, ast.Del)):
                    fields.add(n.attr)
                elif isinstance(n, ast.Name) and isinstance(n.ctx, (ast.Store, ast.Del)):
                    locs.add(n.id)
                elif isinstance(n, ast.Subscript) and isinstance(n.ctx, (ast.Store, ast.Del)):
                    self._base(n.value, fields, locs)
                elif isinstance(n, ast.AugAssign):
                    self._base(n.target, fields, locs)
                elif isinstance(n, ast.Call):
                    f = n.func
                    if isinstance(f, ast.Attribute):
                        if f.attr in MUTATORS:
                            self._base(f.value, fields, locs)
                        if self._container_receiver(f.value) or (recv_builtin is not None and recv_builtin(f.value)):
                            continue  # method of a builtin container / string: no package callee
                        if isinstance(f.value, ast.Name) and f.value.id == "self" and ctx:
                            calls.add(("self", f.attr, ctx))
                        elif isinstance(f.value, ast.Name) and ctx and self.src.resolve_class(ctx[0], f.value.id):
                            calls.add(("cls", f.attr, self.src.resolve_class(ctx[0], f.value.id)))
                        else:
                            calls.add(("any", f.attr, None))
                    elif isinstance(f, ast.Name):
                        calls.add(("any", f.id, None))

    def _container_receiver(self, node):
        """`<x>.<f>` where f is declared as a container field of some entity: the callee is a builtin container method."""
        from .ty import TDict, TOrdSet, TList, TSet
        if isinstance(node, ast.Attribute):
            for cls, fl in self.reg.entities.items():
                if isinstance(fl.get(node.attr), (TDict, TOrdSet, TList, TSet)):
                    return True
        if isinstance(node, ast.Constant) and isinstance(node.value, str):
            return True
        return False

    def _base(self, node, fields, locs):
        if isinstance(node, ast.Attribute):
            fields.add(node.attr)
        elif isinstance(node, ast.Name):
            locs.add(node.id)
        elif isinstance(node, ast.Subscript):
            self._base(node.value, fields, locs)
