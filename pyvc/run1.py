"""dev helper: verify one function and print results"""
import sys, json, importlib
sys.path.insert(0, "/verif")
from pyvc.spec import Registry
from pyvc.source import Sources
from pyvc.verify import Verifier

def main():
    mods = sys.argv[1].split(",")
    fid = sys.argv[2]
    R = Registry()
    for m in mods:
        importlib.import_module("contracts." + m).load(R)
    v = Verifier(R, Sources(), fid, {})
    rep = v.run(int(sys.argv[3]) if len(sys.argv) > 3 else 10000)
    for o in rep.get("obligations", []):
        print("%-11s %-6s %6.2fs %s   [%s]" % (o["result"], o["backend"], o["time_s"], o["name"], (o["clause"] or "")[:90]))
        if o["result"] != "discharged":
            print("     reason:", o["reason"], " model:", json.dumps(o["model"])[:1500])
    rep.pop("obligations", None)
    print(json.dumps(rep, indent=1))
main()
