"""Calls (builtins, container/str methods, repo functions by contract or inlined), comprehensions,
spec-mode evaluation (old/forall/spec functions) and application of callee contracts."""
import ast

import z3

from .ty import *  # noqa
from . import source as S
from .engine import (PathEnd, Unsupported, PyRaise, ReturnSig, BreakSig, ContinueSig, Universal, EmptyV, BUILTIN_EXC)
from .interp import Interp, Frame, is_exc_subclass

def split_tag(text):
    """'[C05,C06] clause' -> (['C05','C06'], 'clause');  untagged -> (None, text)"""
    t = text.lstrip()
    if t.startswith("["):
        j = t.index("]")
        return [x.strip() for x in t[1:j].split(",")], t[j + 1:]
    return None, text


PY_TYPES = {"str": (VStr,), "int": (VInt, VBool), "bool": (VBool,), "float": (VReal,), "tuple": (VTuple,)}


class Calls(Interp):
    # ------------------------------------------------------------------ call dispatch
    def ev_Call(self, n):
        f = n.func
        if isinstance(f, ast.Name):
            sp = getattr(self, "sp_" + f.id, None)
            if sp is not None and (self.spec_mode or f.id in ("cast",)):
                return sp(n)
            if self.spec_mode and f.id in self.reg.specs:
                return self.call_spec(f.id, [self.ev(a) for a in n.args])
            if self.spec_mode and f.id in self.reg.ufs:
                fn, argtys, resty = self.reg.ufs[f.id]
                args = []
                for a, t in zip(n.args, argtys):
                    try:
                        args.append(self.to_term(self.ev(a), t))
                    except Unsupported:
                        args.append(self.fresh("undef_arg", t.sort()))   # specifications are total: an ill-typed argument is arbitrary
                return self.from_term(fn(*args), resty)
        if isinstance(f, ast.Attribute) and isinstance(f.value, ast.Name) and f.value.id in ("log", "logging"):
            return VNone
        fv = self.ev(f)
        args = []
        for a in n.args:
            if isinstance(a, ast.Starred):
                sv = self.ev(a.value)
                if isinstance(sv, VTuple):
                    args.extend(sv.items)
                elif isinstance(sv, VObj):
                    args.append(VStar(sv))   # an opaque argument tuple passed through unchanged
                else:
                    raise Unsupported("star-args of non-tuple")
            else:
                args.append(self.ev(a))
        kwargs = {}
        for k in n.keywords:
            if k.arg is None:
                kwargs["**"] = self.ev(k.value)
                continue
            kwargs[k.arg] = self.ev(k.value)
        return self.call(fv, args, kwargs, n)

    def call(self, fv, args, kwargs, node=None):
        if isinstance(fv, VFunc):
            fi = self.src.func(fv.fid)
            if fv.recv is not None:
                args = [fv.recv] + args
            return self.call_function(fi, args, kwargs, node)
        if isinstance(fv, VBuiltin):
            return self.call_builtin(fv.name, args, kwargs, node)
        if isinstance(fv, VMethod):
            return self.call_method(fv.recv, fv.name, args, kwargs, node)
        if isinstance(fv, VClass):
            return self.construct(fv, args, kwargs, node)
        if isinstance(fv, VLambda):
            return self.call_lambda(fv, args, kwargs)
        if isinstance(fv, VObj) and not self.spec_mode:
            return self.call_opaque(fv, args, kwargs)
        raise Unsupported("call of %r" % (fv,))

    def call_opaque(self, fv, args, kwargs):
        """Calling an opaque callable (a user function body, a resolver): counted in ghost `opaque_calls`,
        returns an arbitrary object or raises an arbitrary exception."""
        cur = self.st.ghost.get("opaque_calls", VInt(0))
        self.st.ghost["opaque_calls"] = VInt(cur.t + 1)
        hook = self.reg.opaque_call_hook
        if hook is not None:
            return hook(self, fv, args, kwargs)
        if self.choose([z3.BoolVal(True), z3.BoolVal(True)]) == 1:
            raise PyRaise(VExc("Exception", [], exact=False))
        return VObj(self.fresh("callret", ObjSort))

    def call_lambda(self, lam, args, kwargs):
        node = lam.node
        saved = self.st.env
        env = dict(lam.env)
        params = [a.arg for a in node.args.args]
        for p, a in zip(params, args):
            env[p] = a
        env.update(kwargs)
        self.st.env = env
        try:
            if isinstance(node, ast.Lambda):
                return self.ev(node.body)
            try:
                self.exec_block(node.body)
            except ReturnSig as r:
                return r.value
            return VNone
        finally:
            self.st.env = saved

    # ------------------------------------------------------------------ repo functions
    def bind_params(self, fi, args, kwargs):
        a = fi.node.args
        names = [x.arg for x in a.posonlyargs + a.args]
        if fi.kind == "class":
            args = [VClass(fi.cls, fi.module)] + list(args)
        binding = {}
        if args and isinstance(args[-1], VStar):
            if a.vararg is None or any(isinstance(x, VStar) for x in args[:-1]):
                raise Unsupported("opaque *args passed to a function without *args")
            binding[a.vararg.arg] = args[-1].obj
            args = args[:-1]
            if len(args) > len(names):
                raise Unsupported("opaque *args after surplus positionals")
        if "**" in kwargs:
            kwargs = dict(kwargs)
            kw = kwargs.pop("**")
            if a.kwarg is None:
                raise Unsupported("opaque **kwargs passed to a function without **kwargs")
            binding[a.kwarg.arg] = kw
        if len(args) > len(names):
            if a.vararg is None:
                raise PyRaise(VExc("TypeError", []))
            binding[a.vararg.arg] = VTuple(args[len(names):])
            args = args[: len(names)]
        for nme, v in zip(names, args):
            binding[nme] = v
        for k, v in kwargs.items():
            if k in binding:
                raise PyRaise(VExc("TypeError", []))
            if k not in names and k not in [x.arg for x in a.kwonlyargs]:
                raise Unsupported("unexpected keyword %s for %s" % (k, fi.fid))
            binding[k] = v
        defaults = a.defaults
        for nme, d in zip(names[len(names) - len(defaults):], defaults):
            if nme not in binding:
                binding[nme] = self.ev(d)
        for x, d in zip(a.kwonlyargs, a.kw_defaults):
            if x.arg not in binding and d is not None:
                binding[x.arg] = self.ev(d)
        for nme in names:
            if nme not in binding:
                raise PyRaise(VExc("TypeError", []))
        if a.vararg is not None and a.vararg.arg not in binding:
            binding[a.vararg.arg] = VTuple([])
        if a.kwarg is not None and a.kwarg.arg not in binding:
            binding[a.kwarg.arg] = self.new_box(EmptyV("dict"))
        return binding

    def call_function(self, fi, args, kwargs, node=None):
        hook = self.reg.func_hooks.get(fi.fid)
        if hook is not None and fi.fid != self.fid:
            return hook(self, args, kwargs)
        c = self.reg.contracts.get(fi.fid)
        top = self.reg.contracts.get(self.fid)
        use_contract = c is not None and fi.fid != self.fid and not (top and fi.fid in top.inline_callees) and not self.force_inline
        if self.spec_mode:
            if c is not None and c.pure:
                return self.inline(fi, args, kwargs)
            raise Unsupported("call of %s in a specification" % fi.fid)
        if fi.fid == self.fid.split("@")[0] and not (top and fi.fid in top.inline_callees):
            # a recursive call (also directly from the top-level body): the function's own contract (partial correctness)
            c = self.reg.contracts.get(self.fid) or c
            if c is None:
                raise Unsupported("recursion without contract")
            use_contract = True
        if use_contract:
            return self.apply_contract(c, self.bind_params(fi, args, kwargs), fi.fid)
        if c is None and any((isinstance(d, ast.Name) and d.id == "abstractmethod") or (isinstance(d, ast.Attribute) and d.attr == "abstractmethod") for d in fi.node.decorator_list):
            # an interface method: its body says nothing about what implementations do; without a contract the call is outside the proof
            raise Unsupported("call of abstract method %s without a contract" % fi.fid)
        return self.inline(fi, args, kwargs)

    HARMLESS_DECORATORS = {"staticmethod", "classmethod", "property", "abstractmethod", "setter", "getter", "wraps", "overload"}

    def check_decorators(self, fi):
        """A decorator may change what a call of the function does (a cache, a retry, a wrapper): only the ones that do not are ignored; any other
        decorator on a function whose BODY the proof uses puts the function outside the subset (exit 2), unless the contract module lists it."""
        allowed = self.HARMLESS_DECORATORS | set(getattr(self.reg, "transparent_decorators", ())) | {"lru_cache", "cache"}
        for d in fi.node.decorator_list:
            t = d.func if isinstance(d, ast.Call) else d
            dn = t.id if isinstance(t, ast.Name) else (t.attr if isinstance(t, ast.Attribute) else None)
            if dn not in allowed:
                raise Unsupported("function %s carries the decorator %s, whose effect on calls is not modelled" % (fi.fid, ast.unparse(d)))

    def inline(self, fi, args, kwargs):
        if self.call_depth > 12:
            raise Unsupported("inlining depth exceeded at %s" % fi.fid)
        self.check_decorators(fi)
        if any((x.func if isinstance(x, ast.Call) else x) is not None and
               (((x.func if isinstance(x, ast.Call) else x).id if isinstance((x.func if isinstance(x, ast.Call) else x), ast.Name) else getattr((x.func if isinstance(x, ast.Call) else x), "attr", None)) in ("lru_cache", "cache"))
               for x in fi.node.decorator_list) and not self.spec_mode:
            # functools.lru_cache / cache: the body ran on SOME earlier argument tuple that compares (and hashes) equal to this one -- equal is not identical
            # (True == 1 == 1.0): every object argument is replaced by an arbitrary equal object; the cached result is what the body gives for those
            new_args = []
            for a in args:
                if isinstance(a, VObj):
                    b = VObj(self.fresh("cached_key", ObjSort))
                    self.assume(self.equal(a, b))
                    new_args.append(b)
                else:
                    new_args.append(a)
            args = new_args
        binding = self.bind_params(fi, args, kwargs)
        saved_env, saved_frame = self.st.env, self.frame
        self.st.env = binding
        self.frame = Frame(fi, binding)
        self.call_depth += 1
        self.inlined.add(fi.fid)
        try:
            try:
                self.exec_block(fi.node.body)
            except ReturnSig as r:
                return r.value
            return VNone
        finally:
            self.call_depth -= 1
            self.st.env, self.frame = saved_env, saved_frame

    # ------------------------------------------------------------------ contracts at call sites
    def apply_contract(self, c, binding, callee_name):
        saved_cm = getattr(self, "_callee_mod", None)
        self._callee_mod = callee_name.split(":")[0] if (":" in callee_name and self.src.has_func(callee_name.split("@")[0])) else None
        try:
            return self._apply_contract(c, binding, callee_name)
        finally:
            self._callee_mod = saved_cm

    def _apply_contract(self, c, binding, callee_name):
        self.used_contracts.add(c.fid)
        for fv in c.labels.get("free_vars", {}):
            if fv not in binding and fv in self.st.env:
                binding[fv] = self.st.env[fv]      # a nested function's captured variable: the caller's current value
        # typed view of the arguments (e.g. None passed for an Obj parameter)
        for p, ty in c.types.items():
            if p in binding and p != "return":
                binding[p] = self.coerce(binding[p], ty)
        top = self.reg.contracts.get(self.fid)
        cg = (top.labels.get("callee_ghosts", {}) if top else {}).get(c.fid)
        if cg:
            # the caller instantiates the callee's logical (ghost) parameters: expressions over the caller's own variables
            for g, expr in cg.items():
                self.st.ghost[g] = self.eval_spec_value(expr)
        pre = self.st.snapshot()
        for j, cl in enumerate(c.requires):
            self.prove_clause("pre:%s/%d" % (callee_name, j), cl, kind="callee-precondition", spec_env=binding, old=pre, env={})
        # outcome
        excs = list(dict.fromkeys(list(c.when_raises) + list(c.raises)))
        conds, labels = [], []
        when = {e: self.eval_clause(c.when_raises[e], spec_env=binding, old=pre, env={}) for e in c.when_raises}
        normal_cond = z3.And(*[z3.Not(w) for w in when.values()]) if when else z3.BoolVal(True)
        conds.append(normal_cond); labels.append(None)
        for e in excs:
            conds.append(when[e] if e in when else z3.BoolVal(True)); labels.append(e)
        i = self.choose(conds) if len(conds) > 1 else 0
        self.havoc_modifies(c, binding)
        if labels[i] is None:
            rty = c.returns
            res = self.sym(rty, "ret_%s!%d" % (callee_name.split(":")[-1], self._bump())) if rty is not None else VNone
            env2 = dict(binding); env2["ret"] = res
            if "result" not in binding:
                env2["result"] = res
            for cl in c.ensures:
                self.assume_clause(cl, spec_env=env2, old=pre, env={})
            if c.labels.get("touch_result") and isinstance(res, VObj):
                self.touch(TObj(), res.t)   # the result is a likely witness of existential goals
            self.step_invariant(top, c, callee_name, "returned")
            return res
        e = labels[i]
        exc = VExc(e.rstrip("+"), [], exact=not e.endswith("+"))
        env3 = dict(binding)
        env3["exc"] = VObj(self.box(exc))
        for cl in c.raises.get(e, []):
            self.assume_clause(cl, spec_env=env3, old=pre, env={})
        self.step_invariant(top, c, callee_name, "raised " + e.rstrip("+"))
        raise PyRaise(exc)

    step_count = 0

    def step_invariant(self, top, c, callee_name, outcome):
        """Crash invariant: the function under verification declares clauses that must hold in EVERY intermediate state, i.e. right after
        each outcome (normal or exceptional) of each callee that modifies anything (its contract has a `modifies` clause) -- a crash leaves
        exactly such a state behind."""
        inv = top.labels.get("step_invariant") if top is not None else None
        if not inv or not c.modifies or self.spec_mode:
            return
        self.step_count += 1
        params = getattr(self, "top_params", {})
        for j, cl in enumerate(inv):
            self.prove_clause("crash-invariant/%d after #%d %s %s" % (j, self.step_count, callee_name, outcome), cl, kind="crash-invariant",
                              spec_env=dict(params), old=self.old_state, env={})

    def havoc_modifies(self, c, binding):
        for path in c.modifies:
            if path.startswith("ghost:"):
                g = path[6:]
                if g in self.st.ghost:
                    self.st.ghost[g] = self.havoc_value(self.st.ghost[g], "g_" + g)
                continue
            if path.startswith("heap:"):
                a = path[5:].split("#")[0]
                ty, _ = self.reg.attrs[a]
                if isinstance(ty, TSet):
                    comps = {a + "#mem": z3.ArraySort(ty.e.sort(), z3.BoolSort()), a + "#count": z3.IntSort()}
                elif isinstance(ty, TList):
                    comps = {a + "#arr": z3.ArraySort(z3.IntSort(), ty.e.sort()), a + "#len": z3.IntSort()}
                else:
                    comps = {a: ty.sort()}
                for cn, srt in comps.items():
                    self.heap_component(cn, srt)
                    self.st.objheap[cn] = self.fresh("heap_" + cn, self.st.objheap[cn].sort())
                continue
            parts = path.split(".")
            base = binding[parts[0]]
            for p in parts[1:-1]:
                base = self.get_attr_quiet(base, p)
            last = parts[-1]
            if isinstance(base, VOpt):
                base = base.val
            if isinstance(base, VEnt):
                fields = list(self.reg.entities[base.cls]) if last == "*" else [last]
                for f in fields:
                    if (base.oid, f) not in self.st.fields:
                        # a field this entity view does not carry (the callee's contract was written for a richer view of the class): nothing to havoc
                        continue
                    v = self.st.fields[(base.oid, f)]
                    if isinstance(v, VCont):
                        loc = ("f", base.oid, f)
                        if loc not in self.st.conts:
                            # a freshly constructed entity whose container field is still the "unset" placeholder: the callee (its __init__) fills it
                            # with an arbitrary container of the declared type
                            self._ctr += 1
                            self.st.fields[(base.oid, f)] = self.sym(self.reg.entities[base.cls][f], "m_%s_%s!%d" % (base.cls, f, self._ctr))
                            continue
                        self.st.conts[loc] = self.havoc_cont(self.st.conts[loc], "m_%s_%s" % (base.cls, f))
                    elif isinstance(v, VEnt) or (isinstance(v, VOpt) and isinstance(v.val, VEnt) and not z3.is_true(z3.simplify(v.isnone))):
                        pass  # reference fields are not re-pointed by callees unless listed with their own fields
                    else:
                        fty = self.reg.entities[base.cls].get(f)
                        inner = fty.inner if isinstance(fty, TOpt) else fty
                        if isinstance(inner, TEnt):
                            # an unset reference field the callee may fill: a fresh object of the declared class (allocated by the callee)
                            self._ctr += 1
                            self.st.fields[(base.oid, f)] = self.sym(fty, "m_%s_%s!%d" % (base.cls, f, self._ctr))
                        elif v is VNone and fty is not None and not isinstance(fty, TObj):
                            self._ctr += 1
                            self.st.fields[(base.oid, f)] = self.sym(fty, "m_%s_%s!%d" % (base.cls, f, self._ctr))
                        else:
                            self.st.fields[(base.oid, f)] = self.havoc_value(v, "m_%s_%s" % (base.cls, f))
            elif isinstance(base, VObj):
                ty, mut = self.reg.attrs[last]
                arr = self.heap_arr(last, ty)
                self.st.objheap[last] = z3.Store(arr, base.t, self.fresh("m_" + last, ty.sort()))
            elif isinstance(base, VCont) and len(parts) == 1:
                self.set_cont(base, self.havoc_cont(self.cont(base), "m_" + parts[0]))
            else:
                raise Unsupported("modifies path %s" % path)

    def get_attr_quiet(self, base, name):
        sm = self.spec_mode
        self.spec_mode += 1
        try:
            return self.get_attr(base, name)
        finally:
            self.spec_mode = sm

    # ------------------------------------------------------------------ spec-mode evaluation
    def eval_clause(self, text, spec_env=None, old=None, env=None):
        """Evaluate a clause string to a z3 Bool in the current state (spec mode)."""
        node = self.parse_clause(text)
        saved = (self.spec_env, self.old_state, self.st.env)
        self.spec_env = dict(spec_env or {})
        if old is not None:
            self.old_state = old
        if env is not None:
            self.st.env = env
        self.spec_mode += 1
        try:
            return self.truth(self.ev(node))
        finally:
            self.spec_mode -= 1
            self.spec_env, self.old_state = saved[0], saved[1]
            self.st.env = saved[2]

    def parse_clause(self, text):
        if text not in self.clause_cache:
            self.clause_cache[text] = ast.parse(split_tag(text)[1].strip(), mode="eval").body
        return self.clause_cache[text]

    def in_view(self, text, assuming=False):
        """Property view: when a check runs for one property, clauses tagged for other properties only are left out
        (assuming less is sound; their obligations belong to the other property's check).  A property may name other
        properties whose clauses it *assumes* without proving them (`assume_props`): those clauses are obligations of the
        named property's own check over the same functions (modular: proved there, used here)."""
        prop = self.opts.get("prop")
        tags = split_tag(text)[0]
        if tags is not None and "effect" in tags:
            # a ghost effect defined by the contract itself ("this function returned normally"): assumed at call sites, nothing to prove in the body
            return assuming
        if prop is None or tags is None or prop in tags:
            return True
        return assuming and any(t in self.opts.get("assume_props", ()) for t in tags)

    def assume_clause(self, text, spec_env=None, old=None, env=None):
        if not self.in_view(text, assuming=True):
            return
        self.pol = 1
        self.assume(self.eval_clause(text, spec_env, old, env))

    def prove_clause(self, name, text, kind="post", spec_env=None, old=None, env=None, level=None):
        if not self.in_view(text):
            return
        self.pol = -1
        g = self.eval_clause(text, spec_env, old, env)
        tags, body = split_tag(text)
        self.oblige(name, g, kind=kind, level=level, info={"clause": body, "tags": tags, "clause_text": text})

    def call_spec(self, name, args):
        params, body = self.reg.specs[name]
        saved = self.spec_env
        env = dict(self.spec_env)
        env.update(dict(zip(params, args)))
        self.spec_env = env
        self.spec_mode += 1
        try:
            return self.ev(self.parse_clause(body))
        finally:
            self.spec_mode -= 1
            self.spec_env = saved

    pure_code = 0

    def in_state(self, st, spec_env, old, fn, pure_code=False):
        """Evaluate fn on another state without branching.  pure_code: the expression is *code* (a comprehension element or
        filter) evaluated as a pure function of the element -- Python operator semantics (`==` is not identity) still apply."""
        saved = (self.st, self.spec_env, self.old_state, self.pure_code)
        self.st = st
        self.spec_env = spec_env
        self.old_state = old
        self.spec_mode += 1
        if pure_code:
            self.pure_code += 1
        try:
            return fn()
        finally:
            self.spec_mode -= 1
            self.st, self.spec_env, self.old_state, self.pure_code = saved

    # spec builtins ------------------------------------------------------
    def sp_old(self, n):
        if self.old_state is None:
            raise Unsupported("old() without a pre-state")
        snap = self.old_state.snapshot()
        snap.env = self.st.env  # old() rewinds the heap only; locals keep their current values (as in Dafny)
        return self.in_state(snap, self.spec_env, self.old_state, lambda: self.ev(n.args[0]))

    def sp_implies(self, n):
        self.pol = -self.pol
        try:
            a = self.truth(self.ev(n.args[0]))
        finally:
            self.pol = -self.pol
        b = self.truth(self.ev(n.args[1]))
        return VBool(z3.Implies(a, b))

    def sp_iff(self, n):
        saved, self.pol = self.pol, 0
        try:
            return VBool(self.truth(self.ev(n.args[0])) == self.truth(self.ev(n.args[1])))
        finally:
            self.pol = saved

    def sp_ite(self, n):
        saved, self.pol = self.pol, 0
        try:
            c = self.truth(self.ev(n.args[0]))
        finally:
            self.pol = saved
        return self.ite(c, self.ev(n.args[1]), self.ev(n.args[2]))

    def sp_cast(self, n):
        return self.ev(n.args[1])

    def sp_forall(self, n):
        """forall(T.., lambda xs: body) == a fresh Bool p with  (forall xs. p => body)  and  (not p => not body[sk])."""
        *tnodes, lam = n.args
        tys = [self.spec_type(t) for t in tnodes]
        params = [a.arg for a in lam.args.args]
        if self.pol < 0 and not self.bound_ids and self.collector is None:
            # goal position: proving (forall xs. body) is proving body at fresh constants; nested quantifiers then see no bound variable
            sks = [self.fresh("sk_" + prm, ty.sort()) for prm, ty in zip(params, tys)]
            for sk, ty in zip(sks, tys):
                self.touch(ty, sk)
            saved_env = self.spec_env
            env = dict(self.spec_env)
            for prm, t, ty in zip(params, sks, tys):
                env[prm] = self.from_term(t, ty)
            self.spec_env = env
            try:
                return VBool(self.truth(self.ev(lam.body)))
            finally:
                self.spec_env = saved_env
        p = self.fresh("forall", z3.BoolSort())
        snap = self.st.snapshot()
        env0, old0 = dict(self.spec_env), self.old_state
        holder = {}

        def body(*terms):
            env = dict(env0)
            for prm, t, ty in zip(params, terms, tys):
                env[prm] = self.from_term(t, ty)
            return self.in_state(snap.snapshot(), env, old0, lambda: self.truth(self.ev(lam.body)))

        def fn(*terms):
            b = body(*terms)
            holder["main"] = b
            return z3.Implies(p, b)
        fn.main = lambda: holder["main"]
        pol = self.pol
        u = self.add_universal(tys, fn, "forall", keep=(pol >= 0))
        if pol <= 0:
            sks = [self.fresh("sk_" + prm, ty.sort()) for prm, ty in zip(params, tys)]
            for sk, ty in zip(sks, tys):
                self.touch(ty, sk)
            self.assume(z3.Implies(z3.Not(p), z3.Not(z3.substitute(u.body_main, *zip(u.vars, sks)))))
            for side in u.side:
                self.assume(z3.substitute(side, *zip(u.vars, sks)))
            for ty_, tmpl in u.touches:
                self.touch(ty_, z3.substitute(tmpl, *zip(u.vars, sks)))
        return VBool(p)

    def spec_type(self, node):
        if isinstance(node, ast.Name):
            t = {"str": TStr, "int": TInt, "bool": TBool, "obj": TObj()}.get(node.id)
            if t is not None:
                return t
            if node.id in self.reg.records:
                return self.reg.records[node.id]
        raise Unsupported("spec type")

    def sp_dsum(self, n):
        d = self.cont(self.ev(n.args[0]))
        return VInt(d.sums[n.args[1].value])

    def sp_dnonneg(self, n):
        d = self.cont(self.ev(n.args[0]))
        return VBool(d.nonneg[n.args[1].value])

    def sp_stamp(self, n):
        o = self.cont(self.ev(n.args[0]))
        k = self.to_term(self.ev(n.args[1]), o.ty.k)
        self.touch(o.ty.k, k)
        return VInt(o.stamp[k])

    def sp_pos(self, n):
        """pos(lst, x): index of x in a duplicate-free list with ghost inverse (valid iff x in lst)."""
        l = self.cont(self.ev(n.args[0]))
        if l.idx is None:
            raise Unsupported("pos() on a list without ghost inverse")
        k = self.to_term(self.ev(n.args[1]), l.ty.e)
        self.touch(l.ty.e, k)
        return VInt(l.idx[k])

    def sp_same(self, n):
        a, b = self.ev(n.args[0]), self.ev(n.args[1])
        return VBool(self.equal(a, b, identity=True))

    def sp_ghost(self, n):
        return self.st.ghost[n.args[0].value]

    def sp_stack_unchanged(self, n):
        """stack_unchanged(<stack expr>): the call stack holds the same frames as at entry."""
        cur = self.cont(self.ev(n.args[0]))
        snap = self.old_state.snapshot()
        snap.env = self.st.env
        old = self.in_state(snap, self.spec_env, self.old_state, lambda: self.cont(self.ev(n.args[0])))
        if self.pol == 1 and not self.bound_ids:
            # assumed (callee postcondition / loop invariant): the stack is what it was
            self.set_cont(self.ev(n.args[0]), old)
            return VBool(True)
        same_items = len(cur.items) == len(old.items) and all(isinstance(a, VEnt) and isinstance(b, VEnt) and a.oid == b.oid for a, b in zip(cur.items, old.items))
        same_top = isinstance(cur.prefix_top, VEnt) and isinstance(old.prefix_top, VEnt) and cur.prefix_top.oid == old.prefix_top.oid
        if not (same_items and same_top):
            return VBool(False)
        return VBool(cur.prefix_some == old.prefix_some)

    def sp_truthy(self, n):
        return VBool(self.truth(self.ev(n.args[0])))

    def sp_isnone(self, n):
        return VBool(self.equal(self.ev(n.args[0]), VNone))

    # ------------------------------------------------------------------ constructors
    def construct(self, cls, args, kwargs, node):
        name = cls.name
        if name not in self.reg.entities and (name in BUILTIN_EXC or (name in self.reg.exc_bases and is_exc_subclass(self.reg, self.src, name, "BaseException"))):
            return VExc(name, args)
        top_ = self.reg.contracts.get(self.fid)
        local_ = (top_.labels.get("constructors") if top_ else None) or {}
        if name in local_:
            # a constructor summarised for the verification of THIS function only (stated in its contract's labels and in the module's assumptions)
            return local_[name](self, args, kwargs)
        if name in self.reg.constructors:
            return self.reg.constructors[name](self, args, kwargs)
        if name in self.reg.records:
            rty = self.reg.records[name]
            fnames = [f for f, _ in rty.fields]
            vals = dict(zip(fnames, args))
            vals.update(kwargs)
            if set(vals) != set(fnames):
                raise Unsupported("record construction %s with %r" % (name, list(vals)))
            return VRec(rty.mk(*[self.to_term(vals[f], t) for f, t in rty.fields]), rty)
        if name in self.reg.entities:
            mod, q = self.reg.entity_methods[name]
            oid = self.new_oid(name)
            ent = VEnt(oid, name)
            for f, fty in self.reg.entities[name].items():
                # class-level defaults are None in this code base
                self.st.fields[(oid, f)] = VNone if not isinstance(fty, (TDict, TOrdSet, TList, TSet)) else self.new_box(EmptyV("unset"))
            init = self.src.find_method(mod, q, "__init__")
            if init is not None:
                self.call_function(init, [ent] + args, kwargs, node)
            return ent
        hook = self.reg.constructors.get(name)
        if hook is not None:
            return hook(self, args, kwargs)
        if name in self.reg.opaque_classes:
            return self.construct_opaque(name, args, kwargs)
        raise Unsupported("construction of %s" % name)

    def construct_opaque(self, name, args, kwargs):
        """Opaque class whose __init__ only stores its parameters into same-named attributes (checked on the real source)."""
        mod = self.reg.opaque_classes[name]
        init = self.src.find_method(mod, name, "__init__")
        if init is None:
            raise Unsupported("opaque class %s has no __init__" % name)
        params = init.params[1:]
        for st in S.strip_body(init.node.body):
            ok = (isinstance(st, ast.Assign) and len(st.targets) == 1 and isinstance(st.targets[0], ast.Attribute)
                  and isinstance(st.targets[0].value, ast.Name) and st.targets[0].value.id == "self"
                  and isinstance(st.value, ast.Name) and st.value.id == st.targets[0].attr and st.value.id in params)
            if not ok:
                raise Unsupported("__init__ of opaque class %s is not a plain field initialiser" % name)
        binding = self.bind_params(init, [VNone] + list(args), kwargs)
        o = self.fresh_obj(name)
        self.assume(self.class_pred(name)(o))
        for p_ in params:
            a = self.reg.attrs.get(p_)
            if a is None:
                raise Unsupported("attribute %s of opaque class %s has no declared type" % (p_, name))
            ty, mutable = a
            val = binding[p_]
            if isinstance(ty, (TSet, TList)):
                if not isinstance(val, VCont):
                    raise Unsupported("container attribute %s initialised with %r" % (p_, val))
                self.materialize(val, ty)
                self.set_cont(VCont(("h", p_, o)), self.cont(val))
                src = self.loc(val)
                if src[0] == "b":
                    self.st.alias[src] = ("h", p_, o)
            elif mutable:
                self.st.objheap[p_] = z3.Store(self.heap_arr(p_, ty), o, self.to_term(val, ty))
            else:
                f = z3.Function("attr_" + p_, ObjSort, ty.sort())
                self.assume(f(o) == self.to_term(val, ty))
        return VObj(o, name)

    # ------------------------------------------------------------------ builtins
    def call_builtin(self, name, args, kwargs, node):
        h = getattr(self, "bi_" + name.replace(".", "_"), None)
        if h is not None:
            return h(args, kwargs, node)
        ext = self.reg.externals.get(name)
        if ext is not None:
            binding = {"arg%d" % i: a for i, a in enumerate(args)}
            binding.update(kwargs)
            return self.apply_contract(ext, binding, name)
        hook = self.reg.constructors.get(name)
        if hook is not None:
            return hook(self, args, kwargs)
        raise Unsupported("builtin/external %s" % name)

    def bi_len(self, args, kwargs, node):
        v = args[0]
        if isinstance(v, VCont):
            c = self.cont(v)
            if isinstance(c, EmptyV): return VInt(0)
            if isinstance(c, ListV): return VInt(c.n)
            return VInt(c.count)
        if isinstance(v, VStr): return VInt(z3.Length(v.t))
        if isinstance(v, VTuple): return VInt(len(v.items))
        if isinstance(v, VRec) and v.ty.name in getattr(self.reg, "namedtuples", ()):
            return VInt(len(v.ty.fields))   # a collections.namedtuple: its length is its number of fields
        raise Unsupported("len of %r" % (v,))

    def bi_enumerate(self, args, kwargs, node):
        return VTuple([VBuiltin("enumerate"), args[0]])

    def bi_tqdm_auto_tqdm(self, args, kwargs, node):
        return args[0]  # progress bar wrapper: iterates the same elements (assumed)

    def bi_type(self, args, kwargs, node):
        v = args[0]
        if isinstance(v, VExc):
            return VClass(v.cls)
        raise Unsupported("type(x)")

    def bi_max(self, args, kwargs, node):
        return self._minmax(args, kwargs, True)

    def bi_min(self, args, kwargs, node):
        return self._minmax(args, kwargs, False)

    def _minmax(self, args, kwargs, is_max):
        if kwargs or len(args) < 2 or not all(isinstance(a, (VInt, VReal)) for a in args):
            raise Unsupported("max/min of this shape")
        real = any(isinstance(a, VReal) for a in args)
        cur = args[0]
        for a in args[1:]:
            x = z3.ToReal(cur.t) if real and isinstance(cur, VInt) else cur.t
            y = z3.ToReal(a.t) if real and isinstance(a, VInt) else a.t
            t = z3.If((y > x) if is_max else (y < x), y, x)
            cur = VReal(t) if real else VInt(t)
        return cur

    def bi_bool(self, args, kwargs, node):
        return VBool(self.truth(args[0])) if args else VBool(False)

    def bi_int(self, args, kwargs, node):
        if args and isinstance(args[0], VReal):
            r = args[0].t       # int(float) truncates toward zero
            return VInt(z3.If(r >= 0, z3.ToInt(r), -z3.ToInt(-r)))
        if args and isinstance(args[0], (VInt, VBool)):
            return VInt(args[0].t if isinstance(args[0], VInt) else z3.If(args[0].t, 1, 0))
        raise Unsupported("int(x)")

    def bi_dict(self, args, kwargs, node):
        if args or kwargs:
            raise Unsupported("dict(...) with arguments")
        return self.new_box(EmptyV("dict"))

    def bi_list(self, args, kwargs, node):
        if args:
            raise Unsupported("list(x)")
        return self.new_box(EmptyV("list"))

    def bi_set(self, args, kwargs, node):
        if args:
            raise Unsupported("set(x)")
        return self.new_box(EmptyV("set"))

    def bi_collections_deque(self, args, kwargs, node):
        if args:
            if isinstance(args[0], VCont) and isinstance(self.cont(args[0]), OrdSetV):
                return self.new_box(self.cont(args[0]))
            raise Unsupported("deque(x)")
        return self.new_box(EmptyV("deque"))

    def bi_weakref_WeakValueDictionary(self, args, kwargs, node):
        return self.new_box(EmptyV("weakdict"))

    def bi_bytes(self, args, kwargs, node):
        if not args:
            return VObj(z3.Const("py_empty_bytes", ObjSort), "bytes")
        raise Unsupported("bytes(x)")

    def bi_str(self, args, kwargs, node):
        if getattr(self.reg, "str_may_raise", False) and args and isinstance(args[0], VObj) and not self.spec_mode:
            # str(x) runs x.__str__: user code, which may raise or return a non-string (TypeError) -- opted into by contract modules whose functions
            # must be total on arbitrary objects
            if self.choose([z3.BoolVal(True), z3.BoolVal(True)]) == 1:
                raise PyRaise(VExc("Exception", [], exact=False))
        return VStr(self.to_str(args[0]))

    def bi_range(self, args, kwargs, node):
        if len(args) == 1:
            lo, hi = VInt(0), args[0]
        elif len(args) == 2:
            lo, hi = args
        else:
            raise Unsupported("range with step")
        n = z3.If(hi.t - lo.t < 0, 0, hi.t - lo.t)
        arr = self.fresh("range", z3.ArraySort(z3.IntSort(), z3.IntSort()))
        lot = lo.t
        self.add_universal([TInt], lambda i: arr[i] == lot + i, "range")
        return self.new_box(ListV(TList(TInt), arr, n))

    def bi_isinstance(self, args, kwargs, node):
        v, c = args
        classes = c.items if isinstance(c, VTuple) else [c]
        return VBool(z3.Or(*[self.isinstance1(v, k) for k in classes]))

    def class_name_of(self, k):
        if isinstance(k, VClass): return k.name
        if isinstance(k, VBuiltin): return k.name
        raise Unsupported("isinstance class %r" % (k,))

    def isinstance1(self, v, k):
        cname = self.class_name_of(k)
        if cname == "NoneType":
            if isinstance(v, VOpt):
                return v.isnone
            if isinstance(v, VObj):
                return v.t == PyNone
            return z3.BoolVal(v is VNone)
        if isinstance(v, VOpt):
            return z3.And(z3.Not(v.isnone), self.isinstance1(v.val, k))
        if v is VNone:
            return z3.BoolVal(False)
        if isinstance(v, VObj):
            return self.class_pred(cname)(v.t)
        if cname in PY_TYPES:
            return z3.BoolVal(isinstance(v, PY_TYPES[cname]))
        if isinstance(v, (VInt, VBool, VStr, VReal, VTuple)):
            return z3.BoolVal(False)
        if isinstance(v, VRec):
            return z3.BoolVal(v.ty.name == cname)
        if isinstance(v, VCont):
            c = self.cont(v)
            kinds = {"dict": (DictV,), "list": (ListV,), "set": (SetV,)}
            if cname in kinds:
                return z3.BoolVal(isinstance(c, kinds[cname]) or (isinstance(c, EmptyV) and c.kind == cname))
            return z3.BoolVal(False)
        if isinstance(v, VEnt):
            mod, q = self.reg.entity_methods[v.cls]
            seen, stack = set(), [(mod, q)]
            while stack:
                m, cq = stack.pop()
                if cq == cname or cq.split(".")[-1] == cname:
                    return z3.BoolVal(True)
                stack.extend(self.src.class_bases(m, cq))
            return z3.BoolVal(False)
        if isinstance(v, VExc):
            return z3.BoolVal(is_exc_subclass(self.reg, self.src, v.cls, cname))
        raise Unsupported("isinstance(%r, %s)" % (v, cname))

    def class_pred(self, cname):
        f = z3.Function("isinst_" + cname.replace(".", "_"), ObjSort, z3.BoolSort())
        if cname not in self.cls_done:
            self.cls_done.add(cname)
            self.assume(z3.Not(f(PyNone)))
        return f

    def bi_all(self, args, kwargs, node):
        return self.quant_list(args[0], True)

    def bi_any(self, args, kwargs, node):
        return self.quant_list(args[0], False)

    def quant_list(self, v, is_all):
        c = self.cont(v)
        if isinstance(c, EmptyV):
            return VBool(is_all)
        if not isinstance(c, ListV) or not (c.ty.e is TBool or isinstance(c.ty.e, TObj)):
            raise Unsupported("all/any over %r" % (c,))
        b = self.fresh("all" if is_all else "any", z3.BoolSort())
        w = self.fresh("w", z3.IntSort())
        self.touch(TInt, w)
        arr, n = c.arr, c.n
        if isinstance(c.ty.e, TObj):
            # a list of arbitrary objects: all / any go by their truthiness
            class _T:
                def __getitem__(s_, i):
                    return self.truth(VObj(c.arr[i]))
            arr = _T()
        if is_all:
            self.add_universal([TInt], lambda i: z3.Implies(z3.And(b, 0 <= i, i < n), arr[i]), "all")
            self.assume(z3.Implies(z3.Not(b), z3.And(0 <= w, w < n, z3.Not(arr[w]))))
        else:
            self.add_universal([TInt], lambda i: z3.Implies(z3.And(z3.Not(b), 0 <= i, i < n), z3.Not(arr[i])), "any")
            self.assume(z3.Implies(b, z3.And(0 <= w, w < n, arr[w])))
        return VBool(b)

    def bi_hasattr(self, args, kwargs, node):
        raise Unsupported("hasattr")

    # ------------------------------------------------------------------ methods of non-entity values
    def call_method(self, recv, name, args, kwargs, node):
        if isinstance(recv, VCont):
            c = self.cont(recv)
            kind = c.kind if isinstance(c, EmptyV) else type(c).__name__
            h = getattr(self, "m_%s_%s" % (kind, name), None)
            if h is None and isinstance(c, EmptyV):
                h = getattr(self, "m_Empty_%s" % name, None)
            if h is None:
                raise Unsupported("method %s on %s" % (name, kind))
            return h(recv, args, kwargs)
        if isinstance(recv, VRec):
            return self.reg.record_methods[(recv.ty.name, name)](self, recv, args, kwargs)
        if isinstance(recv, VStr):
            h = getattr(self, "m_str_" + name, None)
            if h is None:
                raise Unsupported("str.%s" % name)
            return h(recv, args, kwargs)
        if isinstance(recv, VObj) and name in self.reg.obj_method_hooks:
            if not self.spec_mode and not self.branch(recv.t != PyNone):
                raise PyRaise(VExc("AttributeError", []))
            return self.reg.obj_method_hooks[name](self, recv, args, kwargs)
        if isinstance(recv, VObj):
            c = self.reg.obj_methods.get("%s.%s" % (recv.cls, name)) or self.reg.obj_methods.get(name)
            if not self.spec_mode and not self.branch(recv.t != PyNone):
                raise PyRaise(VExc("AttributeError", []))
            binding = {"self": recv}
            binding.update({"arg%d" % i: a for i, a in enumerate(args)})
            binding.update(kwargs)
            return self.apply_contract(c, binding, "objmethod:" + name)
        raise Unsupported("method %s on %r" % (name, recv))

    # dict methods
    def m_DictV_get(self, recv, args, kwargs):
        d = self.weak_shrink(recv)
        kt = self.to_term(args[0], d.ty.k)
        self.dict_lemmas(d, kt)
        present = self.from_term(d.val[kt], d.ty.v)
        default = args[1] if len(args) > 1 else VNone
        if default is VNone:
            if isinstance(present, VObj):
                return VObj(z3.If(d.has[kt], present.t, PyNone), present.cls)
            return VOpt(z3.Not(d.has[kt]), present)
        if self.branch(d.has[kt]):
            return present
        return default

    def m_DictV_pop(self, recv, args, kwargs):
        if len(args) == 2:
            old = self.dict_del(recv, args[0], missing_ok=True)
            return args[1] if old is None else old
        return self.dict_del(recv, args[0])

    def m_DictV_clear(self, recv, args, kwargs):
        self.dict_clear(recv)
        return VNone

    def m_DictV_keys(self, recv, args, kwargs):
        return recv

    def m_Empty_clear(self, recv, args, kwargs):
        return VNone

    def m_Empty_get(self, recv, args, kwargs):
        return args[1] if len(args) > 1 else VNone

    def m_Empty_pop(self, recv, args, kwargs):
        if len(args) == 2:
            return args[1]
        raise PyRaise(VExc("KeyError", []))

    def m_Empty_append(self, recv, args, kwargs):
        c = self.cont(recv)
        if c.kind == "list":
            self.list_append(recv, args[0])
            return VNone
        if c.kind == "deque":
            self.materialize(recv, TOrdSet(self.type_of(args[0])))
            self.os_append(recv, args[0])
            return VNone
        raise Unsupported("append on empty %s" % c.kind)

    def m_Empty_keys(self, recv, args, kwargs):
        return recv

    # deque-as-ordset methods
    def m_OrdSetV_append(self, recv, args, kwargs):
        self.os_append(recv, args[0]); return VNone

    def m_OrdSetV_remove(self, recv, args, kwargs):
        self.os_remove(recv, args[0]); return VNone

    def m_OrdSetV_popleft(self, recv, args, kwargs):
        return self.os_popleft(recv)

    def m_OrdSetV_pop(self, recv, args, kwargs):
        return self.os_pop_right(recv)

    def m_OrdSetV_appendleft(self, recv, args, kwargs):
        self.os_appendleft(recv, args[0]); return VNone

    def m_OrdSetV_clear(self, recv, args, kwargs):
        o = self.cont(recv)
        self.set_cont(recv, EmptyV("deque"))
        self.materialize(recv, o.ty)
        return VNone

    # set methods
    def m_SetV_add(self, recv, args, kwargs):
        c = self.cont(recv)
        x = self.to_term(args[0], c.ty.e)
        self.touch(c.ty.e, x)
        self.set_cont(recv, c.replace(mem=z3.Store(c.mem, x, True), count=c.count + z3.If(c.mem[x], 0, 1)))
        return VNone

    def set_update(self, recv, other):
        c = self.cont(recv)
        o = self.cont(other)
        if isinstance(o, EmptyV):
            return
        if not isinstance(o, SetV):
            raise Unsupported("set update with %r" % (o,))
        mem2 = self.fresh("union", c.mem.sort())
        a, b = c.mem, o.mem
        self.add_universal([c.ty.e], lambda x: mem2[x] == z3.Or(a[x], b[x]), "set-union")
        cnt = self.fresh("unioncount", z3.IntSort())
        self.assume(z3.And(cnt >= c.count, cnt >= o.count, cnt <= c.count + o.count))
        self.set_cont(recv, c.replace(mem=mem2, count=cnt))

    def m_SetV_update(self, recv, args, kwargs):
        self.set_update(recv, args[0]); return VNone

    # stack (call stack frames)
    def m_StackV_append(self, recv, args, kwargs):
        c = self.cont(recv)
        self.set_cont(recv, c.replace(items=c.items + [args[0]])); return VNone

    def m_StackV_pop(self, recv, args, kwargs):
        c = self.cont(recv)
        if c.items:
            self.set_cont(recv, c.replace(items=c.items[:-1]))
            return c.items[-1]
        if not self.branch(c.prefix_some):
            raise PyRaise(VExc("IndexError", []))
        top = c.prefix_top
        self._ctr += 1
        nc = self.symcont(c.ty, "stackrest!%d" % self._ctr)
        self.set_cont(recv, nc)
        return top

    # list methods
    def m_ListV_append(self, recv, args, kwargs):
        self.list_append(recv, args[0]); return VNone

    # str methods
    def m_str_startswith(self, recv, args, kwargs):
        return VBool(z3.PrefixOf(args[0].t, recv.t))

    def m_str_endswith(self, recv, args, kwargs):
        return VBool(z3.SuffixOf(args[0].t, recv.t))

    def m_str_format(self, recv, args, kwargs):
        s = z3.simplify(recv.t)
        if not z3.is_string_value(s):
            raise Unsupported("format on symbolic template")
        tmpl = s.as_string()
        parts, i, auto = [], 0, 0
        import string
        for lit, field, spec, conv in string.Formatter().parse(tmpl):
            if lit:
                parts.append(z3.StringVal(lit))
            if field is None:
                continue
            if spec or conv:
                raise Unsupported("format spec")
            if field == "":
                v = args[auto]; auto += 1
            elif field.isdigit():
                v = args[int(field)]
            else:
                v = kwargs[field]
            parts.append(self.to_str(v))
        if not parts:
            return VStr("")
        return VStr(z3.Concat(*parts) if len(parts) > 1 else parts[0])

    # ------------------------------------------------------------------ comprehensions
    def comprehension(self, n, kind):
        if len(n.generators) != 1:
            raise Unsupported("nested comprehension")
        g = n.generators[0]
        if g.is_async:
            raise Unsupported("async")
        it = self.iter_view(self.ev(g.iter))
        if isinstance(it, VTuple):
            box = self.new_box(EmptyV("list"))
            saved = dict(self.st.env)
            for x in it.items:
                self.assign(g.target, x)
                if all(self.branch(self.truth(self.ev(c))) for c in g.ifs):
                    self.list_append(box, self.ev(n.elt))
            return box
        if not isinstance(it, VCont):
            raise Unsupported("comprehension over %r" % (it,))
        c = self.cont(it)
        if isinstance(c, EmptyV):
            return self.new_box(EmptyV("list"))
        if not isinstance(g.target, ast.Name):
            raise Unsupported("comprehension target")
        var = g.target.id
        # (a) keys of a dict filtered by a pure predicate, element = the key itself -> duplicate-free list with ghost inverse
        if isinstance(c, DictV) and isinstance(n.elt, ast.Name) and n.elt.id == var and kind == "list":
            c = self.weak_shrink(it)
            arr = self.fresh("keys", z3.ArraySort(z3.IntSort(), c.ty.k.sort()))
            idx = self.fresh("keysidx", z3.ArraySort(c.ty.k.sort(), z3.IntSort()))
            nn = self.fresh("nkeys", z3.IntSort())
            self.assume(z3.And(nn >= 0, nn <= c.count))
            lst = ListV(TList(c.ty.k), arr, nn, idx)
            snap = self.st.snapshot()
            env0 = dict(self.st.env)
            has = c.has

            def member(k):
                def f():
                    self.st.env = dict(env0)
                    self.st.env[var] = self.from_term(k, c.ty.k)
                    conds = [self.truth(self.ev(x)) for x in g.ifs]
                    return z3.And(has[k], *conds)
                return self.in_state(snap.snapshot(), {}, self.old_state, f, pure_code=True)
            self.injlist_facts(lst, member)
            return self.new_box(lst)
        # (a') a recency order filtered by a pure predicate -> recency order (same stamps)
        if isinstance(c, OrdSetV) and isinstance(n.elt, ast.Name) and n.elt.id == var:
            mem2 = self.fresh("fmem", c.mem.sort())
            cnt2 = self.fresh("fcount", z3.IntSort())
            self.assume(z3.And(cnt2 >= 0, cnt2 <= c.count))
            snap = self.st.snapshot()
            env0 = dict(self.st.env)
            mem = c.mem

            def member2(k):
                def f():
                    self.st.env = dict(env0)
                    self.st.env[var] = self.from_term(k, c.ty.k)
                    conds = [self.truth(self.ev(x)) for x in g.ifs]
                    return z3.And(mem[k], *conds)
                return self.in_state(snap.snapshot(), {}, self.old_state, f, pure_code=True)
            self.add_universal([c.ty.k], lambda k: mem2[k] == member2(k), "filtered-order")
            return self.new_box(OrdSetV(c.ty, mem2, c.stamp, cnt2, c.clock))
        # (b) pure map over a list
        if isinstance(c, ListV) and not g.ifs:
            try:
                return self.pure_map(n, var, c)
            except Unsupported as e:
                if "specification" not in str(e) and "spec mode" not in str(e):
                    raise
        # (b') pure filter(+map) over a list: result characterised through the ghost rank array
        if isinstance(c, ListV) and g.ifs:
            try:
                return self.pure_filter(n, g, var, c)
            except Unsupported as e:
                if "specification" not in str(e) and "spec mode" not in str(e):
                    raise
        # (c) general case: a loop with an invariant
        if isinstance(c, ListV):
            return self.comp_as_loop(n, g, it)
        raise Unsupported("comprehension over %s" % type(c).__name__)

    def pure_map(self, n, var, c):
        snap = self.st.snapshot()
        env0 = dict(self.st.env)
        probe = self.fresh("ci", z3.IntSort())

        def elt(i):
            def f():
                self.st.env = dict(env0)
                self.st.env[var] = self.from_term(c.arr[i], c.ty.e)
                return self.ev(n.elt)
            return self.in_state(snap.snapshot(), {}, self.old_state, f, pure_code=True)
        v0 = elt(probe)
        ety = self.type_of(v0)
        arr = self.fresh("map", z3.ArraySort(z3.IntSort(), ety.sort()))
        n_ = c.n
        self.add_universal([TInt], lambda i: z3.Implies(z3.And(0 <= i, i < n_), arr[i] == self.to_term(elt(i), ety)), "map")
        return self.new_box(ListV(TList(ety), arr, c.n))

    def pure_filter(self, n, g, var, c):
        snap = self.st.snapshot()
        env0 = dict(self.st.env)

        def at(i, what):
            def f():
                self.st.env = dict(env0)
                self.st.env[var] = self.from_term(c.arr[i], c.ty.e)
                if what == "cond":
                    return z3.And(*[self.truth(self.ev(x)) for x in g.ifs])
                return self.ev(n.elt)
            return self.in_state(snap.snapshot(), {}, self.old_state, f, pure_code=True)
        probe = self.fresh("fi", z3.IntSort())
        ety = self.type_of(at(probe, "elt"))
        arr = self.fresh("filt", z3.ArraySort(z3.IntSort(), ety.sort()))
        rank = self.fresh("rank", z3.ArraySort(z3.IntSort(), z3.IntSort()))
        n_ = c.n
        self.touch(TInt, z3.IntVal(0))
        self.touch(TInt, n_)
        self.assume(rank[0] == 0)
        self.add_universal([TInt], lambda i: z3.Implies(z3.And(0 <= i, i < n_), z3.And(
            rank[i + 1] == rank[i] + z3.If(at(i, "cond"), 1, 0),
            z3.Implies(at(i, "cond"), arr[rank[i]] == self.to_term(at(i, "elt"), ety)))), "filter-step")
        # derived by induction from the step rule (trusted): ranks are monotone, hence bounded by rank[n]
        self.add_universal([TInt], lambda i: z3.Implies(z3.And(0 <= i, i <= n_), z3.And(0 <= rank[i], rank[i] <= rank[n_])), "filter-rank-bounds")
        lst = ListV(TList(ety), arr, rank[n_])
        lst.rank = rank
        return self.new_box(lst)

    def sp_rank(self, n):
        """rank(filtered_list, i): how many of the first i source elements passed the filter."""
        l = self.cont(self.ev(n.args[0]))
        r = getattr(l, "rank", None)
        if r is None:
            raise Unsupported("rank() on a list that is not a filter comprehension")
        i = self.ev(n.args[1])
        self.touch(TInt, i.t)
        return VInt(r[i.t])

    def comp_as_loop(self, n, g, it):
        res = "_comp%d" % self._bump()
        self.st.env[res] = self.new_box(EmptyV("list"))
        ety = self.frame_contract().labels.get("comp_types", {}).get(self.loop_ordinal_of(self.frame.fi, n)) if self.frame_contract() is not None else None
        if ety is None:
            raise Unsupported("comprehension with effects needs labels['comp_types'][ordinal]")
        self.materialize(self.st.env[res], TList(ety))
        self.st.env["comp_result"] = self.st.env[res]
        body = [ast.Expr(ast.Call(ast.Attribute(ast.Name(res, ast.Load()), "append", ast.Load()), [n.elt], []))]
        if g.ifs:
            body = [ast.If(ast.BoolOp(ast.And(), g.ifs) if len(g.ifs) > 1 else g.ifs[0], body, [])]
        loop = ast.For(g.target, g.iter, body, [])
        ast.fix_missing_locations(loop)
        self.loop(loop, g.target, it, ordinal=self.loop_ordinal_of(self.frame.fi, n))
        return self.st.env[res]
