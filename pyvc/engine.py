"""pyvc engine: symbolic execution of real Python function bodies into verification conditions.

Execution model: *replay with a decision script*.  A function body is executed in direct style on
one mutable State; every nondeterministic choice (branch on a symbolic condition, exception or
not, callee outcome) asks `choose`, which follows the current script and queues the untaken
feasible alternatives.  Each complete run is one path; obligations are de-duplicated by
(decision prefix, ordinal).
"""
import ast
import builtins
import itertools
import time

import z3

from .ty import *  # noqa
from . import source as S


class PathEnd(Exception):
    pass


class Unsupported(Exception):
    pass


class PyRaise(Exception):
    def __init__(self, exc):
        self.exc = exc


class ReturnSig(Exception):
    def __init__(self, value):
        self.value = value


class BreakSig(Exception):
    pass


class ContinueSig(Exception):
    pass


class Universal:
    """forall vars. body -- body is a z3 formula over the bound constants `vars`; instantiated by substitution."""

    def __init__(self, tys, vars_, body, label=""):
        self.tys, self.vars, self.body, self.label = list(tys), list(vars_), body, label


class Facts:
    """Everything assumed on the current path: ground facts, universals, the ground-term pools."""

    def __init__(self):
        self.pc = []
        self.ids = set()
        self.univ = []
        self.ground = {}
        self.ground_ids = set()
        self.gen = {}
        self.done = set()
        self.sizes = {}

    def add(self, f):
        i = f.get_id()
        if i in self.ids:
            return
        self.ids.add(i)
        self.pc.append(f)


class EmptyV:
    """Freshly built empty container whose element types are not known yet."""

    def __init__(self, kind):
        self.kind = kind  # dict | deque | weakdict | list | set


class Obligation:
    def __init__(self, name, goal, pc, univ, ground, kind, level, info=None):
        self.name, self.goal, self.pc, self.univ, self.ground = name, goal, pc, univ, ground
        self.kind, self.level, self.info = kind, level, info or {}
        self.result = None
        self.time = 0.0
        self.backend = None
        self.model = None


def sort_key(ty):
    return str(ty.sort())


BUILTIN_EXC = {n for n in dir(builtins) if isinstance(getattr(builtins, n), type) and issubclass(getattr(builtins, n), BaseException)}


class State:
    def __init__(self):
        self.env = {}
        self.fields = {}
        self.conts = {}
        self.alias = {}
        self.objheap = {}
        self.ghost = {}
        self.ents = {}
        self.alloc = z3.Const("alloc0", z3.ArraySort(ObjSort, z3.BoolSort()))

    def snapshot(self):
        s = State()
        s.env = dict(self.env)
        s.fields = dict(self.fields)
        s.conts = dict(self.conts)
        s.alias = dict(self.alias)
        s.objheap = dict(self.objheap)
        s.ghost = dict(self.ghost)
        s.ents = self.ents
        s.alloc = self.alloc
        return s


class Exec:
    def __init__(self, reg, sources, fid, opts=None):
        self.reg, self.src, self.fid = reg, sources, fid
        self.opts = opts or {}
        self.obligations = {}
        self.ob_order = []
        self.pending = []
        self.paths = 0
        self.pruned = 0
        self.covers = {}
        self.feas_timeout = self.opts.get("feas_timeout_ms", 2000)
        self.inputs = {}
        self.spec_mode = 0
        self.old_state = None
        self.call_depth = 0
        self.notes = []
        self.solver_time = 0.0
        self.feas_cache = {}
        self.feas_checks = 0
        self.collector = None
        self.bound_ids = set()
        self.facts = Facts()
        self.pol = 0
        self.touch_templates = None

    # ------------------------------------------------------------------ fresh names / symbols
    def fresh(self, prefix, sort):
        self._ctr += 1
        return z3.Const("%s!%d" % (prefix, self._ctr), sort)

    def new_oid(self, cls):
        self._oid += 1
        self.st.ents[self._oid] = cls
        return self._oid

    def new_box(self, content):
        self._box += 1
        loc = ("b", self._box)
        self.st.conts[loc] = content
        return VCont(loc)

    def sym(self, ty, name, record_input=False):
        """Fresh symbolic value of type ty."""
        rec = (lambda n, t: self.inputs.__setitem__(n, t)) if record_input else (lambda n, t: None)
        if ty is TInt:
            t = z3.Int(name); rec(name, t); return VInt(t)
        if ty is TBool:
            t = z3.Bool(name); rec(name, t); return VBool(t)
        if ty is TStr:
            t = z3.String(name); rec(name, t); return VStr(t)
        if ty is TReal:
            t = z3.Real(name); rec(name, t); return VReal(t)
        if ty is TNone:
            return VNone
        if isinstance(ty, TObj):
            t = z3.Const(name, ObjSort); rec(name, t)
            v = VObj(t, ty.cls)
            self.assume(z3.Or(t == PyNone, self.st.alloc[t]))
            if ty.cls and ty.cls.startswith("nn:"):
                v.cls = ty.cls[3:]
                self.assume(t != PyNone)
            return v
        if isinstance(ty, TRec):
            t = z3.Const(name, ty.sort()); rec(name, t); return VRec(t, ty)
        if isinstance(ty, TOpt):
            if isinstance(ty.inner, TObj):
                return self.sym(ty.inner, name, record_input)
            b = z3.Bool(name + "?none"); rec(name + "?none", b)
            return VOpt(b, self.sym(ty.inner, name, record_input))
        if isinstance(ty, TTuple):
            return VTuple([self.sym(t, "%s.%d" % (name, i), record_input) for i, t in enumerate(ty.items)])
        if isinstance(ty, TEnt):
            oid = self.new_oid(ty.cls)
            for f, fty in self.reg.entities[ty.cls].items():
                self.init_field(oid, f, fty, "%s.%s" % (name, f), record_input)
            return VEnt(oid, ty.cls)
        if isinstance(ty, (TDict, TOrdSet, TList, TSet, TStack)):
            return self.new_box(self.symcont(ty, name, record_input))
        raise Unsupported("sym of %r" % ty)

    def init_field(self, oid, f, fty, name, record_input=False):
        if isinstance(fty, (TDict, TOrdSet, TList, TSet, TStack)):
            self.st.conts[("f", oid, f)] = self.symcont(fty, name, record_input)
            self.st.fields[(oid, f)] = VCont(("f", oid, f))
        else:
            self.st.fields[(oid, f)] = self.sym(fty, name, record_input)

    def symcont(self, ty, name, record_input=False):
        rec = (lambda n, t: self.inputs.__setitem__(n, t)) if record_input else (lambda n, t: None)
        if isinstance(ty, TDict):
            has = z3.Const(name + "#has", z3.ArraySort(ty.k.sort(), z3.BoolSort()))
            val = z3.Const(name + "#val", z3.ArraySort(ty.k.sort(), ty.v.sort()))
            cnt = z3.Int(name + "#count")
            rec(name + "#has", has); rec(name + "#val", val); rec(name + "#count", cnt)
            self.assume(cnt >= 0)
            sums, nonneg = {}, {}
            for m in ty.measures:
                sums[m] = z3.Int(name + "#sum_" + m); rec(name + "#sum_" + m, sums[m])
                nonneg[m] = z3.Bool(name + "#nonneg_" + m)
            d = DictV(ty, has, val, cnt, sums, nonneg)
            if isinstance(ty.v, TObj):
                al = self.st.alloc
                self.add_universal([ty.k], lambda k: z3.Or(val[k] == PyNone, al[val[k]]), "reachable-objects-are-allocated")
            if ty.ordered:
                d.order = self.symcont(TList(ty.k), name + "#order")
                d.order.idx = z3.Const(name + "#order#idx", z3.ArraySort(ty.k.sort(), z3.IntSort()))
                self.assume(d.order.n == cnt)
                self.injlist_facts(d.order, lambda k, has=has: has[k])
            return d
        if isinstance(ty, TOrdSet):
            mem = z3.Const(name + "#mem", z3.ArraySort(ty.k.sort(), z3.BoolSort()))
            stamp = z3.Const(name + "#stamp", z3.ArraySort(ty.k.sort(), z3.IntSort()))
            cnt = z3.Int(name + "#count"); clock = z3.Int(name + "#clock")
            rec(name + "#mem", mem); rec(name + "#stamp", stamp); rec(name + "#count", cnt)
            self.assume(cnt >= 0)
            o = OrdSetV(ty, mem, stamp, cnt, clock)
            self.ordset_wf(o)
            return o
        if isinstance(ty, TList):
            arr = z3.Const(name + "#arr", z3.ArraySort(z3.IntSort(), ty.e.sort()))
            n = z3.Int(name + "#len")
            rec(name + "#arr", arr); rec(name + "#len", n)
            self.assume(n >= 0)
            if isinstance(ty.e, TObj):
                al = self.st.alloc
                self.add_universal([TInt], lambda i: z3.Or(arr[i] == PyNone, al[arr[i]]), "reachable-objects-are-allocated")
            return ListV(ty, arr, n)
        if isinstance(ty, TSet):
            mem = z3.Const(name + "#mem", z3.ArraySort(ty.e.sort(), z3.BoolSort()))
            cnt = z3.Int(name + "#count")
            rec(name + "#mem", mem); rec(name + "#count", cnt)
            self.assume(cnt >= 0)
            return SetV(ty, mem, cnt)
        if isinstance(ty, TStack):
            some = z3.Bool(name + "#nonempty"); rec(name + "#nonempty", some)
            return StackV(ty, some, self.sym(ty.e, name + "#top", record_input), [])
        raise Unsupported("symcont %r" % ty)

    def ordset_wf(self, o):
        """Well-formedness of the duplicate-free recency order: stamps of members are distinct and below the clock."""
        mem, stamp, clock = o.mem, o.stamp, o.clock
        self.add_universal([o.ty.k], lambda k: z3.Implies(mem[k], stamp[k] < clock), "ordset-clock")
        self.add_universal([o.ty.k, o.ty.k], lambda a, b: z3.Implies(z3.And(mem[a], mem[b], a != b), stamp[a] != stamp[b]), "ordset-distinct")

    def injlist_facts(self, lst, member):
        """lst is duplicate-free with ghost inverse idx; member(k) characterises its elements."""
        arr, n, idx = lst.arr, lst.n, lst.idx
        kt = lst.ty.e
        def member_fact(k):
            self.touch(TInt, idx[k])      # the position of a member is a ground index worth instantiating at
            return z3.And(0 <= idx[k], idx[k] < n, arr[idx[k]] == k) == member(k)
        self.add_universal([kt], member_fact, "injlist-member")
        self.add_universal([TInt], lambda i: z3.Implies(z3.And(0 <= i, i < n), idx[arr[i]] == i), "injlist-inverse")

    # ------------------------------------------------------------------ facts
    def assume(self, f):
        if isinstance(f, bool):
            f = z3.BoolVal(f)
        if self.collector is not None:
            self.collector.append(f)
        else:
            self.facts.add(f)

    def has_bound(self, term):
        if not self.bound_ids:
            return False
        seen = set()
        stack = [term]
        while stack:
            t = stack.pop()
            i = t.get_id()
            if i in seen:
                continue
            seen.add(i)
            if i in self.bound_ids:
                return True
            stack.extend(t.children())
        return False

    MAXGEN = 1

    def touch(self, ty, term, gen=0):
        if self.has_bound(term):
            if self.touch_templates is not None:
                self.touch_templates.append((ty, term))
            return
        term = z3.simplify(term)
        i = term.get_id()
        if i in self.facts.ground_ids:
            return
        self.facts.ground_ids.add(i)
        self.facts.gen[i] = gen
        self.facts.ground.setdefault(sort_key(ty), []).append(term)

    def touch_instances(self, u, terms):
        """Ground terms a universal's body mentions (dict keys, list indices) once its bound variables are instantiated."""
        g = max([self.facts.gen.get(z3.simplify(t).get_id(), 0) for t in terms] + [0]) + 1
        if g > self.MAXGEN:
            return
        for ty, tmpl in u.touches:
            self.touch(ty, z3.substitute(tmpl, *zip(u.vars, terms)), gen=g)

    def add_universal(self, tys, fn, label="", keep=True):
        """Record `forall xs. fn(xs)`.  fn is evaluated once on fresh bound constants; lemma facts emitted while
        evaluating (they mention the bound constants) become part of the body."""
        if self.bound_ids:
            raise Unsupported("nested universal quantifier")
        vars_ = [self.fresh("bv", t.sort()) for t in tys]
        saved = self.collector
        self.collector = []
        self.touch_templates = []
        self.bound_ids = {v.get_id() for v in vars_}
        try:
            main = fn(*vars_)
            side = list(self.collector)
            body = z3.And(*(side + [main])) if side else main
            templates = self.touch_templates
        finally:
            self.collector = saved
            self.bound_ids = set()
            self.touch_templates = None
        u = Universal(tys, vars_, body, label)
        u.touches = templates
        u.side = side
        u.body_main = fn.main() if hasattr(fn, "main") else main
        if keep:
            self.facts.univ.append(u)
        return u

    def inst(self, u, terms):
        return z3.substitute(u.body, *zip(u.vars, terms))

    def saturate(self):
        """Instantiate every universal at every ground term of its sorts (incrementally, to a fixpoint)."""
        F = self.facts
        for _round in range(4):
            changed = False
            for ui, u in enumerate(F.univ):
                pools = [F.ground.get(sort_key(t), []) for t in u.tys]
                sizes = tuple(len(p) for p in pools)
                old = F.sizes.get(ui)
                if old == sizes:
                    continue
                F.sizes[ui] = sizes
                old = old or tuple(0 for _ in pools)
                for idxs in itertools.product(*[range(n) for n in sizes]):
                    if all(i < o for i, o in zip(idxs, old)):
                        continue
                    combo = [pools[a][i] for a, i in enumerate(idxs)]
                    F.add(self.inst(u, combo))
                    self.touch_instances(u, combo)
                    changed = True
            if not changed:
                break

    def feasible(self, cond):
        self.saturate()
        s = z3.Solver()
        s.set("timeout", self.feas_timeout)
        t0 = time.time()
        s.add(*self.facts.pc)
        s.add(cond)
        r = s.check()
        self.solver_time += time.time() - t0
        self.feas_checks += 1
        return r != z3.unsat

    def choose(self, conds, label=""):
        """Pick one of the alternative conditions; queue the other feasible ones."""
        if self.pos < len(self.script):
            i = self.script[self.pos]
        else:
            feas = [j for j, c in enumerate(conds) if self.feasible(c)]
            self.pruned += len(conds) - len(feas)
            if not feas:
                raise PathEnd("infeasible")
            i = feas[0]
            for j in feas[1:]:
                self.pending.append(self.script[: self.pos] + [j])
            self.script.append(i)
        self.pos += 1
        self.assume(conds[i])
        return i

    def branch(self, cond):
        c = z3.simplify(cond)
        if z3.is_true(c):
            return True
        if z3.is_false(c):
            return False
        if self.spec_mode:
            raise Unsupported("branch on symbolic condition in spec mode")
        return self.choose([c, z3.Not(c)]) == 0

    def oblige(self, name, goal, kind="safety", level=None, info=None):
        """Record a proof obligation: pc ==> goal.  goal is a z3 Bool (universals are skolemised by the caller)."""
        key = (tuple(self.script[: self.pos]), self._obctr)
        self._obctr += 1
        if isinstance(goal, bool):
            goal = z3.BoolVal(goal)
        g = z3.simplify(goal)
        if key in self.obligations:
            return
        self.saturate()
        import hashlib as _h
        ptag = _h.sha1(repr(key[0]).encode()).hexdigest()[:6]
        ob = Obligation("%s/%s/p%s.%d" % (self.fid, name, ptag, key[1]), g, list(self.facts.pc), None,
                        {k: list(v) for k, v in self.facts.ground.items()}, kind, level or self.level, info)
        self.obligations[key] = ob
        self.ob_order.append(key)

    # ------------------------------------------------------------------ containers
    def loc(self, v):
        l = v.loc
        while l in self.st.alias:
            l = self.st.alias[l]
        return l

    def heap_component(self, name, sort):
        if name not in self.st.objheap:
            self.st.objheap[name] = z3.Const("heap0_" + name, z3.ArraySort(ObjSort, sort))
        return self.st.objheap[name]

    def cont(self, v):
        l = self.loc(v)
        if l[0] == "h":
            _, attr, obj = l
            ty = self.reg.attrs[attr][0]
            if isinstance(ty, TSet):
                mem = self.heap_component(attr + "#mem", z3.ArraySort(ty.e.sort(), z3.BoolSort()))[obj]
                cnt = self.heap_component(attr + "#count", z3.IntSort())[obj]
                return SetV(ty, mem, cnt)
            if isinstance(ty, TList):
                arr = self.heap_component(attr + "#arr", z3.ArraySort(z3.IntSort(), ty.e.sort()))[obj]
                n = self.heap_component(attr + "#len", z3.IntSort())[obj]
                self.assume(n >= 0)
                return ListV(ty, arr, n)
            raise Unsupported("heap container of type %r" % ty)
        return self.st.conts[l]

    def set_cont(self, v, c):
        l = self.loc(v)
        if l[0] == "h":
            _, attr, obj = l
            ty = self.reg.attrs[attr][0]
            if isinstance(c, EmptyV):
                c = self.empty_of(ty)
            if isinstance(ty, TSet):
                self.st.objheap[attr + "#mem"] = z3.Store(self.heap_component(attr + "#mem", c.mem.sort()), obj, c.mem)
                self.st.objheap[attr + "#count"] = z3.Store(self.heap_component(attr + "#count", z3.IntSort()), obj, c.count)
            elif isinstance(ty, TList):
                self.st.objheap[attr + "#arr"] = z3.Store(self.heap_component(attr + "#arr", c.arr.sort()), obj, c.arr)
                self.st.objheap[attr + "#len"] = z3.Store(self.heap_component(attr + "#len", z3.IntSort()), obj, c.n)
            else:
                raise Unsupported("heap container of type %r" % ty)
            return
        self.st.conts[l] = c

    def empty_of(self, ty):
        tmp = self.new_box(EmptyV("x"))
        return self.materialize(tmp, ty)

    def fresh_obj(self, cls):
        """Allocate a new opaque object: distinct from None and from every object that exists so far."""
        o = self.fresh("new_" + cls, ObjSort)
        self.assume(z3.And(o != PyNone, z3.Not(self.st.alloc[o])))
        self.st.alloc = z3.Store(self.st.alloc, o, True)
        return o

    def materialize(self, v, ty):
        c = self.cont(v)
        if not isinstance(c, EmptyV):
            return c
        if isinstance(ty, TDict):
            has = z3.K(ty.k.sort(), z3.BoolVal(False))
            val = self.fresh("emptyval", z3.ArraySort(ty.k.sort(), ty.v.sort()))
            d = DictV(ty, has, val, z3.IntVal(0), {m: z3.IntVal(0) for m in ty.measures}, {m: z3.BoolVal(True) for m in ty.measures})
            if ty.ordered:
                d.order = ListV(TList(ty.k), self.fresh("ord", z3.ArraySort(z3.IntSort(), ty.k.sort())), z3.IntVal(0),
                                self.fresh("ordidx", z3.ArraySort(ty.k.sort(), z3.IntSort())))
                idx = d.order.idx
                self.add_universal([ty.k], lambda k: idx[k] == -1, "empty-order")
        elif isinstance(ty, TOrdSet):
            d = OrdSetV(ty, z3.K(ty.k.sort(), z3.BoolVal(False)), self.fresh("stamp", z3.ArraySort(ty.k.sort(), z3.IntSort())), z3.IntVal(0), z3.IntVal(0))
        elif isinstance(ty, TList):
            d = ListV(ty, self.fresh("emptyarr", z3.ArraySort(z3.IntSort(), ty.e.sort())), z3.IntVal(0))
        elif isinstance(ty, TSet):
            d = SetV(ty, z3.K(ty.e.sort(), z3.BoolVal(False)), z3.IntVal(0))
        else:
            raise Unsupported("materialize %r" % ty)
        self.set_cont(v, d)
        return d

    def type_of(self, v):
        """Static-ish type of a value (for materialising empty containers and list element sorts)."""
        if isinstance(v, VInt): return TInt
        if isinstance(v, VBool): return TBool
        if isinstance(v, VStr): return TStr
        if isinstance(v, VReal): return TReal
        if isinstance(v, VObj): return TObj(v.cls)
        if isinstance(v, VRec): return v.ty
        if v is VNone: return TObj()
        if isinstance(v, VOpt):
            return TOpt(self.type_of(v.val))
        if isinstance(v, VTuple):
            return TTuple([self.type_of(x) for x in v.items])
        if isinstance(v, VCont):
            c = self.cont(v)
            if isinstance(c, EmptyV):
                raise Unsupported("type of empty container")
            return c.ty
        if isinstance(v, VEnt):
            return TEnt(v.cls)
        raise Unsupported("type_of %r" % (v,))

    # --- boxing of primitive values into Obj
    def box(self, v):
        if isinstance(v, VObj):
            return v.t
        if v is VNone:
            return PyNone
        table = {VStr: ("box_str", z3.StringSort()), VInt: ("box_int", z3.IntSort()), VBool: ("box_bool", z3.BoolSort()), VReal: ("box_real", z3.RealSort())}
        for cls, (nm, srt) in table.items():
            if isinstance(v, cls):
                f = z3.Function(nm, srt, ObjSort)
                g = z3.Function("un" + nm, ObjSort, srt)
                t = f(v.t)
                self.assume(z3.And(g(t) == v.t, t != PyNone, z3.Function("kind_of", ObjSort, z3.IntSort())(t) == list(table).index(cls) + 1))
                truthy = z3.Function("py_truthy", ObjSort, z3.BoolSort())
                tv = {VStr: lambda x: z3.Length(x) > 0, VInt: lambda x: x != 0, VBool: lambda x: x, VReal: lambda x: x != 0}[cls](v.t)
                self.assume(truthy(t) == tv)
                return t
        if isinstance(v, VRec):
            f = z3.Function("box_rec_" + v.ty.name, v.ty.sort(), ObjSort)
            g = z3.Function("unbox_rec_" + v.ty.name, ObjSort, v.ty.sort())
            t = f(v.t)
            self.assume(z3.And(g(t) == v.t, t != PyNone))
            return t
        if isinstance(v, VOpt):
            return z3.If(v.isnone, PyNone, self.box(v.val))
        if isinstance(v, VExc):
            if v.tag is None:
                v.tag = self.fresh_obj("exc_" + v.cls)
            return v.tag
        raise Unsupported("cannot box %r into Obj" % (v,))

    def to_term(self, v, ty):
        if isinstance(ty, TObj):
            return self.box(v)
        if ty is TInt:
            if isinstance(v, VInt): return v.t
            if isinstance(v, VBool): return z3.If(v.t, 1, 0)
        if ty is TBool and isinstance(v, VBool): return v.t
        if ty is TStr and isinstance(v, VStr): return v.t
        if ty is TReal:
            if isinstance(v, VReal): return v.t
            if isinstance(v, VInt): return z3.ToReal(v.t)
        if isinstance(ty, TRec) and isinstance(v, VRec) and v.ty.name == ty.name: return v.t
        if isinstance(ty, TOpt):
            s = ty.sort()
            if v is VNone:
                return s.constructor(0)()
            if isinstance(v, VOpt):
                return z3.If(v.isnone, s.constructor(0)(), s.constructor(1)(self.to_term(v.val, ty.inner)))
            return s.constructor(1)(self.to_term(v, ty.inner))
        if isinstance(v, VOpt) and self.spec_mode:
            return self.to_term(v.val, ty)  # specifications are total: the value is only meaningful under `is not None`
        if isinstance(v, VOpt):
            # a maybe-None value flows where the declared model type has no None: prove it is not None here
            self.oblige("not-None-where-%r-expected" % ty, z3.Not(v.isnone), kind="type-safety")
            self.assume(z3.Not(v.isnone))
            return self.to_term(v.val, ty)
        raise Unsupported("to_term %r as %r" % (v, ty))

    def from_term(self, t, ty):
        if ty is TInt: return VInt(t)
        if ty is TBool: return VBool(t)
        if ty is TStr: return VStr(t)
        if ty is TReal: return VReal(t)
        if isinstance(ty, TObj):
            if ty.cls and ty.cls.startswith('nn:'):
                self.assume(t != PyNone)
                return VObj(t, ty.cls[3:])
            return VObj(t, ty.cls)
        if isinstance(ty, TRec): return VRec(t, ty)
        if isinstance(ty, TOpt):
            s = ty.sort()
            return VOpt(s.recognizer(0)(t), self.from_term(s.accessor(1, 0)(t), ty.inner))
        raise Unsupported("from_term %r" % ty)

    # --- dict
    def measure(self, dty, m, valterm):
        return dty.v.get(valterm, m)

    def dict_lemmas(self, d, k):
        """Trusted finite-map rules instantiated at key k for dict snapshot d."""
        self.touch(d.ty.k, k)
        self.assume(z3.Implies(d.has[k], d.count >= 1))
        self.assume(z3.Implies(d.count == 0, z3.Not(d.has[k])))
        self.nonempty_witness(d.has, d.count, d.ty.k)
        for m in d.ty.measures:
            mv = self.measure(d.ty, m, d.val[k])
            self.assume(z3.Implies(z3.And(d.nonneg[m], d.has[k]), z3.And(mv >= 0, mv <= d.sums[m])))
            self.assume(z3.Implies(d.nonneg[m], d.sums[m] >= 0))
            self.assume(z3.Implies(d.count == 0, d.sums[m] == 0))
        if d.order is not None:
            o = d.order
            self.assume(z3.And(0 <= o.idx[k], o.idx[k] < o.n, o.arr[o.idx[k]] == k) == d.has[k])

    def weak_shrink(self, v):
        d = self.cont(v)
        if isinstance(d, DictV) and d.ty.weak and not self.spec_mode and self.opts.get('weak_vanish_inside_methods'):
            has2 = self.fresh("weakhas", d.has.sort())
            cnt2 = self.fresh("weakcnt", z3.IntSort())
            old = d.has
            self.add_universal([d.ty.k], lambda k: z3.Implies(has2[k], old[k]), "weak-shrink")
            self.assume(z3.And(cnt2 >= 0, cnt2 <= d.count))
            d = d.replace(has=has2, count=cnt2)
            self.set_cont(v, d)
        return d

    def dict_contains(self, v, k):
        d = self.weak_shrink(v)
        kt = self.to_term(k, d.ty.k)
        self.dict_lemmas(d, kt)
        return VBool(d.has[kt])

    def dict_get(self, v, k, raise_on_missing=True):
        d = self.weak_shrink(v)
        kt = self.to_term(k, d.ty.k)
        self.dict_lemmas(d, kt)
        if raise_on_missing and not self.spec_mode:
            if not self.branch(d.has[kt]):
                if getattr(d.ty, "maybe_default", False) and isinstance(d.ty.v, TObj) and self.choose([z3.BoolVal(True), z3.BoolVal(True)]) == 1:
                    # a defaultdict: the factory's value is inserted under the key and returned
                    dv = VObj(self.fresh("default_value", ObjSort))
                    self.dict_set(v, k, dv)
                    return dv
                raise PyRaise(VExc("KeyError", [k]))
        return self.from_term(d.val[kt], d.ty.v)

    def dict_set(self, v, k, val):
        c = self.cont(v)
        if isinstance(c, EmptyV):
            c = self.materialize(v, TDict(self.type_of(k), self.type_of(val), weak=(c.kind == "weakdict")))
        d = self.weak_shrink(v)
        kt = self.to_term(k, d.ty.k)
        vt = self.to_term(val, d.ty.v)
        self.dict_lemmas(d, kt)
        had = d.has[kt]
        sums, nonneg = {}, {}
        for m in d.ty.measures:
            sums[m] = d.sums[m] - z3.If(had, self.measure(d.ty, m, d.val[kt]), 0) + self.measure(d.ty, m, vt)
            nonneg[m] = z3.And(d.nonneg[m], self.measure(d.ty, m, vt) >= 0)
        nd = d.replace(has=z3.Store(d.has, kt, True), val=z3.Store(d.val, kt, vt), count=d.count + z3.If(had, 0, 1), sums=sums, nonneg=nonneg)
        if d.order is not None:
            o = d.order
            narr = self.fresh("ordarr", o.arr.sort()); nidx = self.fresh("ordidx", o.idx.sort()); nn = nd.count
            # order after insertion: unchanged when present, appended otherwise
            self.assume(z3.If(had, z3.And(narr == o.arr, nidx == o.idx), z3.And(narr == z3.Store(o.arr, o.n, kt), nidx == z3.Store(o.idx, kt, o.n))))
            nd.order = ListV(o.ty, narr, nn, nidx)
        self.set_cont(v, nd)
        self.dict_lemmas(nd, kt)

    def dict_del(self, v, k, missing_ok=False):
        d = self.weak_shrink(v)
        kt = self.to_term(k, d.ty.k)
        self.dict_lemmas(d, kt)
        if d.order is not None:
            raise Unsupported("delete from ordered dict")
        present = self.branch(d.has[kt]) if not self.spec_mode else True
        if not present:
            if missing_ok:
                return None
            raise PyRaise(VExc("KeyError", [k]))
        old = self.from_term(d.val[kt], d.ty.v)
        sums = {m: d.sums[m] - self.measure(d.ty, m, d.val[kt]) for m in d.ty.measures}
        nd = d.replace(has=z3.Store(d.has, kt, False), count=d.count - 1, sums=sums)
        self.set_cont(v, nd)
        self.dict_lemmas(nd, kt)
        return old

    def dict_clear(self, v):
        d = self.cont(v)
        ty = d.ty
        self.set_cont(v, EmptyV("dict"))
        self.materialize(v, ty)

    # --- ordset (deque used as recency order)
    def nonempty_witness(self, mem, count, kty):
        """A non-empty finite map/set has a member: count > 0 => mem[w] for a witness w (one per container version)."""
        if self.bound_ids or self.collector is not None:
            return
        key = mem.get_id()
        if key in self.witnesses:
            return
        w = z3.Const("wit!%d" % len(self.witnesses), kty.sort())
        self.witnesses[key] = w
        self.touch(kty, w)
        self.assume(z3.Implies(count > 0, mem[w]))
        self.assume(count >= 0)

    def os_lemmas(self, o, k):
        self.touch(o.ty.k, k)
        self.nonempty_witness(o.mem, o.count, o.ty.k)
        self.assume(z3.Implies(o.mem[k], o.count >= 1))
        self.assume(z3.Implies(o.count == 0, z3.Not(o.mem[k])))

    def os_append(self, v, k, node=None):
        o = self.cont(v)
        kt = self.to_term(k, o.ty.k)
        self.os_lemmas(o, kt)
        self.oblige("deque-stays-duplicate-free", z3.Not(o.mem[kt]), kind="repr-invariant")
        self.assume(z3.Not(o.mem[kt]))
        no = o.replace(mem=z3.Store(o.mem, kt, True), stamp=z3.Store(o.stamp, kt, o.clock), count=o.count + 1, clock=o.clock + 1)
        self.set_cont(v, no)
        self.os_lemmas(no, kt)

    def os_remove(self, v, k):
        o = self.cont(v)
        kt = self.to_term(k, o.ty.k)
        self.os_lemmas(o, kt)
        if not self.branch(o.mem[kt]):
            raise PyRaise(VExc("ValueError", []))
        no = o.replace(mem=z3.Store(o.mem, kt, False), count=o.count - 1)
        self.set_cont(v, no)
        self.os_lemmas(no, kt)

    def os_pop_right(self, v):
        o = self.cont(v)
        if not self.branch(o.count > 0):
            raise PyRaise(VExc("IndexError", []))
        x = self.fresh("poppedr", o.ty.k.sort())
        self.touch(o.ty.k, x)
        self.assume(o.mem[x])
        mem, stamp = o.mem, o.stamp
        self.add_universal([o.ty.k], lambda k: z3.Implies(mem[k], stamp[x] >= stamp[k]), "pop-max")
        no = o.replace(mem=z3.Store(o.mem, x, False), count=o.count - 1)
        self.set_cont(v, no)
        self.os_lemmas(no, x)
        return self.from_term(x, o.ty.k)

    def os_appendleft(self, v, k):
        o = self.cont(v)
        kt = self.to_term(k, o.ty.k)
        self.os_lemmas(o, kt)
        self.oblige("deque-stays-duplicate-free", z3.Not(o.mem[kt]), kind="repr-invariant")
        self.assume(z3.Not(o.mem[kt]))
        lo = self.fresh("floor", z3.IntSort())
        mem, stamp = o.mem, o.stamp
        self.add_universal([o.ty.k], lambda k2: z3.Implies(mem[k2], lo < stamp[k2]), "appendleft-floor")
        self.assume(lo < o.clock)
        no = o.replace(mem=z3.Store(o.mem, kt, True), stamp=z3.Store(o.stamp, kt, lo), count=o.count + 1)
        self.set_cont(v, no)
        self.os_lemmas(no, kt)

    def os_peek(self, v, left):
        """dq[0] / dq[-1]: the least / most recent member."""
        o = self.cont(v)
        if not self.spec_mode and not self.branch(o.count > 0):
            raise PyRaise(VExc("IndexError", []))
        x = self.fresh("peek", o.ty.k.sort())
        self.touch(o.ty.k, x)
        self.assume(o.mem[x])
        mem, stamp = o.mem, o.stamp
        if left:
            self.add_universal([o.ty.k], lambda k: z3.Implies(mem[k], stamp[x] <= stamp[k]), "peek-min")
        else:
            self.add_universal([o.ty.k], lambda k: z3.Implies(mem[k], stamp[x] >= stamp[k]), "peek-max")
        self.os_lemmas(o, x)
        return self.from_term(x, o.ty.k)

    def os_popleft(self, v):
        o = self.cont(v)
        if not self.branch(o.count > 0):
            raise PyRaise(VExc("IndexError", []))
        x = self.fresh("popped", o.ty.k.sort())
        self.touch(o.ty.k, x)
        self.assume(o.mem[x])
        mem, stamp = o.mem, o.stamp
        self.add_universal([o.ty.k], lambda k: z3.Implies(mem[k], stamp[x] <= stamp[k]), "popleft-min")
        no = o.replace(mem=z3.Store(o.mem, x, False), count=o.count - 1)
        self.set_cont(v, no)
        self.os_lemmas(no, x)
        return self.from_term(x, o.ty.k)

    # --- list
    def list_append(self, v, x):
        c = self.cont(v)
        if isinstance(c, EmptyV):
            c = self.materialize(v, TList(self.type_of(x) if not isinstance(x, VOpt) else self.type_of(x)))
        xt = self.to_term(x, c.ty.e)
        self.touch(TInt, c.n)
        self.set_cont(v, c.replace(arr=z3.Store(c.arr, c.n, xt), n=c.n + 1, idx=None))

    def list_get(self, v, i):
        c = self.cont(v)
        it = i.t
        if not self.spec_mode:
            ok = z3.And(-c.n <= it, it < c.n)
            if not self.branch(ok):
                raise PyRaise(VExc("IndexError", []))
        it2 = z3.If(it < 0, it + c.n, it)
        self.touch(TInt, z3.simplify(it2))
        return self.from_term(c.arr[it2], c.ty.e)
