"""Sidecar contract language.  Contract files under /verif/contracts call these functions.

Clauses are Python expression *strings*; they are parsed with `ast` and evaluated by the same
symbolic evaluator that executes the real function bodies (engine.Exec, spec mode).
"""
from .ty import *  # noqa


class Contract:
    def __init__(self, fid, types=None, requires=(), ensures=(), raises=None, modifies=(), loops=None,
                 level="P", returns=None, prop=None, inline_callees=(), when_raises=None, pure=False,
                 havoc_conts=(), labels=None, notes="", opaque_callees=(), assumed=False, ghost_params=None,
                 decreases=None, unroll=None):
        self.fid = fid
        self.types = dict(types or {})          # param -> Ty
        self.requires = list(requires)
        self.ensures = list(ensures)            # normal-exit postconditions
        self.raises = dict(raises or {})        # exc class -> [clauses] that hold when it is raised
        self.when_raises = dict(when_raises or {})  # exc class -> pre-state condition under which the call raises it
        self.modifies = list(modifies)          # spec paths: "self.cache", "memento.content_key", "ghost:name"
        self.loops = dict(loops or {})          # loop ordinal (1-based, pre-order in the function) -> [invariants]
        self.level = level                      # 'P' property-level, 'H' helper-level
        self.returns = returns
        self.prop = prop
        self.inline_callees = set(inline_callees)
        self.opaque_callees = set(opaque_callees)
        self.pure = pure
        self.labels = labels or {}
        self.notes = notes
        self.assumed = assumed                  # contract is assumed (external / abstract interface): never verified
        self.ghost_params = dict(ghost_params or {})
        self.unroll = unroll


class Registry:
    def __init__(self):
        self.contracts = {}     # fid -> Contract
        self.entities = {}      # class name -> {field: Ty}
        self.entity_methods = {}  # class name -> (module, class) for method lookup
        self.records = {}       # record name -> TRec
        self.specs = {}         # name -> (params, body expr string)
        self.attrs = {}         # attribute name on opaque objects -> Ty (immutable) ; ('mut', Ty) for mutable
        self.ufs = {}           # name -> z3 function
        self.externals = {}     # dotted name -> Contract-like for library calls (assumed)
        self.enums = {}         # enum class -> [member names]
        self.assumptions = []   # free-text assumptions reported in evidence
        self.lemmas = []        # (name, [param types], clause strings) proved once per run
        self.obj_methods = {}   # method name on opaque objects -> Contract (assumed)
        self.class_preds = {}   # class name used in isinstance on Obj -> z3 predicate
        self.subclass_facts = []  # (sub, sup) among class_preds
        self.disjoint_facts = []
        self.replays = {}       # fid -> callable(model, info) -> dict
        self.consts = {}        # module-level constant overrides "module:NAME" -> V factory
        self.exc_bases = {}     # repo exception class -> [base class names]
        self.with_hooks = {}    # context-manager kind -> (enter(ex, cm), exit(ex, cm, handle))
        self.plain_truthy = set()  # opaque classes with default truthiness (no __bool__/__len__)
        self.constructors = {}  # class / external name -> hook(ex, args, kwargs)
        self.path_init = []     # hooks run at the start of every path
        self.opaque_call_hook = None
        self.func_hooks = {}    # fid -> hook(ex, args, kwargs): assumed model of a repo function (e.g. thread-local singleton access)
        self.record_methods = {}  # (record name, method) -> hook(ex, recv, args, kwargs): functional model of an immutable class (assumed)
        self.attr_hooks = {}    # (class, attribute) -> hook(ex, obj) for opaque library objects (assumed)
        self.obj_method_hooks = {}  # method name -> hook(ex, recv, args, kwargs) for opaque objects (assumed behaviour with ghost effects)
        self.opaque_classes = {}  # class name -> module: classes whose __init__ only stores its parameters (checked per run)
        self.obj_uf_methods = {}  # method name on opaque objects -> uninterpreted function giving its result (for native replay)
        self.list_terms = False    # lists built by comprehensions / sorted carry a value term (used for seed-independence reasoning)
        self.iter_term = None      # hook(ex, object term) -> the iteration of an opaque collection as a value
        self.touch_attrs = set()   # attribute names whose values join the instantiation pool (used by universally stated class facts)
        self.spec_builtins = {}  # name -> fn(ex, call node): extra specification functions defined by a contract module
        self.class_state = {}   # (class name, attribute) -> ghost name: mutable class-level state (e.g. a global counter)

    # --- declaration helpers
    def contract(self, fid, **kw):
        c = Contract(fid, **kw)
        self.contracts[fid] = c
        return c

    def external(self, name, **kw):
        c = Contract("ext:" + name, assumed=True, **kw)
        self.externals[name] = c
        return c

    def obj_method(self, name, **kw):
        c = Contract("objmethod:" + name, assumed=True, **kw)
        self.obj_methods[name] = c
        return c

    def entity(self, cls, where, fields):
        self.entities[cls] = dict(fields)
        self.entity_methods[cls] = where  # (module, class qualname)

    def record(self, name, **fields):
        self.records[name] = TRec(name, list(fields.items()))
        return self.records[name]

    def spec(self, name, params, body):
        self.specs[name] = (list(params), body)

    def attr(self, name, ty, mutable=False):
        self.attrs[name] = (ty, mutable)

    def uf(self, name, argtys, resty):
        import z3
        self.ufs[name] = (z3.Function(name, *[t.sort() for t in argtys], resty.sort()), argtys, resty)

    def enum(self, cls, members):
        self.enums[cls] = list(members)

    def assume(self, text):
        if text not in self.assumptions:
            self.assumptions.append(text)

    def lemma(self, name, types, requires, ensures, prop=None):
        self.lemmas.append((name, dict(types), list(requires), list(ensures), prop))

    def opaque_class(self, name, module):
        self.opaque_classes[name] = module

    def replay(self, fid, fn):
        self.replays[fid] = fn
