"""Native replay of a counter-model on the real code (run under /venv/bin/python; no z3 here).

Generic harness: the replay file carries the counter-model (values of the symbolic inputs, Obj values read through
kind_of/unbox*), the contract's parameter types, the entity/record tables and the specification functions.  The harness
  1. rebuilds real Python inputs (real instances of the repository's classes, created without running __init__ and
     populated field by field; real dicts/lists/deques; opaque placeholders for objects the model leaves abstract),
  2. checks the contract's `requires` natively (a model that does not satisfy them natively is not a witness),
  3. runs the real function, and
  4. evaluates the failed clause *text* natively (same text the verifier proved or refuted).
Prints one JSON line {"reproduced": true|false|null, "detail": ...}.  null = the harness could not decide (abstract values,
clause kind that is not a function-exit clause, unsupported type); that is reported as no-failing-input-found.
Property-specific native meanings of uninterpreted functions live in contracts/replay_builders.py (NATIVE).
"""
import ast
import collections
import copy
import importlib
import json
import os
import re
import sys
import traceback
import weakref

HERE = os.path.dirname(os.path.dirname(os.path.abspath(__file__)))
sys.path.insert(0, HERE)
sys.path.insert(0, os.environ.get("PYVC_REPO", "/repo"))


class Opaque:
    """An object the counter-model leaves abstract (identity only)."""

    def __init__(self, name, classes=(), truthy=True):
        self.name, self.classes, self.truthy = name, tuple(classes), truthy

    def __bool__(self):
        return bool(self.truthy)

    def __iter__(self):
        return iter(())

    def __hash__(self):
        return id(self)

    def __eq__(self, other):
        return self is other

    def to_dict(self):
        """x.to_dict() of an abstract object: an abstract dump that identifies the object (dump_of in the contracts)."""
        if "_dump" not in self.__dict__:
            self._dump = Opaque("dump_of(%s)" % self.name)
        return self._dump

    def __repr__(self):
        return "<%s>" % self.name

    def __deepcopy__(self, memo):
        return self

    def __copy__(self):
        return self


class Undecidable(Exception):
    pass


# ----------------------------------------------------------------------------- type descriptors (repr of pyvc.ty types)
def split_top(s, sep=","):
    out, depth, cur = [], 0, ""
    for ch in s:
        if ch in "<[":
            depth += 1
        elif ch in ">]":
            depth -= 1
        if ch == sep and depth == 0:
            out.append(cur)
            cur = ""
        else:
            cur += ch
    if cur:
        out.append(cur)
    return [x.strip() for x in out]


def parse_ty(s):
    s = s.strip()
    if s in ("TInt", "TBool", "TStr", "TReal", "TNone"):
        return (s[1:],)
    if s in ("Int", "Bool", "Str", "Real", "None", "Obj"):
        return (s,)
    m = re.match(r"^(\w+)<(.*)>(w?)$", s)
    if m:
        head, inner, weak = m.groups()
        if head in ("Obj", "Ent", "Rec"):
            return (head, inner)
        if head == "Dict":
            k, v = split_top(inner)
            return ("Dict", parse_ty(k), parse_ty(v), bool(weak))
        return (head, parse_ty(inner))
    if s.startswith("Tuple["):
        return ("Tuple", [parse_ty(x) for x in split_top(s[6:-1])])
    raise Undecidable("type descriptor %r" % s)


class Builder:
    def __init__(self, rp):
        self.rp = rp
        self.ctx = rp["replay_ctx"]
        self.model = rp["counter_model"] or {}
        self.objs = {}
        self.pool = {"str": set(), "int": set(range(-1, 4))}
        self.notes = []

    def repo_class(self, ent):
        mod, q = self.ctx["entities"][ent]["where"]
        m = importlib.import_module("twosigma.memento." + mod)
        o = m
        for part in q.split("."):
            o = getattr(o, part)
        return o

    def get(self, name):
        if name not in self.model:
            raise Undecidable("input %s is not in the counter-model" % name)
        return self.model[name]

    def shaped(self, v, hint):
        """An opaque object the contracts use as a sequence / mapping: rebuilt as a real tuple / list / dict from the model's view."""
        if isinstance(v, dict) and "$obj" in v and hint:
            h = hint.replace("nn:", "")
            if h in ("tuple", "list") and "seq" in v:
                items = [self.obj(x) for x in v["seq"]]
                return tuple(items) if h == "tuple" else items
            if h in ("tuple", "list") and "seq" not in v:
                return () if h == "tuple" else []
            if h in ("dict", "mapping"):
                return {k: self.obj(x) for k, x in v.get("map", [])}
            if h and h[0].isupper() and self.find_repo_class(h) is not None:
                # declared to be an instance of a repository class: a stand-in of that class, whatever primitive reading the model suggests
                return self.stub_instance(dict(v, classes=[h]), [h])
        return self.obj(v)

    def obj(self, v):
        if v is None:
            return None
        if isinstance(v, dict) and "$obj" in v:
            k = v.get("kind")
            repo_classes = [c for c in v.get("classes", ()) if self.find_repo_class(c) is not None]
            if repo_classes:
                return self.stub_instance(v, repo_classes)
            if k in (1, 2, 3, 4) and "value" in v and not v.get("classes"):
                val = v["value"]
                if k == 1:
                    self.pool["str"].add(val)
                return {1: str, 2: int, 3: bool, 4: float}[k](val)
            nm = v["$obj"]
            if nm not in self.objs:
                self.objs[nm] = Opaque(nm, v.get("classes", ()), v.get("truthy", True))
                for mname, mv in (v.get("methods") or {}).items():
                    setattr(self.objs[nm], mname, (lambda val: (lambda *a, **k: val))(self.obj(mv)))
                for a, av in (v.get("attrs") or {}).items():
                    try:
                        hint = re.match(r"Obj<(.*)>", (self.ctx.get("attr_types") or {}).get(a, "") or "")
                        setattr(self.objs[nm], a, self.shaped(av, hint.group(1) if hint else None))
                    except Exception:
                        pass
            return self.objs[nm]
        if isinstance(v, dict) and "$rec" in v:
            return self.rec(v)
        if isinstance(v, dict) and "$term" in v:
            nm = v["$term"]
            if nm not in self.objs:
                self.objs[nm] = Opaque(nm)
            return self.objs[nm]
        if isinstance(v, str):
            self.pool["str"].add(v)
        return v

    def find_repo_class(self, name):
        import inspect as _i
        for mod in ("types", "base", "memento", "reference", "metadata", "external", "storage_base", "configuration", "exception", "code_hash"):
            try:
                m = importlib.import_module("twosigma.memento." + mod)
            except Exception:
                continue
            c = getattr(m, name, None)
            if _i.isclass(c):
                return c
        return None

    def stub_instance(self, v, classes):
        """An object the model only knows by its class: a bare instance of a concrete subclass of that repository class (abstract
        methods waived), carrying the attribute / method values the model assigns to it."""
        nm = v["$obj"]
        if nm in self.objs:
            return self.objs[nm]
        bases = []
        for c in classes:
            k = self.find_repo_class(c)
            if not any(issubclass(b, k) for b in bases):
                bases = [b for b in bases if not issubclass(k, b)] + [k]
        cls = type("Model_" + "_".join(b.__name__ for b in bases), tuple(bases), {"__abstractmethods__": frozenset(), "__repr__": lambda s_: "<%s %s>" % (type(s_).__name__, nm),
                                                                           "__deepcopy__": lambda s_, memo: s_})
        try:
            cls.__abstractmethods__ = frozenset()
            o = object.__new__(cls)
        except TypeError as e:
            raise Undecidable("cannot make a stand-in instance of %s: %s" % (classes, e))
        self.objs[nm] = o
        for mname, mv in (v.get("methods") or {}).items():
            try:
                object.__setattr__(o, mname, (lambda val: (lambda *a, **k: val))(self.obj(mv)))
            except Exception:
                pass
        for a, av in (v.get("attrs") or {}).items():
            hint = re.match(r"Obj<(.*)>", (self.ctx.get("attr_types") or {}).get(a, "") or "")
            val = self.shaped(av, hint.group(1) if hint else None)
            try:
                object.__setattr__(o, a, val)
            except Exception:
                try:
                    object.__setattr__(o, "_" + a, val)     # a read-only property backed by a private field of the same name
                except Exception:
                    pass
        return o

    def rec(self, v):
        name = v["$rec"][3:] if v["$rec"].startswith("mk_") else v["$rec"]
        if name.startswith("Opt_") or v["$rec"] in ("none", "some"):
            return None if v["$rec"] == "none" else self.obj(v["fields"][0])
        fields = self.ctx["records"].get(name)
        vals = [self.obj(x) for x in v["fields"]]
        cls = self.find_record_class(name)
        if cls is not None and fields is not None:
            try:
                return cls(**dict(zip([f for f, _ in fields], vals)))
            except Exception:
                pass
        return collections.namedtuple(name, [f for f, _ in fields] if fields else ["f%d" % i for i in range(len(vals))])(*vals)

    def find_record_class(self, name):
        for mod in ("storage_base", "types", "context", "runner", "reference", "metadata"):
            try:
                m = importlib.import_module("twosigma.memento." + mod)
            except Exception:
                continue
            if hasattr(m, name):
                return getattr(m, name)
        return None

    def scalar(self, v, ty):
        if ty[0] == "Str":
            self.pool["str"].add(v)
        return v

    def build(self, ty, name):
        t = ty[0]
        if t in ("Int", "Bool", "Str"):
            return self.scalar(self.get(name), ty)
        if t == "Real":
            return float(self.get(name))
        if t == "None":
            return None
        if t == "Obj":
            return self.shaped(self.get(name), ty[1] if len(ty) > 1 else None)
        if t == "Opt":
            inner = ty[1]
            if inner[0] == "Obj":
                return self.build(inner, name)
            if inner[0] == "Ent":
                if self.model.get(name + "?none", False):
                    return None
                return self.build(inner, name)
            if self.get(name + "?none"):
                return None
            return self.build(inner, name)
        if t == "Rec":
            return self.obj(self.get(name))
        if t == "Tuple":
            return tuple(self.build(x, "%s.%d" % (name, i)) for i, x in enumerate(ty[1]))
        if t == "Dict":
            has = dict(map(tuple_key, self.get(name + "#has")["$map"]))
            val = dict(map(tuple_key, self.get(name + "#val")["$map"]))
            d = {}
            for k, present in has.items():
                if present:
                    kk = self.obj(k) if not isinstance(k, (str, int, bool)) else k
                    if isinstance(kk, str):
                        self.pool["str"].add(kk)
                    d[kk] = self.obj(val.get(k))
            for k in has:
                if isinstance(k, str):
                    self.pool["str"].add(k)
            cnt = self.model.get(name + "#count")
            if cnt is not None and cnt != len(d):
                self.notes.append("dict %s: the model's size %s differs from its %d named entries; the named entries are used" % (name, cnt, len(d)))
            if ty[3]:
                w = weakref.WeakValueDictionary()
                self.keepalive = getattr(self, "keepalive", [])
                for k, v in d.items():
                    try:
                        w[k] = v
                        self.keepalive.append(v)
                    except TypeError:
                        # the model picked a value that cannot be weakly referenced (a str / int / None): a WeakValueDictionary can only hold
                        # weak-referenceable objects, so an abstract object stands in for it (the clause is evaluated on what the real code does with it)
                        o = Opaque("weak_%s" % k)
                        w[k] = o
                        self.keepalive.append(o)
                        self.notes.append("weak dict %s[%r]: the model's value %r is not weak-referenceable; an abstract object stands in" % (name, k, v))
                return w
            return d
        if t == "List":
            n = self.get(name + "#len")
            arr = dict(map(tuple_key, self.get(name + "#arr")["$map"]))
            if n > 64:
                raise Undecidable("list of %d elements" % n)
            out = []
            for i in range(n):
                if i in arr:
                    out.append(self.obj(arr[i]) if ty[1][0] in ("Obj", "Rec") else arr[i])
                else:
                    out.append(Opaque("%s[%d]" % (name, i)) if ty[1][0] == "Obj" else {"Int": 0, "Bool": False, "Str": ""}.get(ty[1][0]))
            self.pool["int"].update(range(n + 2))
            return out
        if t == "Set":
            mem = dict(map(tuple_key, self.get(name + "#mem")["$map"]))
            return {self.obj(k) if not isinstance(k, (str, int, bool)) else k for k, v in mem.items() if v}
        if t == "OrdSet":
            mem = dict(map(tuple_key, self.get(name + "#mem")["$map"]))
            stamp = dict(map(tuple_key, self.get(name + "#stamp")["$map"]))
            keys = [k for k, v in mem.items() if v]
            for k in mem:
                if isinstance(k, str):
                    self.pool["str"].add(k)
            cnt = self.model.get(name + "#count")
            if cnt is not None and cnt != len(keys):
                self.notes.append("recency order %s: the model's size %s differs from its %d named members; the named members are used" % (name, cnt, len(keys)))
            keys.sort(key=lambda k: stamp.get(k, 0))
            return collections.deque(keys)
        if t == "Ent":
            cls = self.repo_class(ty[1])
            o = object.__new__(cls)
            for f, fty in self.ctx["entities"][ty[1]]["fields"].items():
                try:
                    setattr(o, f, self.build(parse_ty(fty), "%s.%s" % (name, f)))
                except AttributeError:
                    pass
            return o
        raise Undecidable("cannot build a value of type %r" % (ty,))


def tuple_key(kv):
    k, v = kv
    if isinstance(k, (dict, list)):
        k = json.dumps(k, sort_keys=True)
    return (k, v)


# ----------------------------------------------------------------------------- native evaluation of clause texts
class OldRewriter(ast.NodeTransformer):
    """old(e) -> e evaluated on the deep-copied pre-state: parameter names inside old() are redirected to their snapshots."""

    def __init__(self, params):
        self.params, self.depth = set(params), 0

    def visit_Call(self, n):
        if isinstance(n.func, ast.Name) and n.func.id == "old":
            self.depth += 1
            try:
                return self.visit(n.args[0])
            finally:
                self.depth -= 1
        n = self.generic_visit(n)
        if isinstance(n.func, ast.Name) and n.func.id == "ghost" and self.depth:
            n.func = ast.copy_location(ast.Name(id="__old_ghost", ctx=ast.Load()), n.func)
            return n
        if isinstance(n.func, ast.Name) and n.func.id == "implies" and len(n.args) == 2:   # lazy, as in the logic
            return ast.copy_location(ast.BoolOp(op=ast.Or(), values=[ast.UnaryOp(op=ast.Not(), operand=n.args[0]), n.args[1]]), n)
        if isinstance(n.func, ast.Name) and n.func.id == "ite" and len(n.args) == 3:
            return ast.copy_location(ast.IfExp(test=n.args[0], body=n.args[1], orelse=n.args[2]), n)
        return n

    def visit_Name(self, n):
        if self.depth and n.id in self.params:
            return ast.copy_location(ast.Name(id="__old_" + n.id, ctx=n.ctx), n)
        return n


def strip_tag(text):
    t = text.lstrip()
    if t.startswith("["):
        return t[t.index("]") + 1:].strip()
    return t.strip()


class Native:
    def __init__(self, builder, natives):
        self.b = builder
        self.ns = {}
        self.params = []
        ns = self.ns
        ns.update({"implies": lambda a, b: (not a) or bool(b), "iff": lambda a, b: bool(a) == bool(b), "ite": lambda c, a, b: a if c else b,
                   "same": self.same, "truthy": bool, "isnone": lambda x: x is None, "forall": self.forall, "exists": self.exists,
                   "first_index": self.first_index, "full_match": lambda x, pat: re.fullmatch(pat, x) is not None, "stamp": self.stamp, "dsum": self.dsum, "dnonneg": self.dnonneg, "pos": lambda l, x: list(l).index(x) if x in l else -1,
                   "str": str, "int": int, "bool": bool, "float": float, "obj": object, "len": len, "isinstance": self.isinst, "True": True, "False": False, "None": None})
        ns.update(natives)
        if "__bind_ns__" in natives:
            natives["__bind_ns__"]["ns"] = ns     # natives that are defined in terms of specification functions look them up late
        for name, (ps, body) in builder.ctx["specs"].items():
            ns[name] = self.make_spec(name, ps, body)

    def same(self, a, b):
        if a is b:
            return True
        if isinstance(a, Opaque) or isinstance(b, Opaque):
            return False
        try:
            return type(a) == type(b) and a == b
        except Exception:
            return False

    def isinst(self, x, cls):
        if isinstance(cls, tuple):
            return any(self.isinst(x, c) for c in cls)
        if isinstance(x, Opaque):
            nm = getattr(cls, "__name__", str(cls))
            return nm in x.classes
        return isinstance(x, cls)

    def pool_for(self, t):
        if t is str:
            return sorted(self.b.pool["str"] | {"", "zz~"})
        if t is int:
            return sorted(self.b.pool["int"])
        if t is bool:
            return [False, True]
        return list(self.b.objs.values()) + [None]

    def forall(self, *args):
        *tys, lam = args
        import itertools
        return all(lam(*xs) for xs in itertools.product(*[self.pool_for(t) for t in tys]))

    def exists(self, *args):
        *tys, lam = args
        import itertools
        return any(lam(*xs) for xs in itertools.product(*[self.pool_for(t) for t in tys]))

    def first_index(self, lst, lam):
        for i, x in enumerate(lst):
            if lam(x):
                return i
        return len(lst)

    def stamp(self, dq, k):
        return list(dq).index(k) if k in dq else -1

    def dsum(self, d, field):
        return sum(getattr(v, field) for v in d.values())

    def dnonneg(self, d, field):
        return all(getattr(v, field) >= 0 for v in d.values())

    def make_spec(self, name, ps, body):
        node = self.compile(body, extra=ps)
        ns = self.ns

        def f(*a):
            g = dict(ns)
            g.update(self.cur_env)
            g.update(zip(ps, a))
            return eval(node, g)
        return f

    def compile(self, text, extra=()):
        tree = ast.parse(strip_tag(text), mode="eval")
        tree = OldRewriter(self.params).visit(tree)
        ast.fix_missing_locations(tree)
        return compile(tree, "<clause>", "eval")

    cur_env = {}

    def eval(self, text, env):
        self.cur_env = dict(env)
        g = dict(self.ns)
        g.update(env)
        return eval(self.compile(text), g)


def show(v, depth=0):
    """Readable rendering of rebuilt inputs (repository objects are shown with their fields)."""
    if depth > 5:
        return "..."
    if isinstance(v, (str, int, float, bool, type(None), Opaque)):
        return repr(v)
    if isinstance(v, dict) or isinstance(v, weakref.WeakValueDictionary):
        return "{" + ", ".join("%s: %s" % (show(k, depth + 1), show(x, depth + 1)) for k, x in list(v.items())[:12]) + "}"
    if isinstance(v, (list, tuple, collections.deque, set)):
        return type(v).__name__ + "[" + ", ".join(show(x, depth + 1) for x in list(v)[:12]) + "]"
    if hasattr(v, "_fields"):
        return type(v).__name__ + "(" + ", ".join("%s=%s" % (f, show(getattr(v, f), depth + 1)) for f in v._fields) + ")"
    if hasattr(v, "__dict__") and type(v).__module__.startswith("twosigma"):
        return type(v).__name__ + "(" + ", ".join("%s=%s" % (k, show(x, depth + 1)) for k, x in list(vars(v).items())[:12]) + ")"
    return repr(v)


def run(rp):
    if not rp.get("replay_ctx") or rp.get("counter_model") is None:
        return {"reproduced": None, "detail": "no counter-model / replay context in the replay file (solver gave none)"}
    kind = rp.get("kind")
    if kind not in ("post", "post-exc", "exception-freedom", "type-safety", "assert", "safety"):
        return {"reproduced": None, "detail": "obligation kind %r is not a function-exit clause: the model describes an intermediate (loop-cut or call-site) state, not an input" % kind}
    ctx = rp["replay_ctx"]
    b = Builder(rp)
    natives = {}
    try:
        from contracts import replay_builders as RB
        natives = RB.natives(rp, b)
    except Undecidable:
        raise
    except Exception as e:
        b.notes.append("native table: %s" % e)
    try:
        args = {}
        for p in ctx["params"]:
            if ctx["name"] == "__init__" and p == ctx["params"][0] and ctx["types"].get(p, "").startswith("Ent<"):
                args[p] = object.__new__(b.repo_class(ctx["types"][p][4:-1]))   # a constructor starts from a bare instance
            elif p in ctx["types"]:
                args[p] = b.build(parse_ty(ctx["types"][p]), p)
            elif ctx["kind"] == "class" and p == ctx["params"][0]:
                continue
            else:
                raise Undecidable("parameter %s has no declared type" % p)
    except Undecidable as e:
        return {"reproduced": None, "detail": "inputs not concretisable: %s" % e}
    # ghost parameters that stand for class-level state are installed on the real class for the duration of the call
    ghosts, installed = {}, []
    try:
        for g, gty in (ctx.get("ghost_params") or {}).items():
            ghosts[g] = b.build(parse_ty(gty), "ghost_" + g)
    except Undecidable as e:
        return {"reproduced": None, "detail": "ghost state not concretisable: %s" % e}
    nat = Native(b, natives)
    nat.ns["ghost"] = lambda name: ghosts[name]
    nat.params = list(args)
    mod = importlib.import_module("twosigma.memento." + ctx["module"])
    for name in dir(mod):
        nat.ns.setdefault(name, getattr(mod, name))
    try:
        import pandas as pd
        nat.ns.setdefault("pd", pd)
    except Exception:
        pass
    # preconditions must hold natively
    for r in ctx.get("requires", []):
        try:
            if not nat.eval(r, dict(args)):
                return {"reproduced": None, "detail": "the concretised model does not satisfy the precondition natively: %s" % strip_tag(r), "inputs": show(args)[:1500]}
        except Exception as e:
            return {"reproduced": None, "detail": "precondition not evaluable natively (%s): %s" % (strip_tag(r), e)}
    pre_inputs = show(args)[:2000]
    old = {}
    for p, v in args.items():
        try:
            old["__old_" + p] = copy.deepcopy(v)
        except Exception:
            old["__old_" + p] = v
    # call the real function
    target = mod
    if ctx["cls"]:
        for part in ctx["cls"].split("."):
            target = getattr(target, part)
    fn = getattr(target, ctx["name"]) if ctx["cls"] else getattr(mod, ctx["name"])
    call_args = [args[p] for p in ctx["params"] if p in args]
    for cname, attr, g in ctx.get("class_state") or []:
        if g in ghosts and hasattr(mod, cname):
            klass = getattr(mod, cname)
            installed.append((klass, attr, getattr(klass, attr)))
            setattr(klass, attr, ghosts[g])
    old_ghosts = copy.deepcopy(ghosts)
    nat.ns["__old_ghost"] = lambda name: old_ghosts[name]
    hooks = getattr(RB, "PATCHES", {}).get(rp["function"]) if "RB" in dir() else None
    raised, result = None, None
    try:
        if hooks:
            with hooks(rp, b, args):
                result = fn(*call_args)
        else:
            result = fn(*call_args)
    except BaseException as e:  # the real code's exception is an observation
        raised = e
    for klass, attr, _ in installed:
        for cname, a2, g in ctx.get("class_state") or []:
            if a2 == attr:
                ghosts[g] = getattr(klass, attr)
    for klass, attr, prev in installed:
        setattr(klass, attr, prev)
    env = dict(args)
    env.update(old)
    env["result"] = env["ret"] = result
    inputs = pre_inputs
    if kind == "exception-freedom":
        want = (rp.get("obligation") or "").split("no-undeclared-exception/")[-1].split("/")[0]
        if raised is not None and type(raised).__name__ == want:
            return {"reproduced": True, "detail": "the real function raises %s: %s" % (type(raised).__name__, raised), "inputs": inputs}
        return {"reproduced": False, "detail": "the real function did not raise %s (raised=%r)" % (want, raised), "inputs": inputs}
    if kind in ("type-safety", "assert", "safety"):
        if raised is not None:
            return {"reproduced": True, "detail": "the real function raises %s: %s" % (type(raised).__name__, raised), "inputs": inputs}
        return {"reproduced": None, "detail": "safety obligation; the real function returned normally on the concretised input", "inputs": inputs}
    if kind == "post" and raised is not None:
        return {"reproduced": None, "detail": "the model is on a normal-exit path but the real function raised %r" % raised, "inputs": inputs}
    if kind == "post-exc":
        if raised is None:
            return {"reproduced": None, "detail": "the model is on an exceptional path but the real function returned normally", "inputs": inputs}
        env["exc"] = raised
    try:
        ok = nat.eval(rp["clause"], env)
    except Undecidable as e:
        return {"reproduced": None, "detail": "clause not evaluable natively: %s" % e, "inputs": inputs}
    except Exception as e:
        return {"reproduced": None, "detail": "clause not evaluable natively: %s: %s" % (type(e).__name__, e), "inputs": inputs}
    return {"reproduced": (not ok), "detail": "clause evaluated natively on the real function's outcome: %s" % ("False -- violated" if not ok else "True -- holds on this input"),
            "inputs": inputs, "observed": show(result)[:600] if raised is None else "raised %r" % raised, "notes": b.notes}


def main():
    with open(sys.argv[1]) as f:
        rp = json.load(f)
    try:
        from contracts import replay_builders as B
        fn = B.BUILDERS.get(rp["function"])
        if rp.get("custom_replay"):
            fn = getattr(B, rp["custom_replay"])
        res = fn(rp) if fn is not None else run(rp)
        print(json.dumps(res, default=repr))
    except Exception:
        print(json.dumps({"reproduced": None, "detail": "replay harness raised: " + traceback.format_exc()[-1500:]}))


if __name__ == "__main__":
    main()
