"""Native replay of a counter-model on the real code (run under /venv/bin/python).  Prints one JSON line:
{"reproduced": true|false|null, "detail": ...}.  Builders live in contracts/replay_builders.py."""
import json
import os
import sys
import traceback

HERE = os.path.dirname(os.path.dirname(os.path.abspath(__file__)))
sys.path.insert(0, HERE)
sys.path.insert(0, os.environ.get("PYVC_REPO", "/repo"))


def main():
    with open(sys.argv[1]) as f:
        rp = json.load(f)
    try:
        from contracts import replay_builders as B
        fn = B.BUILDERS.get(rp["function"])
        if rp.get("custom_replay"):
            fn = getattr(B, rp["custom_replay"])
        if fn is None:
            print(json.dumps({"reproduced": None, "detail": "no native builder for %s; the replay file carries the failed obligation and the solver output" % rp["function"]}))
            return
        res = fn(rp)
        print(json.dumps(res))
    except Exception:
        print(json.dumps({"reproduced": None, "detail": "replay harness raised: " + traceback.format_exc()[-1500:]}))


main()
