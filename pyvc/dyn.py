"""Dynamic typing layer: heterogeneous dicts (Obj-valued), boxing of containers into Obj, `super()`, equality and
isinstance on boxed primitives, unboxing with type-safety obligations, dict comprehensions over .items(), list.insert(0, x).

Boxed primitives: box_str/box_int/box_bool/box_real : T -> Obj with inverse unbox* and kind_of (1 str, 2 int, 3 bool,
4 real) asserted at every boxing site (engine.Exec.box).  This layer adds num_of (the numeric value of an int/bool/real
object) and the Python `==` of two boxed primitives.
"""
import ast
import sys
import os

import z3

from .ty import *  # noqa
from . import source as S
from .engine import (PathEnd, Unsupported, PyRaise, ReturnSig, BreakSig, ContinueSig, EmptyV)
from .calls import Calls, PY_TYPES

KIND = {"str": (1,), "int": (2, 3), "bool": (3,), "float": (4,)}
K_STR, K_INT, K_BOOL, K_REAL = 1, 2, 3, 4


class VTypeOf(V):
    """type(e) of an exception known only up to subclassing."""

    def __init__(self, exc):
        self.exc = exc


class VPyFunc(V):
    """An engine-level helper callable bound in the environment (e.g. the value lookup of a desugared items() loop)."""

    def __init__(self, fn):
        self.fn = fn


class VMatch(V):
    """Result of re.match: matched (Bool), groups gid -> (participated Bool, value String term), names name -> gid."""

    def __init__(self, matched, groups, names):
        self.matched, self.groups, self.names = matched, groups, names


class VSuper(V):
    def __init__(self, recv, module, cls):
        self.recv, self.module, self.cls = recv, module, cls


def split_tag_effect(text):
    t = text.lstrip()
    return t.startswith("[") and "effect" in t[: t.index("]")]


def kind_of(t):
    return z3.Function("kind_of", ObjSort, z3.IntSort())(t)


def unbox_fn(kind):
    nm, srt = {K_STR: ("box_str", z3.StringSort()), K_INT: ("box_int", z3.IntSort()), K_BOOL: ("box_bool", z3.BoolSort()), K_REAL: ("box_real", z3.RealSort())}[kind]
    return z3.Function("un" + nm, ObjSort, srt), z3.Function(nm, srt, ObjSort)


def num_of(t):
    return z3.Function("num_of", ObjSort, z3.RealSort())(t)


class Dyn(Calls):
    # ------------------------------------------------------------------ boxing
    def type_of(self, v):
        if isinstance(v, (VFunc, VLambda, VClass, VBuiltin)):
            return TObj()
        return super().type_of(v)

    def box(self, v):
        if isinstance(v, VFunc):
            v = VBuiltin("fn:" + v.fid)
        if isinstance(v, VLambda):
            return self.fresh_obj("lambda")
        if isinstance(v, (VClass, VBuiltin)):
            # a class / builtin used as a value (np.int8, dict, ...): one constant per name; distinct names are distinct objects
            t = z3.Const("pyobj_" + v.name.replace(".", "_").replace(":", "_"), ObjSort)
            names = self.st.ghost.setdefault("$pyobjs", {})
            if v.name not in names:
                for other in names.values():
                    self.assume(other != t)
                self.assume(t != PyNone)
                names = dict(names)
                names[v.name] = t
                self.st.ghost["$pyobjs"] = names
            return t
        if isinstance(v, VTuple):
            if not v.items:
                t = z3.Const("py_empty_tuple", ObjSort)
                self.assume(z3.And(t != PyNone, kind_of(t) == 10, z3.Not(z3.Function("py_truthy", ObjSort, z3.BoolSort())(t)),
                                   z3.Function("seq_len", ObjSort, z3.IntSort())(t) == 0))
                return t
            f = z3.Function("py_tuple%d" % len(v.items), *([ObjSort] * len(v.items) + [ObjSort]))
            t = f(*[self.box(x) for x in v.items])
            self.assume(z3.And(t != PyNone, kind_of(t) == 10))
            return t
        if isinstance(v, VCont):
            return self.box_cont(v)
        if isinstance(v, VEnt):
            return self.box_ent(v)
        t = super().box(v)
        if isinstance(v, (VInt, VBool, VReal)) and not isinstance(v, VObj):
            x = z3.If(v.t, 1.0, 0.0) if isinstance(v, VBool) else (z3.ToReal(v.t) if isinstance(v, VInt) else v.t)
            self.assume(num_of(t) == x)
        return t

    def box_cont(self, v):
        """A container stored where an object is expected (nested dict/list value): a fresh object standing for it;
        reading the object back (syntactically the same term) yields the container reference again."""
        loc = self.loc(v)
        boxed = self.st.ghost.setdefault("$boxed", {})
        for o, l in boxed.values():
            if l == loc:
                return o
        c = self.cont(v)
        kind = c.kind if isinstance(c, EmptyV) else {"DictV": "dict", "ListV": "list", "SetV": "set"}.get(type(c).__name__, "obj")
        o = self.fresh_obj(kind)
        self.assume(z3.And(kind_of(o) == {"dict": 5, "list": 6, "set": 7}.get(kind, 9), self.class_pred(kind)(o)))
        boxed = dict(boxed)
        boxed[o.get_id()] = (o, loc)
        self.st.ghost["$boxed"] = boxed
        # the object's mapping / sequence view IS the container's content (as of now: a container is not mutated after it has been
        # stored as an object value in the verified code; set_cont refuses it)
        if not self.bound_ids and self.collector is None:
            if isinstance(c, DictV) and c.ty.k is TStr and isinstance(c.ty.v, TObj):
                has, val = self.dict_has_uf()
                bs = z3.Function("box_str", z3.StringSort(), ObjSort)
                h, w = c.has, c.val
                self.add_universal([TStr], lambda k: z3.And(has(o, bs(k)) == h[k], z3.Implies(h[k], val(o, bs(k)) == w[k])), "boxed-dict-view")
                self.st.ghost["$frozen"] = set(self.st.ghost.get("$frozen", set())) | {loc}
            elif isinstance(c, SetV) and isinstance(c.ty.e, TObj):
                has = self.dict_has_uf()[0]
                mem = c.mem
                self.add_universal([TObj()], lambda x: has(o, x) == mem[x], "boxed-set-view")
                self.st.ghost["$frozen"] = set(self.st.ghost.get("$frozen", set())) | {loc}
            elif isinstance(c, ListV) and isinstance(c.ty.e, TObj):
                ln, item = self.seq_ufs()
                arr, n_ = c.arr, c.n
                self.assume(ln(o) == n_)
                self.add_universal([TInt], lambda i: z3.Implies(z3.And(0 <= i, i < n_), item(o, i) == arr[i]), "boxed-list-view")
                self.st.ghost["$frozen"] = set(self.st.ghost.get("$frozen", set())) | {loc}
        return o

    def set_cont(self, v, c):
        if self.loc(v) in self.st.ghost.get("$frozen", ()):
            raise Unsupported("mutation of a container after it was stored as an object value")
        return super().set_cont(v, c)

    def box_ent(self, v):
        boxed = self.st.ghost.setdefault("$boxed_ents", {})
        for o, e in boxed.values():
            if e.oid == v.oid:
                return o
        o = self.fresh_obj(v.cls)
        self.assume(z3.And(kind_of(o) == 8, self.class_pred(v.cls)(o)))
        # class facts of the object's class: its bases (for isinstance), and class-level `name = None` defaults of attributes that the
        # entity table does not list as instance fields
        mod, q = self.reg.entity_methods[v.cls]
        seen, stack, defaults = set(), [(mod, q)], {}
        while stack:
            m_, c_ = stack.pop(0)
            if (m_, c_) in seen:
                continue
            seen.add((m_, c_))
            self.assume(self.class_pred(c_.split(".")[-1])(o))
            node = self.src.module(m_).classes.get(c_)
            for st_ in (node.body if node else []):
                if isinstance(st_, ast.Assign) and len(st_.targets) == 1 and isinstance(st_.targets[0], ast.Name) and isinstance(st_.value, ast.Constant) and st_.value.value is None:
                    defaults.setdefault(st_.targets[0].id, (m_, c_))
                elif isinstance(st_, ast.FunctionDef):
                    defaults.setdefault(st_.name, None)    # a property / method of that name shadows a base-class default
            stack = self.src.class_bases(m_, c_) + stack
        for a, where in defaults.items():
            if where is not None and a in self.reg.attrs and a not in self.reg.entities[v.cls] and not self.reg.attrs[a][1]:
                ty = self.reg.attrs[a][0]
                if isinstance(ty, (TObj, TOpt)):
                    f_ = z3.Function("attr_" + a, ObjSort, ty.sort())
                    self.assume(f_(o) == self.to_term(VNone, ty))
        boxed = dict(boxed)
        boxed[o.get_id()] = (o, v)
        self.st.ghost["$boxed_ents"] = boxed
        return o

    def from_term(self, t, ty):
        if isinstance(ty, TObj) and z3.is_expr(t):
            boxed = self.st.ghost.get("$boxed")
            ents = self.st.ghost.get("$boxed_ents")
            if boxed or ents:
                s = z3.simplify(t)
                hit = boxed.get(s.get_id()) if boxed else None
                if hit is not None:
                    return VCont(hit[1])
                hit = ents.get(s.get_id()) if ents else None
                if hit is not None:
                    return hit[1]
        return super().from_term(t, ty)

    def to_term(self, v, ty):
        if isinstance(v, VObj) and ty in (TStr, TInt, TBool, TReal):
            return self.unbox(v, ty)
        if isinstance(v, (VCont, VEnt)) and isinstance(ty, TObj):
            return self.box(v)
        return super().to_term(v, ty)

    def unbox(self, v, ty):
        """An object used where the declared model type is a primitive: prove it is one (dynamic type safety)."""
        k = kind_of(v.t)
        if ty is TStr:
            ok, term = k == K_STR, unbox_fn(K_STR)[0](v.t)
        elif ty is TBool:
            ok, term = k == K_BOOL, unbox_fn(K_BOOL)[0](v.t)
        elif ty is TInt:
            ok = z3.Or(k == K_INT, k == K_BOOL)
            term = z3.If(k == K_BOOL, z3.If(unbox_fn(K_BOOL)[0](v.t), 1, 0), unbox_fn(K_INT)[0](v.t))
        else:
            ok, term = z3.Or(k == K_INT, k == K_BOOL, k == K_REAL), num_of(v.t)
        if not self.spec_mode:
            self.oblige("object-is-a-%r" % ty, ok, kind="type-safety", info={"clause": "a dynamically typed value used as %r is one" % ty})
            self.assume(ok)
        self.dyn_facts(v.t)
        return term

    def dyn_facts(self, t):
        """Links between kind_of / unbox / num_of / py_truthy for one object term (instantiated where the object is used)."""
        if self.has_bound(t) and self.collector is None:
            return
        k = kind_of(t)
        us, bs = unbox_fn(K_STR)
        ui, bi = unbox_fn(K_INT)
        ub, bb = unbox_fn(K_BOOL)
        ur, br = unbox_fn(K_REAL)
        truthy = z3.Function("py_truthy", ObjSort, z3.BoolSort())
        self.assume(z3.And(
            z3.Implies(k == K_STR, z3.And(bs(us(t)) == t, truthy(t) == (z3.Length(us(t)) > 0))),
            z3.Implies(k == K_INT, z3.And(bi(ui(t)) == t, num_of(t) == z3.ToReal(ui(t)), truthy(t) == (ui(t) != 0))),
            z3.Implies(k == K_BOOL, z3.And(bb(ub(t)) == t, num_of(t) == z3.If(ub(t), 1.0, 0.0), truthy(t) == ub(t))),
            z3.Implies(k == K_REAL, z3.And(br(ur(t)) == t, num_of(t) == ur(t), truthy(t) == (ur(t) != 0))),
            z3.Implies(t == PyNone, k == 0), z3.Not(truthy(PyNone))))

    # ------------------------------------------------------------------ equality / truth / isinstance on objects
    def bi_type(self, args, kwargs, node):
        v = args[0]
        if isinstance(v, VCont):
            c = self.cont(v)
            kind = c.kind if isinstance(c, EmptyV) else {"DictV": "dict", "ListV": "list", "SetV": "set"}.get(type(c).__name__)
            if kind in ("dict", "list", "set"):
                return VBuiltin(kind)
        if isinstance(v, VStr):
            return VBuiltin("str")
        if isinstance(v, VObj):
            t = z3.Function("attr___class__", ObjSort, ObjSort)(v.t)
            # exact builtin types of dynamically typed values (subclasses of dict / list / str ... are outside the model)
            self.dyn_facts(v.t)
            for nm, k in (("dict", 5), ("list", 6), ("str", K_STR), ("bool", K_BOOL), ("float", K_REAL)):
                self.assume((t == self.box(VBuiltin(nm))) == (kind_of(v.t) == k))
            return VObj(t, "type")
        if isinstance(v, VExc) and not v.exact:
            return VTypeOf(v)
        return super().bi_type(args, kwargs, node)

    def equal(self, a, b, identity=False):
        if isinstance(a, (VClass, VBuiltin)) and isinstance(b, (VClass, VBuiltin)):
            return z3.BoolVal(a.name == b.name)
        if isinstance(a, (VClass, VBuiltin)) and isinstance(b, VObj) or isinstance(b, (VClass, VBuiltin)) and isinstance(a, VObj):
            a = VObj(self.box(a)) if not isinstance(a, VObj) else a
            b = VObj(self.box(b)) if not isinstance(b, VObj) else b
        if isinstance(a, VTypeOf) or isinstance(b, VTypeOf):
            t, c = (a, b) if isinstance(a, VTypeOf) else (b, a)
            if not isinstance(c, VClass):
                raise Unsupported("type(e) compared with %r" % (c,))
            from .interp import is_exc_subclass
            exc = t.exc
            possible = is_exc_subclass(self.reg, self.src, c.name, exc.cls) and not any(is_exc_subclass(self.reg, self.src, c.name, x) for x in exc.excl)
            if not possible:
                return z3.BoolVal(False)
            # the exception is `exc.cls or any subclass`: its exact type may or may not be c
            return self.fresh("type_is_" + c.name, z3.BoolSort())
        if not identity and (not self.spec_mode or self.pure_code):
            prim = (VStr, VInt, VBool, VReal)
            if isinstance(a, VObj) and isinstance(b, prim):
                b = VObj(self.box(b))
            elif isinstance(b, VObj) and isinstance(a, prim):
                a = VObj(self.box(a))
            if isinstance(a, VObj) and isinstance(b, VObj) and not ((a.cls or "").startswith("enum:") or (b.cls or "").startswith("enum:")):
                return self.py_eq(a.t, b.t)
        return super().equal(a, b, identity)

    def py_eq(self, x, y):
        """Python `==` of two objects: identity implies equality; boxed primitives compare by value (numbers across
        int/bool/float), a primitive never equals None or a value of another primitive family."""
        eq = z3.Function("py_eq", ObjSort, ObjSort, z3.BoolSort())
        self.dyn_facts(x)
        self.dyn_facts(y)
        kx, ky = kind_of(x), kind_of(y)
        us = unbox_fn(K_STR)[0]
        isnum = lambda k: z3.Or(k == K_INT, k == K_BOOL, k == K_REAL)
        self.assume(z3.And(
            z3.Implies(x == y, eq(x, y)),
            z3.Implies(z3.And(kx == K_STR, ky == K_STR), eq(x, y) == (us(x) == us(y))),
            # only a string equals a string (no class with an exotic __eq__ claiming equality with str is in the value domain)
            z3.Implies(z3.And(kx == K_STR, eq(x, y)), ky == K_STR), z3.Implies(z3.And(ky == K_STR, eq(x, y)), kx == K_STR),
            z3.Implies(z3.And(isnum(kx), isnum(ky)), eq(x, y) == (num_of(x) == num_of(y))),
            z3.Implies(z3.And(kx == K_STR, z3.Or(isnum(ky), y == PyNone)), z3.Not(eq(x, y))),
            z3.Implies(z3.And(ky == K_STR, z3.Or(isnum(kx), x == PyNone)), z3.Not(eq(x, y))),
            z3.Implies(z3.And(isnum(kx), y == PyNone), z3.Not(eq(x, y))),
            z3.Implies(z3.And(isnum(ky), x == PyNone), z3.Not(eq(x, y)))))
        return eq(x, y)

    def truth(self, v):
        if isinstance(v, VMatch):
            return v.matched
        if isinstance(v, VObj) and v.cls not in self.reg.plain_truthy:
            self.dyn_facts(v.t)
        return super().truth(v)

    def isinstance1(self, v, k):
        cname = self.class_name_of(k)
        if isinstance(v, VObj) and cname in KIND:
            self.dyn_facts(v.t)
            return z3.Or(*[kind_of(v.t) == c for c in KIND[cname]])
        if isinstance(v, VObj) and cname in ("dict", "list", "set"):
            return kind_of(v.t) == {"dict": 5, "list": 6, "set": 7}[cname]
        return super().isinstance1(v, k)

    # ------------------------------------------------------------------ super()
    def ev_Call(self, n):
        f = n.func
        if isinstance(f, ast.Name) and self.spec_mode and f.id in getattr(self.reg, "spec_builtins", {}):
            return self.reg.spec_builtins[f.id](self, n)
        if isinstance(f, ast.Name) and f.id == "super" and not self.spec_mode:
            fi = self.frame.fi
            if fi is None or fi.cls is None:
                raise Unsupported("super() outside a method")
            if n.args:
                # super(C, self): supported when C is the enclosing class and self the method's receiver
                if not (len(n.args) == 2 and isinstance(n.args[0], ast.Name) and n.args[0].id == fi.cls.split(".")[-1]
                        and isinstance(n.args[1], ast.Name) and n.args[1].id == fi.params[0]):
                    raise Unsupported("super(...) with arguments other than (enclosing class, self)")
            recv = self.st.env.get(fi.params[0])
            return VSuper(recv, fi.module, fi.cls)
        if isinstance(f, ast.Attribute) and f.attr in self.reg.obj_method_hooks and f.attr in self.reg.attrs:
            # a name that is both a data attribute of some classes and a method of others: in call position it is the method
            base = self.ev(f.value)
            if isinstance(base, VObj):
                args = [self.ev(a) for a in n.args]
                kwargs = {k.arg: self.ev(k.value) for k in n.keywords}
                return self.call_method(base, f.attr, args, kwargs, n)
            self._pre_base = (f.value, base)
        if isinstance(f, ast.Name) and f.id == "set" and len(n.args) == 1 and isinstance(n.args[0], ast.GeneratorExp) and not n.keywords:
            ge = n.args[0]
            sc = ast.copy_location(ast.SetComp(elt=ge.elt, generators=ge.generators), ge)
            return self.comprehension(sc, "set")
        return super().ev_Call(n)

    def get_attr(self, base, name, node=None):
        if isinstance(base, VObj) and name in getattr(self.reg, "touch_attrs", ()) and name in self.reg.attrs and not self.bound_ids:
            r = super().get_attr(base, name, node)
            if isinstance(r, VObj):
                self.touch(TObj(), r.t)
            return r
        if isinstance(base, VObj) and (base.cls or "").startswith("enum:") and name == "name":
            self.enum_name_axioms(base.cls[5:].replace("nn:", ""))
            return VStr(z3.Function("enum_name", ObjSort, z3.StringSort())(base.t))
        if isinstance(base, VMatch):
            return VMethod(base, name)
        if isinstance(base, VObj) and (base.cls, name) in getattr(self.reg, "attr_hooks", {}):
            # assumed model of a library object's attribute (e.g. pathlib.Path.parent): a function of the object
            return self.reg.attr_hooks[(base.cls, name)](self, base)
        if isinstance(base, VSuper):
            for m, c in self.src.class_bases(base.module, base.cls):
                fi = self.src.find_method(m, c, name)
                if fi is not None:
                    return VFunc(fi.fid, base.recv)
            if name == "__init__":
                return VBuiltin("object.__init__")
            raise Unsupported("super().%s not found" % name)
        if isinstance(base, VObj) and not self.spec_mode:
            boxed = self.st.ghost.get("$boxed")
            if boxed:
                hit = boxed.get(z3.simplify(base.t).get_id())
                if hit is not None:
                    return super().get_attr(VCont(hit[1]), name, node)
        if isinstance(base, VObj) and name not in self.reg.attrs and name not in self.reg.obj_methods and name not in self.reg.obj_method_hooks \
                and not (base.cls and "%s.%s" % (base.cls, name) in self.reg.obj_methods) and base.cls not in self.reg.opaque_classes and not name.startswith("__"):
            # an attribute the contracts do not declare (new code): a total uninterpreted function of the object; reading it is assumed
            # not to raise AttributeError, calling it is an opaque call (arbitrary result or exception)
            if not self.spec_mode and not self.branch(base.t != PyNone):
                raise PyRaise(VExc("AttributeError", []))
            self.notes.append("undeclared attribute %s of an opaque object is modelled as an uninterpreted function" % name)
            return VObj(z3.Function("attr_" + name, ObjSort, ObjSort)(base.t))
        return super().get_attr(base, name, node)

    def call_method(self, recv, name, args, kwargs, node):
        if isinstance(recv, VObj):
            top = self.reg.contracts.get(self.fid)
            alt = getattr(self.reg, (top.labels.get("obj_method_hooks") or ""), None) if top is not None and top.labels.get("obj_method_hooks") else None
            if alt and name in alt:
                # this contract uses its own summary of the method (e.g. a partition's merge parent seen from a child)
                if not self.spec_mode and not self.branch(recv.t != PyNone):
                    raise PyRaise(VExc("AttributeError", []))
                return alt[name](self, recv, args, kwargs)
        if isinstance(recv, VMatch):
            if not self.spec_mode and not self.branch(recv.matched):
                raise PyRaise(VExc("AttributeError", []))   # None.group(...)
            if name == "groupdict" and not args:
                box = self.new_box(EmptyV("dict"))
                self.materialize(box, TDict(TStr, TOpt(TStr)))
                for nm, gid in recv.names.items():
                    self.dict_set(box, VStr(nm), self.match_group(recv, gid))
                return box
            if name == "group" and len(args) == 1 and isinstance(args[0], VInt) and z3.is_int_value(z3.simplify(args[0].t)):
                return self.match_group(recv, z3.simplify(args[0].t).as_long())
            raise Unsupported("match.%s" % name)
        return super().call_method(recv, name, args, kwargs, node)

    def bi_object___init__(self, args, kwargs, node):
        return VNone

    # ------------------------------------------------------------------ dict literals / comprehensions / list.insert
    def ev_Dict(self, n):
        box = self.new_box(EmptyV("dict"))
        if not n.keys:
            return box
        keys, vals = [], []
        for k, v in zip(n.keys, n.values):
            if k is None:
                raise Unsupported("dict unpacking")
            keys.append(self.ev(k))
            vals.append(self.ev(v))
        tys = set()
        for v in vals:
            try:
                tys.add(repr(self.type_of(v)))
            except Unsupported:
                tys.add("?")
        c = self.frame_contract()
        force = c.labels.get("dict_literals_dynamic") if c else False
        if len(tys) > 1 or force or any(isinstance(v, (VCont, VEnt)) or v is VNone for v in vals):
            self.materialize(box, TDict(self.type_of(keys[0]), TObj()))
        for k, v in zip(keys, vals):
            self.dict_set(box, k, v)
        return box

    def ev_DictComp(self, n):
        return self.with_pure_raises(lambda: self._ev_DictComp(n))

    def _ev_DictComp(self, n):
        """{K: V for (k, v) in d.items()} / {K: V for v in d.values()} / {K: V for k in d}: the result is characterised by
        forward membership (every source entry contributes its key) and a ghost inverse (every result key comes from a
        source entry, whose value expression it carries)."""
        if len(n.generators) != 1:
            raise Unsupported("nested dict comprehension")
        g = n.generators[0]
        it = g.iter
        mode = "keys"
        srcnode = it
        if isinstance(it, ast.Call) and isinstance(it.func, ast.Attribute) and it.func.attr in ("items", "values", "keys") and not it.args:
            mode = it.func.attr
            srcnode = it.func.value
        src = self.ev(srcnode)
        if isinstance(src, VObj):
            hit = (self.st.ghost.get("$boxed") or {}).get(z3.simplify(src.t).get_id())
            if hit is not None:
                src = VCont(hit[1])
            else:
                if not self.spec_mode and not self.branch(src.t != PyNone):
                    raise PyRaise(VExc("AttributeError", []))
                src = self.obj_as_dict(src)
        if not isinstance(src, VCont):
            raise Unsupported("dict comprehension over %r" % (src,))
        d = self.cont(src)
        if isinstance(d, EmptyV):
            return self.new_box(EmptyV("dict"))
        if not isinstance(d, DictV) or g.ifs:
            raise Unsupported("dict comprehension shape")
        if mode == "items":
            if not (isinstance(g.target, ast.Tuple) and len(g.target.elts) == 2 and all(isinstance(e, ast.Name) for e in g.target.elts)):
                raise Unsupported("dict comprehension target")
            kn, vn = g.target.elts[0].id, g.target.elts[1].id
        elif isinstance(g.target, ast.Name):
            kn, vn = (None, g.target.id) if mode == "values" else (g.target.id, None)
        else:
            raise Unsupported("dict comprehension target")
        snap = self.st.snapshot()
        env0 = dict(self.st.env)

        def at(k, what):
            def f():
                self.st.env = dict(env0)
                if kn:
                    self.st.env[kn] = self.from_term(k, d.ty.k)
                if vn:
                    self.st.env[vn] = self.from_term(d.val[k], d.ty.v)
                return self.ev(n.key if what == "key" else n.value)
            return self.in_state(snap.snapshot(), {}, self.old_state, f, pure_code=True)
        probe = self.fresh("dck", d.ty.k.sort())
        kty = self.type_of(at(probe, "key"))
        vty = self.type_of(at(probe, "val"))
        if isinstance(vty, (TDict, TList, TSet, TEnt)):
            vty = TObj()
        identity_key = isinstance(n.key, ast.Name) and n.key.id == kn
        has2 = d.has if identity_key else self.fresh("dchas", z3.ArraySort(kty.sort(), z3.BoolSort()))
        val2 = self.fresh("dcval", z3.ArraySort(kty.sort(), vty.sort()))
        has = d.has
        if identity_key:
            self.add_universal([d.ty.k], lambda k: z3.Implies(has[k], val2[k] == self.to_term(at(k, "val"), vty)), "dict-comprehension")
            cnt = d.count
        else:
            inv = self.fresh("dcinv", z3.ArraySort(kty.sort(), d.ty.k.sort()))

            def fwd(j):
                kj = self.to_term(at(j, "key"), kty)
                self.touch(kty, kj)
                return z3.Implies(has[j], has2[kj])

            def bwd(k):
                j = inv[k]
                self.touch(d.ty.k, j)
                return z3.Implies(has2[k], z3.And(has[j], self.to_term(at(j, "key"), kty) == k, val2[k] == self.to_term(at(j, "val"), vty)))
            self.add_universal([d.ty.k], fwd, "dict-comprehension-forward")
            self.add_universal([kty], bwd, "dict-comprehension-inverse")
            cnt = self.fresh("dccount", z3.IntSort())
            self.assume(z3.And(cnt >= 0, cnt <= d.count, z3.Implies(d.count > 0, cnt > 0)))
        nd = DictV(TDict(kty, vty), has2, val2, cnt, {}, {})
        return self.new_box(nd)

    def m_ListV_insert(self, recv, args, kwargs):
        c = self.cont(recv)
        pos = z3.simplify(args[0].t) if isinstance(args[0], VInt) else None
        if pos is None or not z3.is_int_value(pos) or pos.as_long() != 0:
            raise Unsupported("list.insert at a position other than 0")
        xt = self.to_term(args[1], c.ty.e)
        arr2 = self.fresh("ins", c.arr.sort())
        old = c.arr
        self.touch(TInt, z3.IntVal(0))
        self.assume(arr2[0] == xt)
        self.add_universal([TInt], lambda i: z3.Implies(i >= 0, arr2[i + 1] == old[i]), "list-insert-front")
        self.set_cont(recv, c.replace(arr=arr2, n=c.n + 1, idx=None))
        return VNone

    def m_Empty_insert(self, recv, args, kwargs):
        self.list_append(recv, args[1])
        return VNone

    def m_DictV_items(self, recv, args, kwargs):
        raise Unsupported(".items() outside a supported comprehension/loop")

    def bi_collections_defaultdict(self, args, kwargs, node):
        # defaultdict(factory): modelled as a plain dict; code that relies on the implicit insertion on lookup is outside the model
        b = self.new_box(EmptyV("dict"))
        return b

    def binop(self, op, a, b):
        if self.spec_mode:
            # specifications are total: an optional operand stands for its value (meaningful under `is not None`)
            a = a.val if isinstance(a, VOpt) else a
            b = b.val if isinstance(b, VOpt) else b
        else:
            for x in (a, b):
                if isinstance(x, VOpt) and self.branch(x.isnone):
                    raise PyRaise(VExc("TypeError", [VStr("unsupported operand type(s): 'NoneType'")]))
            a = a.val if isinstance(a, VOpt) else a
            b = b.val if isinstance(b, VOpt) else b
        num = (VInt, VReal, VBool)
        if isinstance(a, VObj) and isinstance(b, num) and not isinstance(b, VObj):
            a = VReal(self.to_term(a, TReal))
        elif isinstance(b, VObj) and isinstance(a, num) and not isinstance(a, VObj):
            b = VReal(self.to_term(b, TReal))
        return super().binop(op, a, b)

    def m_DictV_get(self, recv, args, kwargs):
        d = self.cont(recv)
        if isinstance(d.ty.v, TObj) and len(args) > 1 and args[1] is not VNone and not d.ty.weak:
            # Obj-valued dict with a default: one merged value instead of two paths
            kt = self.to_term(args[0], d.ty.k)
            self.dict_lemmas(d, kt)
            return VObj(z3.If(d.has[kt], d.val[kt], self.box(args[1])))
        return super().m_DictV_get(recv, args, kwargs)

    # ------------------------------------------------------------------ objects used as dicts (nested configuration objects)
    def dict_has_uf(self):
        return z3.Function("dict_has", ObjSort, ObjSort, z3.BoolSort()), z3.Function("dict_val", ObjSort, ObjSort, ObjSort)

    def contains(self, c, x):
        if self.spec_mode and not self.pure_code:
            try:
                return self._contains(c, x)
            except (Unsupported, AttributeError, z3.Z3Exception):
                return self.fresh("undef_in", z3.BoolSort())    # specifications are total: ill-typed sub-terms are arbitrary
        return self._contains(c, x)

    def _contains(self, c, x):
        if isinstance(c, VObj):
            hit = (self.st.ghost.get("$boxed") or {}).get(z3.simplify(c.t).get_id())
            if hit is not None:
                return super().contains(VCont(hit[1]), x)
            has, _ = self.dict_has_uf()
            return has(c.t, self.box(x))
        if c is VNone and self.spec_mode:
            return z3.BoolVal(False)
        return super().contains(c, x)

    _pre_base = None

    def ev(self, n):
        pb = self._pre_base
        if pb is not None and n is pb[0]:
            self._pre_base = None
            return pb[1]
        return super().ev(n)

    def ev_Subscript(self, n):
        if self.spec_mode and not self.pure_code:
            try:
                return self._ev_Subscript(n)
            except (Unsupported, AttributeError, z3.Z3Exception):
                return VObj(self.fresh("undef_item", ObjSort))   # specifications are total
        return self._ev_Subscript(n)

    def _ev_Subscript(self, n):
        if isinstance(n.slice, ast.Slice):
            hooks = getattr(self.reg, "slice_hooks", None)
            if hooks:
                base = self.ev(n.value)
                if isinstance(base, VObj) and base.cls in hooks:
                    # assumed model of slicing a library object (e.g. pandas .iloc[a:b])
                    lo = self.ev(n.slice.lower) if n.slice.lower is not None else None
                    hi = self.ev(n.slice.upper) if n.slice.upper is not None else None
                    return hooks[base.cls](self, base, lo, hi)
                self._pre_base = (n.value, base)
                try:
                    return super().ev_Subscript(n)
                finally:
                    self._pre_base = None
            return super().ev_Subscript(n)
        base = self.ev(n.value)
        if base is VNone and self.spec_mode:
            return VObj(self.fresh("undef_item", ObjSort))
        if isinstance(base, VClass) and base.name in self.reg.enums:
            k = self.ev(n.slice)
            if isinstance(k, VObj) and not self.spec_mode:
                self.dyn_facts(k.t)
                if not self.branch(kind_of(k.t) == K_STR):
                    raise PyRaise(VExc("KeyError", [k]))   # Enum[non-string]
            kt = k.t if isinstance(k, VStr) else self.to_term(k, TStr)
            self.enum_name_axioms(base.name)
            members = self.reg.enums[base.name]
            if not self.spec_mode and not self.branch(z3.Or(*[kt == z3.StringVal(m) for m in members])):
                raise PyRaise(VExc("KeyError", [k]))
            return VObj(z3.Function("enum_by_name_" + base.name, z3.StringSort(), ObjSort)(kt), "enum:" + base.name)
        if isinstance(base, VObj):
            hit = (self.st.ghost.get("$boxed") or {}).get(z3.simplify(base.t).get_id())
            if hit is None:
                k = self.ev(n.slice)
                if isinstance(k, VInt):
                    ln, item = self.seq_ufs()
                    if not self.spec_mode and not self.branch(z3.And(0 <= k.t, k.t < ln(base.t))):
                        raise PyRaise(VExc("IndexError", []))
                    return VObj(item(base.t, k.t))
                has, val = self.dict_has_uf()
                kt = self.box(k)
                if not self.spec_mode and not self.branch(has(base.t, kt)):
                    raise PyRaise(VExc("KeyError", [k]))
                return VObj(val(base.t, kt))
            base = VCont(hit[1])
        self._pre_base = (n.value, base)    # the base is evaluated once; the generic subscript code picks it up
        try:
            return super().ev_Subscript(n)
        finally:
            self._pre_base = None

    def compare(self, op, a, b):
        if isinstance(op, (ast.Lt, ast.LtE, ast.Gt, ast.GtE)):
            if isinstance(a, VObj) and isinstance(b, (VInt, VReal, VBool)):
                a = VReal(self.to_term(a, TReal))
            elif isinstance(b, VObj) and isinstance(a, (VInt, VReal, VBool)):
                b = VReal(self.to_term(b, TReal))
        return super().compare(op, a, b)

    # ------------------------------------------------------------------ spec builtins: exists, first_index
    def sp_exists(self, n):
        """exists(T.., lambda xs: body) == not forall(T.., lambda xs: not body)"""
        *tnodes, lam = n.args
        neg = ast.Lambda(args=lam.args, body=ast.UnaryOp(op=ast.Not(), operand=lam.body))
        call = ast.Call(func=ast.Name(id="forall", ctx=ast.Load()), args=list(tnodes) + [neg], keywords=[])
        ast.fix_missing_locations(ast.Expression(body=call))
        self.pol = -self.pol
        try:
            v = self.sp_forall(call)
        finally:
            self.pol = -self.pol
        return VBool(z3.Not(v.t))

    def sp_first_index(self, n):
        """first_index(lst, lambda x: cond): the least index whose element satisfies cond, or len(lst) when none does.
        Definitional: the defining axioms are always satisfiable, so they are assumed wherever the term is used."""
        lst = self.cont(self.ev(n.args[0]))
        lam = n.args[1]
        if self.bound_ids or self.collector is not None:
            raise Unsupported("first_index under a quantifier")
        prm = lam.args.args[0].arg
        snap = self.st.snapshot()
        env0, old0 = dict(self.spec_env), self.old_state

        def cond(i):
            env = dict(env0)
            env[prm] = self.from_term(lst.arr[i], lst.ty.e)
            return self.in_state(snap.snapshot(), env, old0, lambda: self.truth(self.ev(lam.body)))
        key = ("first_index", ast.dump(lam), lst.arr.get_id(), lst.n.get_id())
        cache = self.st.ghost.setdefault("$first_index", {})
        if key in cache:
            return VInt(cache[key])
        f = self.fresh("first_ix", z3.IntSort())
        self.touch(TInt, f)
        saved_pol, self.pol = self.pol, 0
        try:
            cf = cond(f)
            self.assume(z3.And(0 <= f, f <= lst.n, z3.Implies(f < lst.n, cf)))
            n_ = lst.n
            self.add_universal([TInt], lambda j: z3.Implies(z3.And(0 <= j, j < f), z3.Not(cond(j))), "first-index-minimal")
        finally:
            self.pol = saved_pol
        cache = dict(cache)
        cache[key] = f
        self.st.ghost["$first_index"] = cache
        return VInt(f)

    def bi_reversed(self, args, kwargs, node):
        if isinstance(args[0], VObj):
            args = [self.iter_view(args[0])] + list(args[1:])      # an opaque sequence object: its list view
        if not isinstance(args[0], VCont):
            raise Unsupported("reversed(%r)" % (args[0],))
        c = self.cont(args[0])
        if isinstance(c, EmptyV):
            return args[0]
        if not isinstance(c, ListV):
            raise Unsupported("reversed over %s" % type(c).__name__)
        arr2 = self.fresh("rev", c.arr.sort())
        old, n_ = c.arr, c.n
        self.add_universal([TInt], lambda i: z3.Implies(z3.And(0 <= i, i < n_), arr2[i] == old[n_ - 1 - i]), "reversed")
        return self.new_box(ListV(c.ty, arr2, c.n))

    # ------------------------------------------------------------------ class-level mutable state (e.g. MementoFunction._global_fn_generation)
    def enum_name_axioms(self, cname):
        key = "enumnames:" + cname
        if key in self.enum_done or self.collector is not None:
            return
        self.enum_done.add(key)
        nm = z3.Function("enum_name", ObjSort, z3.StringSort())
        by = z3.Function("enum_by_name_" + cname, z3.StringSort(), ObjSort)
        for m in self.reg.enums[cname]:
            c = self.enum_member(cname, m).t
            self.assume(z3.And(nm(c) == z3.StringVal(m), by(z3.StringVal(m)) == c))

    def class_member(self, base, name):
        if base.name in self.reg.enums and name == "__getitem__":
            raise Unsupported("enum __getitem__")
        if not getattr(self.reg, "class_state", {}).get((base.name.split(".")[-1], name)) and base.module and base.name not in self.reg.enums:
            r = self.src.resolve_class(base.module, base.name.split(".")[0])
            node = self.src.module(r[0]).classes.get(base.name) if r else None
            for st_ in (node.body if node is not None else []):
                if isinstance(st_, (ast.Assign, ast.AnnAssign)):
                    tgt = st_.targets[0] if isinstance(st_, ast.Assign) else st_.target
                    val = st_.value
                    if isinstance(tgt, ast.Name) and tgt.id == name and val is not None and (
                            (isinstance(val, ast.Dict) and not val.keys) or (isinstance(val, ast.Call) and isinstance(val.func, ast.Name) and val.func.id == "dict" and not val.args)):
                        # a class-level dict: mutable state shared by every call so far -- its content at entry is arbitrary
                        g = "$clsdict:%s.%s" % (base.name, name)
                        if g not in self.st.ghost:
                            self.st.ghost[g] = self.sym(TDict(TObj(), TObj()), "clsdict_%s_%s" % (base.name.replace(".", "_"), name), record_input=True)
                        return self.st.ghost[g]
        cs = getattr(self.reg, "class_state", {}).get((base.name.split(".")[-1], name))
        if cs is not None:
            if cs not in self.st.ghost:
                raise Unsupported("class state %s.%s is not initialised (ghost %s)" % (base.name, name, cs))
            return self.st.ghost[cs]
        return super().class_member(base, name)

    def set_attr(self, base, name, v):
        if isinstance(base, VClass):
            cs = getattr(self.reg, "class_state", {}).get((base.name.split(".")[-1], name))
            if cs is None:
                raise Unsupported("store to class attribute %s.%s" % (base.name, name))
            self.st.ghost[cs] = v
            return
        return super().set_attr(base, name, v)

    def call(self, fv, args, kwargs, node=None):
        if isinstance(fv, VPyFunc):
            return fv.fn(*args)
        if isinstance(fv, (VStr, VInt, VBool, VReal, VRec, VTuple)) or fv is VNone:
            if self.spec_mode:
                raise Unsupported("call of a non-callable in a specification")
            raise PyRaise(VExc("TypeError", [VStr("object is not callable")]))
        if isinstance(fv, VOpt) and not self.spec_mode:
            if self.branch(fv.isnone):
                raise PyRaise(VExc("TypeError", [VStr("'NoneType' object is not callable")]))
            return self.call(fv.val, args, kwargs, node)
        return super().call(fv, args, kwargs, node)

    def to_str(self, v):
        if isinstance(v, (VCont, VTuple, VEnt, VBool, VReal)):
            f = self.fresh("repr", z3.StringSort())
            return f
        if isinstance(v, VOpt):
            return z3.If(v.isnone, z3.StringVal("None"), self.to_str(v.val))
        return super().to_str(v)

    def bi_hasattr(self, args, kwargs, node):
        o, nm = args
        if isinstance(o, VObj):
            if not self.bound_ids:
                self.touch(TObj(), o.t)
            return VBool(z3.Function("has_attr", ObjSort, ObjSort, z3.BoolSort())(o.t, self.box(nm)))
        if isinstance(o, VModule):
            # an imported module is one opaque object per module name; whether it has an attribute of a given (symbolic) name is a function of both
            m = z3.Const("module$" + o.name, ObjSort)
            return VBool(z3.Function("has_attr", ObjSort, ObjSort, z3.BoolSort())(m, self.box(nm)))
        raise Unsupported("hasattr on %r" % (o,))

    def pure_map(self, n, var, c):
        box = super().pure_map(n, var, c)
        src_term = getattr(c, "term", None)
        if src_term is not None and getattr(self.reg, "list_terms", False):
            # the mapped list as a value: maplist(<the element expression>, <source sequence value>)
            fkey = z3.Const("mapfn_" + str(abs(hash(ast.dump(n.elt))) % 10**8), ObjSort)
            self.cont(box).term = z3.Function("maplist", ObjSort, ObjSort, ObjSort)(fkey, src_term)
            self.touch(TObj(), fkey)
        return box

    def pure_filter(self, n, g, var, c):
        """Adds two consequences of the filter step rule (each by induction on the index, trusted): the filtered list is
        non-empty iff some source element passes the filter."""
        box = super().pure_filter(n, g, var, c)
        lst = self.cont(box)
        rank, n_ = lst.rank, c.n
        snap = self.st.snapshot()
        env0 = dict(self.st.env)

        def cond(i):
            def f():
                self.st.env = dict(env0)
                self.st.env[var] = self.from_term(c.arr[i], c.ty.e)
                return z3.And(*[self.truth(self.ev(x)) for x in g.ifs])
            return self.in_state(snap.snapshot(), {}, self.old_state, f, pure_code=True)
        self.add_universal([TInt], lambda i: z3.Implies(z3.And(0 <= i, i < n_, cond(i)), rank[n_] > 0), "filter-nonempty-if-some-pass")
        # every output element comes from a source element that passes the filter (ghost inverse of the rank; by induction, trusted)
        srcidx = self.fresh("filtersrc", z3.ArraySort(z3.IntSort(), z3.IntSort()))
        out_arr, out_n = lst.arr, lst.n
        ety = lst.ty.e

        def origin(j):
            p_ = srcidx[j]
            self.touch(TInt, p_)

            def elem():
                self.st.env = dict(env0)
                self.st.env[var] = self.from_term(c.arr[p_], c.ty.e)
                return self.to_term(self.ev(n.elt), ety)
            e_ = self.in_state(snap.snapshot(), {}, self.old_state, elem, pure_code=True)
            return z3.Implies(z3.And(0 <= j, j < out_n), z3.And(0 <= p_, p_ < n_, cond(p_), rank[p_] == j, out_arr[j] == e_))
        self.add_universal([TInt], origin, "filter-origin")
        w = self.fresh("fw", z3.IntSort())
        self.touch(TInt, w)
        saved = self.pol
        self.pol = 0
        try:
            self.assume(z3.Implies(rank[n_] > 0, z3.And(0 <= w, w < n_, cond(w))))
        finally:
            self.pol = saved
        return box

    # ------------------------------------------------------------------ sets built from iterables
    def image_set(self, src_has, src_kty, elem_fn, ety, bounds=None):
        """{elem_fn(x) | src_has(x)}: forward membership + ghost inverse (as for dict comprehensions)."""
        mem2 = self.fresh("imgmem", z3.ArraySort(ety.sort(), z3.BoolSort()))
        inv = self.fresh("imginv", z3.ArraySort(ety.sort(), src_kty.sort()))

        def fwd(x):
            y = self.to_term(elem_fn(x), ety)
            self.touch(ety, y)
            return z3.Implies(src_has(x), mem2[y])

        def bwd(y):
            x = inv[y]
            self.touch(src_kty, x)
            return z3.Implies(mem2[y], z3.And(src_has(x), self.to_term(elem_fn(x), ety) == y))
        self.add_universal([src_kty], fwd, "image-set-forward")
        self.add_universal([ety], bwd, "image-set-inverse")
        cnt = self.fresh("imgcount", z3.IntSort())
        self.assume(cnt >= 0)
        return self.new_box(SetV(TSet(ety), mem2, cnt))

    def comprehension(self, n, kind):
        if len(n.generators) == 1 and not self.spec_mode:
            it0 = self.iter_view(self.ev(n.generators[0].iter))     # opaque collection: its own iteration; `d.get(k, default)`: decided per path
            self._pre_base = (n.generators[0].iter, it0)
        if kind == "set" and len(n.generators) == 1 and not n.generators[0].is_async and isinstance(n.generators[0].target, ast.Name):
            g = n.generators[0]
            it = self.ev(g.iter)
            if isinstance(it, VCont):
                c = self.cont(it)
                var = g.target.id
                snap = self.st.snapshot()
                env0 = dict(self.st.env)
                if isinstance(c, SetV):
                    def at(x, what):
                        def f():
                            self.st.env = dict(env0)
                            self.st.env[var] = self.from_term(x, c.ty.e)
                            if what == "cond":
                                return z3.And(*[self.truth(self.ev(t)) for t in g.ifs]) if g.ifs else z3.BoolVal(True)
                            return self.ev(n.elt)
                        return self.in_state(snap.snapshot(), {}, self.old_state, f, pure_code=True)
                    probe = self.fresh("sp", c.ty.e.sort())
                    ety = self.type_of(at(probe, "elt"))
                    mem = c.mem
                    return self.image_set(lambda x: z3.And(mem[x], at(x, "cond")), c.ty.e, lambda x: at(x, "elt"), ety)
                if isinstance(c, ListV):
                    def at(i, what):
                        def f():
                            self.st.env = dict(env0)
                            self.st.env[var] = self.from_term(c.arr[i], c.ty.e)
                            if what == "cond":
                                return z3.And(*[self.truth(self.ev(t)) for t in g.ifs]) if g.ifs else z3.BoolVal(True)
                            return self.ev(n.elt)
                        return self.in_state(snap.snapshot(), {}, self.old_state, f, pure_code=True)
                    probe = self.fresh("sp", z3.IntSort())
                    ety = self.type_of(at(probe, "elt"))
                    n_ = c.n
                    return self.image_set(lambda i: z3.And(0 <= i, i < n_, at(i, "cond")), TInt, lambda i: at(i, "elt"), ety)
                if isinstance(c, EmptyV):
                    return self.new_box(EmptyV("set"))
        return super().comprehension(n, kind)

    def bi_set(self, args, kwargs, node):
        if args and node is not None and node.args and isinstance(node.args[0], ast.GeneratorExp):
            raise Unsupported("internal: set(genexp) is rewritten before evaluation")
        if args and isinstance(args[0], VCont):
            c = self.cont(args[0])
            if isinstance(c, SetV):
                return self.new_box(c)
            if isinstance(c, EmptyV):
                return self.new_box(EmptyV("set"))
            if isinstance(c, ListV):
                arr, n_ = c.arr, c.n
                return self.image_set(lambda i: z3.And(0 <= i, i < n_), TInt, lambda i: self.from_term(arr[i], c.ty.e), c.ty.e)
        return super().bi_set(args, kwargs, node)

    # ------------------------------------------------------------------ re.match on a pattern read from the source (pyvc.regex)
    def bi_re_match(self, args, kwargs, node):
        from . import regex as RX
        pat = z3.simplify(args[0].t) if isinstance(args[0], VStr) else None
        if pat is None or not z3.is_string_value(pat) or len(args) != 2 or kwargs:
            raise Unsupported("re.match with a non-constant pattern or flags")
        s = args[1]
        if not isinstance(s, VStr):
            s = VStr(self.to_term(s, TStr))
        try:
            enc = RX.Encoding(pat.as_string(), self.fresh)
            w = enc.new_vector("rx")
            feas, groups = enc.feasible(w, s.t, "rx")
            matched = self.fresh("rx_matched", z3.BoolSort())
            self.assume(z3.Implies(matched, feas))
            # whether a match exists does not depend on priorities: s has a prefix (all of s, with `$`) in the pattern's regular language
            lang = RX.language(enc.nodes)
            if not any(isinstance(x, RX.End) for x in enc.nodes):
                lang = z3.Concat(lang, z3.Full(z3.ReSort(z3.StringSort())))
            self.assume(matched == z3.InRe(s.t, lang))
            c = self.frame_contract()
            for hint in (c.labels.get("regex_hints", []) if c else []):
                if not hint:
                    continue
                hg, optlits = {}, []
                for key, expr in hint.items():
                    if key == "optional_literals":
                        continue
                    val = self.eval_spec_value(expr)
                    gid = enc.names[key] if key in enc.names else int(key)
                    if val is VNone:
                        hg[gid] = (z3.BoolVal(True), z3.StringVal(""))
                    elif isinstance(val, VOpt):
                        hg[gid] = (val.isnone, val.val.t)
                    elif isinstance(val, VStr):
                        hg[gid] = (z3.BoolVal(False), val.t)
                    else:
                        raise Unsupported("regex hint value %r" % (val,))
                for e in hint.get("optional_literals", []):
                    optlits.append(self.truth(self.eval_spec_value(e)) if isinstance(e, str) else z3.BoolVal(bool(e)))
                w0 = enc.vector_from_groups(hg, optlits)
                f0, _ = enc.feasible(w0, s.t, "rxh", pieces=w0.pieces)
                self.assume(z3.Implies(f0, z3.And(matched, enc.at_least_as_preferred(w, w0))))
        except RX.RegexUnsupported as e:
            raise Unsupported("regular expression: %s" % e)
        return VMatch(matched, groups, enc.names)

    def call_spec_index(self, listspec, f, q):
        """listspec(f)[q] for a z3 Int term q (helper for spec builtins defined in contract modules)."""
        lst = self.call_spec(listspec, [f])
        ln, item = self.seq_ufs()
        return VObj(item(lst.t, q)) if isinstance(lst, VObj) else self.from_term(self.cont(lst).arr[q], self.cont(lst).ty.e)

    def eval_spec_value(self, expr):
        node = self.parse_clause(expr)
        saved = (self.spec_env, self.pol)
        self.spec_env = dict(self.st.env)
        self.spec_mode += 1
        self.pol = 0
        try:
            return self.ev(node)
        finally:
            self.spec_mode -= 1
            self.spec_env, self.pol = saved

    def match_group(self, m, gid):
        part, val = m.groups[gid]
        return VOpt(z3.Not(z3.And(m.matched, part)), VStr(val))

    def m_str_find(self, recv, args, kwargs):
        start = args[1].t if len(args) > 1 else z3.IntVal(0)
        return VInt(z3.IndexOf(recv.t, args[0].t, start))

    def m_str_rfind(self, recv, args, kwargs):
        """s.rfind(sub): -1 when sub does not occur, else the start of an occurrence after which no further occurrence starts
        (axiomatised: string solvers handle this form far better than seq.last_indexof)."""
        sub = args[0].t
        r = self.fresh("rfind", z3.IntSort())
        sv = recv.t
        n, m = z3.Length(sv), z3.Length(sub)
        self.assume(z3.Or(z3.And(r == -1, z3.Not(z3.Contains(sv, sub))),
                          z3.And(r >= 0, r + m <= n, z3.SubString(sv, r, m) == sub, z3.Not(z3.Contains(z3.SubString(sv, r + 1, n - r - 1), sub)))))
        return VInt(r)

    def m_str_partition(self, recv, args, kwargs):
        """s.partition(sep): (head, sep, tail) split at the FIRST occurrence of sep; (s, '', '') when sep does not occur."""
        sv, sep = recv.t, args[0].t
        i = z3.IndexOf(sv, sep, 0)
        found = i >= 0
        n, m = z3.Length(sv), z3.Length(sep)
        return VTuple([VStr(z3.If(found, z3.SubString(sv, 0, i), sv)), VStr(z3.If(found, sep, z3.StringVal(""))),
                       VStr(z3.If(found, z3.SubString(sv, i + m, n - i - m), z3.StringVal("")))])

    def m_str_rpartition(self, recv, args, kwargs):
        """s.rpartition(sep): (head, sep, tail) split at the LAST occurrence of sep; ('', '', s) when sep does not occur."""
        sv, sep = recv.t, args[0].t
        i = z3.LastIndexOf(sv, sep)
        found = i >= 0
        n, m = z3.Length(sv), z3.Length(sep)
        return VTuple([VStr(z3.If(found, z3.SubString(sv, 0, i), z3.StringVal(""))), VStr(z3.If(found, sep, z3.StringVal(""))),
                       VStr(z3.If(found, z3.SubString(sv, i + m, n - i - m), sv))])

    def m_str_replace(self, recv, args, kwargs):
        """s.replace(a, b): modelled with the first-occurrence replacement; exact when a occurs at most once (obligation below)."""
        a_, b_ = args[0].t, args[1].t
        sv = recv.t
        i = z3.IndexOf(sv, a_, 0)
        once = z3.Or(i < 0, z3.Not(z3.Contains(z3.SubString(sv, i + 1, z3.Length(sv)), a_)))
        if not self.spec_mode:
            self.oblige("replace-pattern-occurs-at-most-once", once, kind="safety", info={"clause": "str.replace is modelled for at most one occurrence of the pattern"})
            self.assume(once)
        return VStr(z3.Replace(sv, a_, b_))

    def sp_full_match(self, n):
        """full_match(s, 'regex'): s is in the regular language of the pattern (supported regex subset)."""
        from . import regex as RX
        sv = self.ev(n.args[0])
        if isinstance(sv, VOpt):
            sv = sv.val
        pat = n.args[1].value
        try:
            nodes, _, _ = RX.parse(pat)
        except RX.RegexUnsupported as e:
            raise Unsupported("regular expression: %s" % e)
        return VBool(z3.InRe(sv.t, RX.language(nodes)))

    def bi_tuple(self, args, kwargs, node):
        if "tuple" in self.reg.constructors:
            return self.reg.constructors["tuple"](self, args, kwargs)
        if not args:
            return VTuple([])
        raise Unsupported("tuple(x)")

    def bi_len(self, args, kwargs, node):
        if args and args[0] is VNone and self.spec_mode:
            return VInt(self.fresh("undef_len", z3.IntSort()))
        if args and isinstance(args[0], VObj):
            hit = (self.st.ghost.get("$boxed") or {}).get(z3.simplify(args[0].t).get_id())
            if hit is not None:
                return super().bi_len([VCont(hit[1])], kwargs, node)
            n = self.seq_ufs()[0](args[0].t)
            self.assume(n >= 0)
            return VInt(n)
        if args and isinstance(args[0], VOpt) and self.spec_mode:
            return super().bi_len([args[0].val], kwargs, node)
        return super().bi_len(args, kwargs, node)

    def bi_callable(self, args, kwargs, node):
        v = args[0]
        if isinstance(v, VObj):
            return VBool(z3.Function("callable_obj", ObjSort, z3.BoolSort())(v.t))
        return VBool(isinstance(v, (VFunc, VLambda, VClass, VBuiltin)))

    def bi_repr(self, args, kwargs, node):
        if "repr" in self.reg.constructors:
            return self.reg.constructors["repr"](self, args, kwargs)
        return VStr(self.fresh("repr", z3.StringSort()))

    def m_str_encode(self, recv, args, kwargs):
        return VObj(z3.Function("utf8", z3.StringSort(), ObjSort)(recv.t), "bytes")

    def m_str_join(self, recv, args, kwargs):
        lst = self.cont(args[0]) if args and isinstance(args[0], VCont) else None
        term = getattr(lst, "term", None)
        if term is not None:
            # the joined text is a function of the separator and of the list *as a value* (term-carrying lists: see pure_map / bi_sorted)
            return VStr(z3.Function("joinl", z3.StringSort(), ObjSort, z3.StringSort())(recv.t, term))
        return VStr(self.fresh("joined", z3.StringSort()))

    def m_str_split(self, recv, args, kwargs):
        """s.split(sep): a list of strings none of which contains sep, equal to [s] when s does not contain sep (sep a non-empty
        constant).  The list is a function of (s, sep)."""
        sep = z3.simplify(args[0].t) if args and isinstance(args[0], VStr) else None
        if sep is None or not z3.is_string_value(sep) or not sep.as_string():
            raise Unsupported("str.split without a constant separator")
        S, I = z3.StringSort(), z3.IntSort()
        arr = z3.Function("split_arr", S, S, z3.ArraySort(I, S))(recv.t, sep)
        n = z3.Function("split_n", S, S, I)(recv.t, sep)
        self.assume(n >= 1)
        if not self.bound_ids:
            self.add_universal([TInt], lambda i: z3.Implies(z3.And(0 <= i, i < n), z3.Not(z3.Contains(arr[i], sep))), "split-pieces")
        self.assume(z3.Implies(z3.Not(z3.Contains(recv.t, sep)), z3.And(n == 1, arr[0] == recv.t)))
        self.touch(TInt, z3.IntVal(0))
        return self.new_box(ListV(TList(TStr), arr, n))

    def bi_getattr(self, args, kwargs, node):
        o, nm = args[0], args[1]
        nmv = z3.simplify(nm.t) if isinstance(nm, VStr) else None
        if isinstance(o, VObj) and nmv is not None and z3.is_string_value(nmv) and nmv.as_string() in self.reg.attrs:
            # a declared attribute read through getattr: hasattr decides between the attribute and the default / AttributeError
            has = z3.Function("has_attr", ObjSort, ObjSort, z3.BoolSort())
            if self.branch(has(o.t, self.box(nm))):
                return self.get_attr(o, nmv.as_string(), node)
            if len(args) == 3:
                return args[2]
            raise PyRaise(VExc("AttributeError", []))
        if isinstance(o, VObj) and len(args) == 2:
            has = z3.Function("has_attr", ObjSort, ObjSort, z3.BoolSort())
            key = self.box(nm)
            if not self.spec_mode and not self.branch(has(o.t, key)):
                raise PyRaise(VExc("AttributeError", []))
            return VObj(z3.Function("getattr_", ObjSort, ObjSort, ObjSort)(o.t, key))
        raise Unsupported("getattr on %r" % (o,))

    # ------------------------------------------------------------------ opaque objects used as sequences / mappings (wire-format documents)
    def seq_ufs(self):
        return z3.Function("seq_len", ObjSort, z3.IntSort()), z3.Function("seq_item", ObjSort, z3.IntSort(), ObjSort)

    def obj_as_list(self, v):
        """An opaque object iterated as a sequence: a list view whose length and items are functions of the object."""
        ln, item = self.seq_ufs()
        key = ("$seqview", z3.simplify(v.t).get_id())
        views = self.st.ghost.setdefault("$seqviews", {})
        if key in views and not self.bound_ids:
            return views[key]
        arr = self.fresh("seqarr", z3.ArraySort(z3.IntSort(), ObjSort))
        n = ln(v.t)
        self.assume(n >= 0)
        if self.bound_ids or self.collector is not None:
            raise Unsupported("iteration over an object that depends on a quantified variable")
        t = v.t
        self.add_universal([TInt], lambda i: arr[i] == item(t, i), "sequence-view")
        # iterating a collection yields exactly its members (for mappings: its keys): membership and the sequence view agree
        has = self.dict_has_uf()[0]
        idx = z3.Function("seq_index", ObjSort, ObjSort, z3.IntSort())
        def yields(i):
            self.touch(TObj(), item(t, i))
            return z3.Implies(z3.And(0 <= i, i < n), has(t, item(t, i)))

        def yielded(x):
            self.touch(TInt, idx(t, x))
            return z3.Implies(has(t, x), z3.And(0 <= idx(t, x), idx(t, x) < n, item(t, idx(t, x)) == x))
        self.add_universal([TInt], yields, "iteration-yields-members")
        self.add_universal([TObj()], yielded, "members-are-yielded")
        lv = ListV(TList(TObj()), arr, n)
        if getattr(self.reg, "iter_term", None) is not None:
            lv.term = self.reg.iter_term(self, v.t)      # the iteration as a value (e.g. seeded for hash-ordered collections)
        box = self.new_box(lv)
        views = dict(views)
        views[key] = box
        self.st.ghost["$seqviews"] = views
        return box

    def obj_as_dict(self, v):
        has, val = self.dict_has_uf()
        bs = z3.Function("box_str", z3.StringSort(), ObjSort)
        h = self.fresh("mapviewhas", z3.ArraySort(z3.StringSort(), z3.BoolSort()))
        w = self.fresh("mapviewval", z3.ArraySort(z3.StringSort(), ObjSort))
        t = v.t
        if self.bound_ids or self.collector is not None:
            raise Unsupported("iteration over an object that depends on a quantified variable")
        self.add_universal([TStr], lambda k: z3.And(h[k] == has(t, bs(k)), w[k] == val(t, bs(k))), "mapping-view")
        cnt = self.fresh("mapviewcount", z3.IntSort())
        self.assume(cnt >= 0)
        return self.new_box(DictV(TDict(TStr, TObj()), h, w, cnt, {}, {}))

    # ------------------------------------------------------------------ contract-bearing callees inside comprehensions
    _pure_raises = None

    def call_function(self, fi, args, kwargs, node=None):
        c = self.reg.contracts.get(fi.fid)
        if self.spec_mode and self.pure_code and c is not None and not c.pure and fi.fid not in self.reg.func_hooks:
            return self.functional_summary(fi, c, args, kwargs)
        return super().call_function(fi, args, kwargs, node)

    def functional_summary(self, fi, c, args, kwargs):
        """A callee with a contract, called on every element of a comprehension: its result is a function of its arguments
        (ret_<callee>(args)) about which the callee's postconditions are assumed; its exceptions are raised by the comprehension
        as a whole (recorded here, branched on by the caller).  Callees that modify state are not supported in this position."""
        if any(not m.startswith("ghost:") for m in c.modifies):
            raise Unsupported("call of %s in a specification: the callee modifies state (needs a loop invariant)" % fi.fid)
        binding = self.bind_params(fi, args, kwargs)
        for p_, ty in c.types.items():
            if p_ in binding and p_ != "return":
                binding[p_] = self.coerce(binding[p_], ty)
        names = [p_ for p_ in binding if not isinstance(binding[p_], (VClass,))]
        terms = []
        for p_ in names:
            terms.append(self.box(binding[p_]))
        f = z3.Function("ret_" + fi.fid.replace(":", "_").replace(".", "_"), *([ObjSort] * len(terms) + [ObjSort]))
        r = f(*terms) if terms else f()
        rty = c.returns
        if rty is None:
            res = VNone
        elif isinstance(rty, (TDict, TList, TSet, TObj)):
            res = VObj(r)
            if isinstance(rty, (TDict, TList, TSet)) or (isinstance(rty, TObj) and (rty.cls or "").startswith("nn:")):
                self.assume(r != PyNone)
        elif isinstance(rty, TRec):
            # a record-valued callee (e.g. a named tuple): its own result function, of the record's sort
            fr = z3.Function("retrec_" + fi.fid.replace(":", "_").replace(".", "_"), *([ObjSort] * len(terms) + [rty.sort()]))
            res = self.from_term(fr(*terms) if terms else fr(), rty)
        else:
            res = self.from_term(self.unbox(VObj(r), rty) if rty in (TStr, TInt, TBool, TReal) else r, rty)
        env2 = dict(binding)
        env2["ret"] = res
        if "result" not in binding:
            env2["result"] = res
        pre = self.st.snapshot()
        for cl in c.ensures:
            try:
                self.assume_clause(cl, spec_env=env2, old=pre, env={})
            except Unsupported as e:
                if "nested universal" not in str(e) and "unresolved name" not in str(e):
                    raise
                # a quantified postcondition (or one that names the callee's locals) cannot be instantiated per element here; it is
                # simply not used (assuming less is sound)
        if self._pure_raises is not None:
            # an exception whose raise clause is the literal `False` is promised never to be raised: it is not an outcome of the comprehension either
            self._pure_raises.update([e_ for e_ in c.raises if not any(str(cl_).strip() == "False" for cl_ in c.raises[e_])] + list(c.when_raises))
        return res

    def with_pure_raises(self, build):
        """Run a comprehension builder; afterwards, if a callee used inside may raise, the whole comprehension may raise it."""
        saved = self._pure_raises
        self._pure_raises = set()
        try:
            out = build()
            raises = sorted(self._pure_raises)
        finally:
            self._pure_raises = saved
        if raises and not self.spec_mode:
            i = self.choose([z3.BoolVal(True)] * (len(raises) + 1))
            if i > 0:
                e = raises[i - 1]
                raise PyRaise(VExc(e.rstrip("+"), [], exact=not e.endswith("+")))
        return out

    def ev_ListComp(self, n):
        return self.with_pure_raises(lambda: super(Dyn, self).ev_ListComp(n))

    def ev_GeneratorExp(self, n):
        return self.with_pure_raises(lambda: super(Dyn, self).ev_GeneratorExp(n))

    def ev_SetComp(self, n):
        return self.with_pure_raises(lambda: super(Dyn, self).ev_SetComp(n))



    # ------------------------------------------------------------------ dict(x), d.copy(), d.update(x), list slices
    def bi_dict(self, args, kwargs, node):
        if len(args) == 1 and not kwargs:
            v = args[0]
            if isinstance(v, VObj):
                hit = (self.st.ghost.get("$boxed") or {}).get(z3.simplify(v.t).get_id())
                if hit is None:
                    if not self.spec_mode and not self.branch(v.t != PyNone):
                        raise PyRaise(VExc("TypeError", [VStr("'NoneType' object is not iterable")]))
                    return self.obj_as_dict(v)
                v = VCont(hit[1])
            if isinstance(v, VCont):
                c = self.cont(v)
                if isinstance(c, EmptyV):
                    return self.new_box(EmptyV("dict"))
                if isinstance(c, DictV):
                    return self.new_box(c.replace())
        return super().bi_dict(args, kwargs, node)

    def m_DictV_copy(self, recv, args, kwargs):
        return self.new_box(self.cont(recv).replace())

    def m_Empty_copy(self, recv, args, kwargs):
        return self.new_box(EmptyV(self.cont(recv).kind))

    def m_Empty_update(self, recv, args, kwargs):
        src = args[0]
        if isinstance(src, VObj):
            self.materialize(recv, TDict(TStr, TObj()))
            return self.m_DictV_update(recv, args, kwargs)
        if isinstance(src, VCont) and isinstance(self.cont(src), EmptyV):
            return VNone
        if isinstance(src, VCont):
            self.set_cont(recv, self.cont(src).replace())
            return VNone
        raise Unsupported("update of an empty dict with %r" % (src,))

    def m_DictV_update(self, recv, args, kwargs):
        """d.update(other): other's entries override d's; all other entries stay."""
        d = self.cont(recv)
        src = args[0]
        if isinstance(src, VObj):
            hit = (self.st.ghost.get("$boxed") or {}).get(z3.simplify(src.t).get_id())
            src = VCont(hit[1]) if hit is not None else self.obj_as_dict(src)
        o = self.cont(src)
        if isinstance(o, EmptyV):
            return VNone
        if not isinstance(o, DictV) or o.ty.k != d.ty.k:
            raise Unsupported("dict.update with %r" % (o,))
        has2 = self.fresh("updhas", d.has.sort())
        val2 = self.fresh("updval", d.val.sort())
        dh, dv, oh, ov = d.has, d.val, o.has, o.val
        conv = (lambda t: t) if repr(o.ty.v) == repr(d.ty.v) else None
        if conv is None:
            raise Unsupported("dict.update between different value types")
        self.add_universal([d.ty.k], lambda k: z3.And(has2[k] == z3.Or(dh[k], oh[k]), val2[k] == z3.If(oh[k], ov[k], dv[k])), "dict-update")
        cnt = self.fresh("updcount", z3.IntSort())
        self.assume(z3.And(cnt >= d.count, cnt >= o.count, cnt <= d.count + o.count))
        self.set_cont(recv, DictV(d.ty, has2, val2, cnt, {}, {}))
        return VNone

    def slice(self, base, sl):
        if isinstance(base, VObj) and sl.step is None:
            hit = (self.st.ghost.get("$boxed") or {}).get(z3.simplify(base.t).get_id())
            base = VCont(hit[1]) if hit is not None else self.obj_as_list(base)
        if isinstance(base, VCont) and sl.step is None and isinstance(self.cont(base), ListV):
            c = self.cont(base)
            lo = self.ev(sl.lower).t if sl.lower is not None else z3.IntVal(0)
            hi = self.ev(sl.upper).t if sl.upper is not None else c.n

            def norm(t):
                return z3.If(t < 0, z3.If(t + c.n < 0, 0, t + c.n), z3.If(t > c.n, c.n, t))
            a, b = norm(lo), norm(hi)
            n2 = z3.If(b - a < 0, 0, b - a)
            arr2 = self.fresh("slice", c.arr.sort())
            old = c.arr
            self.add_universal([TInt], lambda i: z3.Implies(z3.And(0 <= i, i < n2), arr2[i] == old[i + a]), "list-slice")
            return self.new_box(ListV(c.ty, arr2, n2))
        return super().slice(base, sl)



    # ------------------------------------------------------------------ for (k, v) in d.items() / for k in <object>
    def st_For(self, s):
        it = s.iter
        if isinstance(it, ast.Call) and isinstance(it.func, ast.Attribute) and it.func.attr in ("items", "keys", "values") and not it.args and not self.spec_mode:
            src = self.ev(it.func.value)
            keys, lookup = None, None
            while isinstance(src, VObj) and z3.is_app_of(z3.simplify(src.t), z3.Z3_OP_ITE):
                # dict.get(k, default) of a typed dict: "the stored value if present else the default" -- decide which on this path
                c_, a_, b_ = z3.simplify(src.t).children()
                src = VObj(a_ if self.branch(c_) else b_, src.cls)
            if isinstance(src, VObj):
                hit_ = (self.st.ghost.get("$boxed") or {}).get(z3.simplify(src.t).get_id())
                if hit_ is not None:
                    src = VCont(hit_[1])      # the object standing for a container built in this function (e.g. the `{}` default of dict.get): the container itself
            if isinstance(src, VObj) and (self.st.ghost.get("$boxed") or {}).get(z3.simplify(src.t).get_id()) is None:
                if not self.branch(src.t != PyNone):
                    raise PyRaise(VExc("AttributeError", []))
                keys = self.obj_as_list(src)           # iterating a mapping yields its keys
                kl = self.cont(keys)
                if kl.idx is None:
                    # ... each key once: the position of a key in the iteration is a function of the key (ghost inverse for pos())
                    ln_, item_ = self.seq_ufs()
                    sidx = z3.Function("seq_index", ObjSort, ObjSort, z3.IntSort())
                    idxarr = self.fresh("keyidx", z3.ArraySort(ObjSort, z3.IntSort()))
                    t_ = src.t
                    self.add_universal([TObj()], lambda x: idxarr[x] == sidx(t_, x), "key-position")
                    self.add_universal([TInt], lambda i: z3.Implies(z3.And(0 <= i, i < ln_(t_)), sidx(t_, item_(t_, i)) == i), "mapping-keys-are-distinct")
                    kl.idx = idxarr
                _, val = self.dict_has_uf()
                lookup = lambda k: VObj(val(src.t, k.t if isinstance(k, VObj) else self.box(k)))
            elif isinstance(src, VCont) and isinstance(self.cont(src), DictV) and self.cont(src).order is not None:
                d = self.cont(src)
                keys = self.new_box(d.order)
                lookup = lambda k: self.from_term(d.val[self.to_term(k, d.ty.k)], d.ty.v)
            elif isinstance(src, VCont) and isinstance(self.cont(src), EmptyV):
                self.exec_block(s.orelse)
                return
            if keys is not None:
                mode = it.func.attr
                kname = "_loop_key%d" % self._bump()
                if mode == "items" and isinstance(s.target, (ast.Tuple, ast.List)) and len(s.target.elts) == 2:
                    pre = [ast.Assign(targets=[s.target.elts[0]], value=ast.Name(id=kname, ctx=ast.Load())),
                           ast.Assign(targets=[s.target.elts[1]], value=ast.Call(func=ast.Name(id="__lookup__", ctx=ast.Load()), args=[ast.Name(id=kname, ctx=ast.Load())], keywords=[]))]
                elif mode == "keys":
                    pre = [ast.Assign(targets=[s.target], value=ast.Name(id=kname, ctx=ast.Load()))]
                elif mode == "values":
                    pre = [ast.Assign(targets=[s.target], value=ast.Call(func=ast.Name(id="__lookup__", ctx=ast.Load()), args=[ast.Name(id=kname, ctx=ast.Load())], keywords=[]))]
                else:
                    raise Unsupported("for-loop target over .%s()" % mode)
                self.st.env["__lookup__"] = VPyFunc(lookup)
                loop2 = ast.For(target=ast.Name(id=kname, ctx=ast.Store()), iter=s.iter, body=pre + list(s.body), orelse=s.orelse)
                for n_ in ast.walk(loop2):
                    ast.copy_location(n_, s)
                ast.fix_missing_locations(loop2)
                ordinal = self.loop_ordinal_of(self.frame.fi, s)
                return self.loop(loop2, loop2.target, keys, ordinal=ordinal)
            if os.environ.get("PYVC_DEBUG_FOR"):
                print("FOR-FALLTHROUGH", repr(src), type(self.cont(src)).__name__ if isinstance(src, VCont) else "", file=sys.stderr)
        return super().st_For(s)

    def coerce(self, v, ty):
        """An opaque object passed where the callee's contract declares a str parameter: its string value when it is a string; a feasible
        non-string argument is outside what the callee's contract describes."""
        if ty is TStr and isinstance(v, VObj) and not self.spec_mode:
            self.dyn_facts(v.t)
            if not self.branch(kind_of(v.t) == K_STR):
                raise Unsupported("a value that may not be a string is passed for a str parameter of a function applied by contract")
            return VStr(z3.Function("unbox_str", ObjSort, z3.StringSort())(v.t))
        return super().coerce(v, ty)

    def exc_of_obj(self, v):
        """raise <object>: an instance of Exception (of an unknown subclass) is raised as itself; anything else is a TypeError."""
        if not self.branch(self.class_pred("Exception")(v.t)):
            return VExc("TypeError", [VStr("exceptions must derive from BaseException")])
        return VExc("Exception", [], exact=False, tag=v.t)

    def iter_view(self, it):
        """for x in <opaque collection object>: the object's own iteration (a sequence view whose length and items are functions of the object);
        iterating None raises TypeError."""
        while isinstance(it, VObj) and not self.spec_mode and z3.is_app_of(z3.simplify(it.t), z3.Z3_OP_ITE):
            c_, a_, b_ = z3.simplify(it.t).children()      # dict.get(k, default): decide on this path which one it is
            it = VObj(a_ if self.branch(c_) else b_, it.cls)
        if isinstance(it, VObj) and not self.spec_mode:
            hit = (self.st.ghost.get("$boxed") or {}).get(z3.simplify(it.t).get_id())
            if hit is not None:
                return VCont(hit[1])
            if not self.branch(it.t != PyNone):
                raise PyRaise(VExc("TypeError", [VStr("'NoneType' object is not iterable")]))
            return self.obj_as_list(it)
        return it

    # ------------------------------------------------------------------ sorted(), list(set), set.update(keys)
    def bi_sorted(self, args, kwargs, node):
        """sorted(c) of a duplicate-free collection of strings (set, dict keys, duplicate-free list): a duplicate-free list with the same
        members, strictly increasing."""
        keyfn = kwargs.get("key")
        if len(args) == 1 and isinstance(args[0], VObj) and getattr(self.reg, "list_terms", False) and not self.spec_mode:
            args = [self.obj_as_list(args[0])]       # an opaque collection: sorted() consumes its iteration
        if (set(kwargs) - {"key"}) or len(args) != 1 or not isinstance(args[0], VCont):
            raise Unsupported("sorted(...) of this shape")
        c = self.cont(args[0])
        if keyfn is not None and isinstance(c, ListV) and c.idx is None and getattr(c, "term", None) is not None:
            # sorted(<sequence value>, key=f): a permutation of the source; as a value it is sortedbyl(f, <source value>) -- NOT a function of the
            # source's multiset unless f separates its elements (ties keep the source order), so nothing is known about it under another
            # iteration order.  A failed obligation that rests on this is only reported when it reproduces natively.
            arr = self.fresh("sortedby", c.arr.sort())
            out = ListV(c.ty, arr, c.n)
            kid = keyfn.name if isinstance(keyfn, VBuiltin) else (ast.dump(keyfn.node) if isinstance(keyfn, VLambda) else repr(keyfn))
            fkey = z3.Const("sortkey_" + str(abs(hash(kid)) % 10**8), ObjSort)
            out.term = z3.Function("sortedbyl", ObjSort, ObjSort, ObjSort)(fkey, c.term)
            self.uninterpreted_sort_key = True
            self.notes.append("sorted(..., key=%s) of a sequence value: ties keep the source's iteration order; the result is an uninterpreted permutation" % (getattr(keyfn, "name", "<lambda>")))
            return self.new_box(out)
        if keyfn is not None and not (isinstance(c, SetV) and isinstance(c.ty.e, TObj) and isinstance(keyfn, VLambda)):
            raise Unsupported("sorted(..., key=...) of this shape")
        if isinstance(c, EmptyV):
            return self.new_box(EmptyV("list"))
        if isinstance(c, DictV):
            ety, member, cnt = c.ty.k, (lambda k, h=c.has: h[k]), c.count
        elif isinstance(c, SetV):
            ety, member, cnt = c.ty.e, (lambda k, m=c.mem: m[k]), c.count
        elif isinstance(c, ListV) and c.idx is not None:
            arr0, n0, idx0 = c.arr, c.n, c.idx
            ety, member, cnt = c.ty.e, (lambda k: z3.And(0 <= idx0[k], idx0[k] < n0, arr0[idx0[k]] == k)), c.n
        elif isinstance(c, ListV):
            # a list that may hold duplicates: a list of the same length (a permutation of the source; only the length is modelled);
            # as a value it is sortedl(<source list value>) when the source carries its value term
            arr = self.fresh("sortedany", c.arr.sort())
            out = ListV(c.ty, arr, c.n)
            if getattr(c, "term", None) is not None:
                out.term = z3.Function("sortedl", ObjSort, ObjSort)(c.term)
            return self.new_box(out)
        else:
            raise Unsupported("sorted of %r" % (c,))
        if isinstance(c, SetV) and isinstance(ety, TObj):
            # sorted(set of objects) (objects ordered by their own __lt__): a duplicate-free list of exactly the members whose order is a
            # function of the SET (canonical_order of the membership), provided the ordering is total on the members (stated by the caller)
            ident = getattr(self.reg, "set_identity_attr", None)
            if ident is not None and not self.spec_mode:
                # The result is a function of the SET only if the sort order is total on its members: ties are left in the set's iteration
                # order (hash-seed dependent).  Members of a set are pairwise different under the elements' own __eq__ -- identity attribute
                # `ident` (declared by the contract module from the class's __eq__/__hash__, which are proved separately).
                a_, b_ = self.fresh_obj("sort_a"), self.fresh_obj("sort_b")
                ia, ib = self.get_attr(VObj(a_), ident), self.get_attr(VObj(b_), ident)
                hyp = z3.And(c.mem[a_], c.mem[b_], z3.Not(self.equal(ia, ib)))
                if keyfn is None:
                    order_attr = getattr(self.reg, "set_order_attr", ident)
                    goal = z3.Not(self.equal(self.get_attr(VObj(a_), order_attr), self.get_attr(VObj(b_), order_attr)))
                else:
                    ka, kb = self.call_lambda(keyfn, [VObj(a_)], {}), self.call_lambda(keyfn, [VObj(b_)], {})
                    goal = z3.Not(self.equal(ka, kb))
                self.oblige("sort-order-is-total-on-the-set-members", z3.Implies(hyp, goal), kind="determinism",
                            info={"clause": "sorted(<set>): two different members never compare equal under the sort key (otherwise their relative order is the set's iteration order)"})
                self.assume(z3.Implies(hyp, goal))
            elif keyfn is not None:
                raise Unsupported("sorted(set, key=...) without a declared identity attribute of the elements")
            A = z3.ArraySort(ObjSort, z3.BoolSort())
            arr = z3.Function("canonical_order" if keyfn is None else "canonical_order_%d" % (abs(hash(ast.dump(keyfn.node))) % 10**8), A, z3.ArraySort(z3.IntSort(), ObjSort))(c.mem)
            n = z3.Function("cardinality", A, z3.IntSort())(c.mem)
            idx = z3.Function("canonical_position", A, z3.ArraySort(ObjSort, z3.IntSort()))(c.mem)
            self.assume(n >= 0)
            lst = ListV(TList(ety), arr, n, idx)
            mem_ = c.mem
            self.injlist_facts(lst, lambda k: mem_[k])
            return self.new_box(lst)
        if ety is not TStr:
            raise Unsupported("sorted of non-string elements")
        arr = self.fresh("sorted", z3.ArraySort(z3.IntSort(), ety.sort()))
        idx = self.fresh("sortedidx", z3.ArraySort(ety.sort(), z3.IntSort()))
        n = self.fresh("nsorted", z3.IntSort())
        self.assume(z3.And(n >= 0, n == cnt) if not isinstance(c, SetV) else n >= 0)
        lst = ListV(TList(ety), arr, n, idx)
        self.injlist_facts(lst, member)
        self.add_universal([TInt, TInt], lambda i, j: z3.Implies(z3.And(0 <= i, i < j, j < n), arr[i] < arr[j]), "sorted-increasing")
        lst.sorted = True
        return self.new_box(lst)

    def sp_is_sorted(self, n):
        l = self.cont(self.ev(n.args[0]))
        if isinstance(l, EmptyV):
            return VBool(True)
        arr, n_ = l.arr, l.n
        i = self.fresh("si", z3.IntSort())
        j = self.fresh("sj", z3.IntSort())
        self.touch(TInt, i)
        self.touch(TInt, j)
        if self.pol >= 0:
            raise Unsupported("is_sorted in an assumed position")
        return VBool(z3.Implies(z3.And(0 <= i, i < j, j < n_), arr[i] < arr[j]))

    def bi_list(self, args, kwargs, node):
        if args and isinstance(args[0], VCont) and isinstance(self.cont(args[0]), (SetV, DictV)):
            return args[0]     # list(set) / list(dict): the same members (order unspecified; only used as the argument of sorted / membership)
        if args and "list" in self.reg.constructors:
            return self.reg.constructors["list"](self, args, kwargs)
        return super().bi_list(args, kwargs, node)

    def m_SetV_update(self, recv, args, kwargs):
        o = self.cont(args[0]) if isinstance(args[0], VCont) else None
        if isinstance(o, DictV):
            c = self.cont(recv)
            mem2 = self.fresh("union", c.mem.sort())
            a, b = c.mem, o.has
            self.add_universal([c.ty.e], lambda x: mem2[x] == z3.Or(a[x], b[x]), "set-union-keys")
            cnt = self.fresh("unioncount", z3.IntSort())
            self.assume(z3.And(cnt >= c.count, cnt >= o.count, cnt <= c.count + o.count))
            self.set_cont(recv, c.replace(mem=mem2, count=cnt))
            return VNone
        if isinstance(o, EmptyV):
            return VNone
        return super().m_SetV_update(recv, args, kwargs)

    def sp_seed_independent(self, n):
        """seed_independent(e): the value of e does not change when the process hash seed does.  Sound only for values that are terms
        over the inputs and the seed (term-carrying lists, uninterpreted renderings); checked by substituting a second seed."""
        v = self.ev(n.args[0])
        if not isinstance(v, (VStr, VObj)):
            raise Unsupported("seed_independent of %r" % (v,))
        s1, s2 = z3.Const("the_hash_seed", ObjSort), z3.Const("the_other_hash_seed", ObjSort)
        return VBool(v.t == z3.substitute(v.t, (s1, s2)))
