"""Mechanical translation of a Python regular expression (read from the real source) into an SMT encoding of what
`re.match` returns under backtracking (greedy / lazy) priorities.

Supported subset (anything else -> Unsupported, i.e. undecided, never a verdict): literal characters, capturing groups
(numbered / named), `X*` and `X*?` where X matches ONE character (`.`, a literal, a negated literal, a positive or negated
character class of literals / ranges), `(...)?` and `(...)??`, a literal followed by `?`, and a final `$`.

A match is described by a *choice vector*: one Bool per optional ("taken"), one Int per star ("length"), in pattern order.
Feasibility of a vector on input s:  the concatenation of the chosen pieces is a prefix of s (all of s with `$`), every star
piece has the chosen length and only characters of its class.  A backtracking engine tries the preferred alternative of
every choice point first and revises the latest choice point first, so the match it returns is the lexicographically most
preferred feasible vector (pattern order; greedy prefers taken / longer, lazy the opposite).

For a call `re.match(p, s)` the engine introduces a fresh vector w* and asserts
    matched  ==>  feasible(w*, s)
and, for every *hint* vector w0 supplied by the contract (the decomposition the specification intends),
    feasible(w0, s)  ==>  matched  and  w* is at least as preferred as w0.
Both are consequences of the semantics above (the second is the maximality statement instantiated at w0).  No other
instance of maximality is assumed, so everything derived is sound for the real engine as far as the stated semantics is.
"""
import re._constants as sc
import re._parser as sp

import z3


class RegexUnsupported(Exception):
    pass


class Node:
    pass


class Lit(Node):
    def __init__(self, s):
        self.s = s


class Star(Node):
    def __init__(self, cls, greedy):
        self.cls, self.greedy = cls, greedy   # cls: (negated, [chars or (lo, hi)]) ; ('any',)


class Opt(Node):
    def __init__(self, children, greedy):
        self.children, self.greedy = children, greedy


class Group(Node):
    def __init__(self, gid, children):
        self.gid, self.children = gid, children


class End(Node):
    pass


class Char(Node):
    """exactly one character of a class"""

    def __init__(self, cls):
        self.cls = cls


def char_class(item):
    op, av = item
    if op == sc.ANY:
        return ("any",)
    if op == sc.LITERAL:
        return (False, [chr(av)])
    if op == sc.NOT_LITERAL:
        return (True, [chr(av)])
    if op == sc.IN:
        neg, members = False, []
        for o, a in av:
            if o == sc.NEGATE:
                neg = True
            elif o == sc.LITERAL:
                members.append(chr(a))
            elif o == sc.RANGE:
                members.append((chr(a[0]), chr(a[1])))
            elif o == sc.CATEGORY and a == sc.CATEGORY_DIGIT:
                members.append(("0", "9"))   # ASCII digits (str patterns also accept other Unicode decimal digits: stated restriction)
            else:
                raise RegexUnsupported("character class member %s" % o)
        return (neg, members)
    raise RegexUnsupported("repeated item %s" % op)


def convert(items):
    out = []
    for op, av in items:
        if op == sc.LITERAL:
            if out and isinstance(out[-1], Lit):
                out[-1] = Lit(out[-1].s + chr(av))
            else:
                out.append(Lit(chr(av)))
        elif op == sc.SUBPATTERN:
            gid, add, dele, sub = av
            if add or dele:
                raise RegexUnsupported("inline flags")
            if gid is None:
                out.extend(convert(sub))
            else:
                out.append(Group(gid, convert(sub)))
        elif op in (sc.MAX_REPEAT, sc.MIN_REPEAT):
            lo, hi, sub = av
            greedy = op == sc.MAX_REPEAT
            if (lo, hi) == (0, 1):
                out.append(Opt(convert(sub), greedy))
            elif lo == 0 and hi == sc.MAXREPEAT and len(sub) == 1:
                out.append(Star(char_class(sub[0]), greedy))
            elif lo == 1 and hi == sc.MAXREPEAT and len(sub) == 1:
                raise RegexUnsupported("X+ (write as XX*)")
            else:
                raise RegexUnsupported("repeat {%s,%s}" % (lo, hi))
        elif op == sc.AT and av in (sc.AT_END,):
            out.append(End())
        elif op == sc.AT and av == sc.AT_BEGINNING and not out:
            pass   # re.match is anchored at the beginning anyway
        elif op in (sc.ANY, sc.NOT_LITERAL, sc.IN):
            out.append(Char(char_class((op, av))))
        else:
            raise RegexUnsupported("regex construct %s" % op)
    return out


def parse(pattern):
    try:
        p = sp.parse(pattern)
    except Exception as e:
        raise RegexUnsupported("pattern does not parse: %s" % e)
    if p.state.flags & ~sc.SRE_FLAG_UNICODE:
        raise RegexUnsupported("flags")
    nodes = convert(list(p))
    for n in nodes[:-1]:
        if isinstance(n, End):
            raise RegexUnsupported("$ before the end of the pattern")
    return nodes, dict(p.state.groupdict), p.state.groups - 1


def in_class(cls, ch):
    """z3 Bool: the one-character string ch belongs to the class."""
    if cls == ("any",):
        return ch != z3.StringVal("\n")
    neg, members = cls
    alts = []
    for m in members:
        if isinstance(m, tuple):
            alts.append(z3.And(z3.StringVal(m[0]) <= ch, ch <= z3.StringVal(m[1])))
        else:
            alts.append(ch == z3.StringVal(m))
    inside = z3.Or(*alts) if alts else z3.BoolVal(False)
    return z3.Not(inside) if neg else inside


def all_in_class(cls, s):
    """z3 Bool: every character of string term s belongs to the class (quantifier free where the class allows it)."""
    if cls == ("any",):
        return z3.Not(z3.Contains(s, z3.StringVal("\n")))
    neg, members = cls
    if neg and all(not isinstance(m, tuple) for m in members):
        return z3.And(*[z3.Not(z3.Contains(s, z3.StringVal(m))) for m in members]) if members else z3.BoolVal(True)
    # general case: membership in the Kleene star of the class as a regular language
    parts = []
    for m in members:
        parts.append(z3.Range(z3.StringVal(m[0]), z3.StringVal(m[1])) if isinstance(m, tuple) else z3.Re(z3.StringVal(m)))
    if not parts:
        base = z3.Empty(z3.ReSort(z3.StringSort()))
    else:
        base = parts[0] if len(parts) == 1 else z3.Union(*parts)
    if neg:
        base = z3.Intersect(z3.Complement(base), z3.AllChar(z3.ReSort(z3.StringSort())))
    return z3.InRe(s, z3.Star(base))


class Vector:
    """Choice vector of one match attempt: entries in pattern order, each ('opt'|'star', greedy, z3 term)."""

    def __init__(self):
        self.entries = []


class Encoding:
    def __init__(self, pattern, fresh):
        self.pattern = pattern
        self.nodes, self.names, self.ngroups = parse(pattern)
        self.fresh = fresh

    def new_vector(self, tag):
        v = Vector()

        def walk(nodes):
            for n in nodes:
                if isinstance(n, Star):
                    v.entries.append(("star", n.greedy, self.fresh("%s_len" % tag, z3.IntSort()), n))
                elif isinstance(n, Opt):
                    v.entries.append(("opt", n.greedy, self.fresh("%s_take" % tag, z3.BoolSort()), n))
                    walk(n.children)
                elif isinstance(n, Group):
                    walk(n.children)
        walk(self.nodes)
        return v

    def vector_from_groups(self, groups, optlits):
        """Hint vector from intended group values.  groups: gid -> (isnone Bool, string term); optlits: list of Bools for the
        optionals that contain no group (pattern order).  A star must be the sole content of a hinted group; an optional that
        contains groups is taken iff its first hinted group is present."""
        v = Vector()
        v.pieces = []
        optlits = list(optlits)

        def walk(nodes, gid, sole):
            for n in nodes:
                if isinstance(n, Star):
                    if gid is None or gid not in groups or not sole:
                        raise RegexUnsupported("hint: a star that is not the sole content of a hinted group")
                    isnone, val = groups[gid]
                    v.entries.append(("star", n.greedy, z3.If(isnone, 0, z3.Length(val)), n))
                    v.pieces.append(z3.If(isnone, z3.StringVal(""), val))
                elif isinstance(n, Opt):
                    inner = [g for g in self.group_ids(n.children) if g in groups]
                    if inner:
                        take = z3.Not(groups[inner[0]][0])
                    elif not self.group_ids(n.children):
                        if not optlits:
                            raise RegexUnsupported("hint: no value for a group-less optional")
                        take = optlits.pop(0)
                    else:
                        raise RegexUnsupported("hint: optional group without hinted content")
                    v.entries.append(("opt", n.greedy, take, n))
                    walk(n.children, gid, False)
                elif isinstance(n, Group):
                    walk(n.children, n.gid, len(n.children) == 1)
        walk(self.nodes, None, False)
        return v

    def group_ids(self, nodes):
        out = []
        for n in nodes:
            if isinstance(n, Group):
                out.append(n.gid)
                out.extend(self.group_ids(n.children))
            elif isinstance(n, Opt):
                out.extend(self.group_ids(n.children))
        return out

    def optional_literals(self):
        """Optionals that contain no group (e.g. `:?`), in pattern order: hints for them are given positionally."""
        out = []

        def walk(nodes):
            for n in nodes:
                if isinstance(n, Opt):
                    if not self.group_ids(n.children):
                        out.append(n)
                    walk(n.children)
                elif isinstance(n, Group):
                    walk(n.children)
        walk(self.nodes)
        return out

    def feasible(self, v, s, pieces_tag, pieces=None):
        """(formula, groups): formula says vector v is a match of the pattern on s; groups: gid -> (participated Bool, value term).
        pieces: for a hint vector, the star pieces are given (the intended group values) instead of being existential."""
        it = iter(v.entries)
        given = iter(pieces) if pieces is not None else None
        cons = []
        groups = {}
        anchored = [False]

        def walk(nodes, active):
            parts = []
            for n in nodes:
                if isinstance(n, Lit):
                    parts.append(z3.StringVal(n.s))
                elif isinstance(n, Star):
                    _, _, ln, _n = next(it)
                    piece = next(given) if given is not None else self.fresh("%s_piece" % pieces_tag, z3.StringSort())
                    cons.append(z3.And(ln >= 0, z3.Length(piece) == ln, all_in_class(n.cls, piece)))
                    cons.append(z3.Implies(z3.Not(active), ln == 0))
                    parts.append(piece)
                elif isinstance(n, Opt):
                    _, _, take, _n = next(it)
                    cons.append(z3.Implies(z3.Not(active), z3.Not(take)))
                    inner = walk(n.children, z3.And(active, take))
                    parts.append(z3.If(take, inner, z3.StringVal("")))
                elif isinstance(n, Group):
                    inner = walk(n.children, active)
                    groups[n.gid] = (active, inner)
                    parts.append(inner)
                elif isinstance(n, End):
                    anchored[0] = True
                elif isinstance(n, Char):
                    ch = self.fresh("%s_ch" % pieces_tag, z3.StringSort()) if given is None else next(given)
                    cons.append(z3.And(z3.Length(ch) == 1, in_class(n.cls, ch)))
                    parts.append(ch)
            if not parts:
                return z3.StringVal("")
            return parts[0] if len(parts) == 1 else z3.Concat(*parts)
        whole = walk(self.nodes, z3.BoolVal(True))
        cons.append(whole == s if anchored[0] else z3.PrefixOf(whole, s))
        return z3.And(*cons), groups

    def at_least_as_preferred(self, w, w0):
        """w is lexicographically at least as preferred as w0 (same pattern, entries aligned)."""
        def better(e, e0):
            kind, greedy, t, _ = e
            t0 = e0[2]
            if kind == "opt":
                return z3.And(t, z3.Not(t0)) if greedy else z3.And(z3.Not(t), t0)
            return t > t0 if greedy else t < t0

        def same(e, e0):
            return e[2] == e0[2]
        alts = []
        prefix = []
        for e, e0 in zip(w.entries, w0.entries):
            alts.append(z3.And(*(prefix + [better(e, e0)])))
            prefix = prefix + [same(e, e0)]
        alts.append(z3.And(*prefix) if prefix else z3.BoolVal(True))
        return z3.Or(*alts)


def class_re(cls):
    S = z3.ReSort(z3.StringSort())
    if cls == ("any",):
        return z3.Intersect(z3.Complement(z3.Re(z3.StringVal("\n"))), z3.AllChar(S))
    neg, members = cls
    parts = [z3.Range(z3.StringVal(m[0]), z3.StringVal(m[1])) if isinstance(m, tuple) else z3.Re(z3.StringVal(m)) for m in members]
    base = z3.Empty(S) if not parts else (parts[0] if len(parts) == 1 else z3.Union(*parts))
    return z3.Intersect(z3.Complement(base), z3.AllChar(S)) if neg else base


def language(nodes):
    """The regular language of the pattern (for full-match membership; priorities are irrelevant for membership)."""
    parts = []
    for n in nodes:
        if isinstance(n, Lit):
            parts.append(z3.Re(z3.StringVal(n.s)))
        elif isinstance(n, Star):
            parts.append(z3.Star(class_re(n.cls)))
        elif isinstance(n, Opt):
            parts.append(z3.Option(language(n.children)))
        elif isinstance(n, Group):
            parts.append(language(n.children))
        elif isinstance(n, End):
            pass
        elif isinstance(n, Char):
            parts.append(class_re(n.cls))
    if not parts:
        return z3.Re(z3.StringVal(""))
    return parts[0] if len(parts) == 1 else z3.Concat(*parts)
