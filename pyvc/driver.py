"""Check driver: runs one worker process per function under contract, aggregates obligations, replays
counter-models natively, applies the known-findings file, writes evidence/<id>.json."""
import concurrent.futures
import hashlib
import json
import os
import re
import subprocess
import sys
import time

HERE = os.path.dirname(os.path.dirname(os.path.abspath(__file__)))
PY_VT = "/usr/local/bin/python3-vt"
PY_REPO = "/venv/bin/python"
REPO = os.environ.get("PYVC_REPO", "/repo")


def run_worker(modules, fid, timeout_ms, opts):
    cmd = [PY_VT, "-m", "pyvc.worker", ",".join(modules), fid, str(timeout_ms), json.dumps(opts)]
    t0 = time.time()
    try:
        p = subprocess.run(cmd, cwd=HERE, capture_output=True, text=True, timeout=opts.get("worker_timeout_s", 3000))
        rep = json.loads(p.stdout)
    except subprocess.TimeoutExpired:
        rep = {"fid": fid, "status": "undecided", "reason": "worker timeout", "obligations": []}
    except Exception as e:
        rep = {"fid": fid, "status": "crash", "reason": "worker output unreadable: %s; stderr=%s" % (e, (p.stderr if 'p' in dir() else '')[-1500:]), "obligations": []}
    rep["worker_wall_s"] = round(time.time() - t0, 2)
    return rep


def run_function(modules, fid, timeout_ms, opts, split):
    """Verify one function; when `split` > 1 its path tree is first expanded breadth-first to about `split` open prefixes,
    which are then explored by parallel workers (same deterministic replay), and the reports are merged."""
    if split <= 1:
        return run_worker(modules, fid, timeout_ms, opts)
    first = run_worker(modules, fid, timeout_ms, dict(opts, split_at=split))
    left = first.get("leftover_scripts") or []
    if first.get("status") != "ok" or not left:
        return first
    with concurrent.futures.ThreadPoolExecutor(max_workers=len(left)) as ex:
        parts = list(ex.map(lambda sc: run_worker(modules, fid, timeout_ms, dict(opts, start_scripts=[sc])), left))
    rep = first
    for p in parts:
        if p.get("status") != "ok":
            rep["status"] = p.get("status")
            rep["reason"] = p.get("reason")
            rep["trace"] = p.get("trace")
            continue
        rep["obligations"] += p.get("obligations", [])
        if p.get("replay_ctx"):
            rep["replay_ctx"] = p["replay_ctx"]
        rep["paths"] += p.get("paths", 0)
        for k, v in p.get("outcomes", {}).items():
            rep["outcomes"][k] = rep["outcomes"].get(k, 0) + v
        rep["solver_time_s"] = rep.get("solver_time_s", 0) + p.get("solver_time_s", 0)
        rep["inlined"] = sorted(set(rep.get("inlined", [])) | set(p.get("inlined", [])))
        rep["used_contracts"] = sorted(set(rep.get("used_contracts", [])) | set(p.get("used_contracts", [])))
        rep["assumed_contracts"] = sorted(set(rep.get("assumed_contracts", [])) | set(p.get("assumed_contracts", [])))
        for k, v in p.get("cover", {}).items():
            rep["cover"][k] = rep["cover"].get(k, 0) + v
        rep["unreached_ensures"] = sorted(set(rep.get("unreached_ensures", [])) & set(p.get("unreached_ensures", [])))
    rep["wall_s"] = round(max([first.get("wall_s", 0)] + [first.get("wall_s", 0) + p.get("wall_s", 0) for p in parts]), 2)
    rep["parallel_subtrees"] = len(left)
    return rep


def in_scope(ob, pid):
    tags = ob.get("tags")
    return tags is None or pid in tags


def sanitize(name):
    return re.sub(r"[^A-Za-z0-9_.-]+", "_", name)[:150]


def load_known():
    path = os.path.join(HERE, "known_findings.json")
    if not os.path.exists(path):
        return {"findings": [], "fixed": []}
    with open(path) as f:
        return json.load(f)


def match_finding(kf, pid, fid, ob):
    """A known finding names the property, the function and the clause; `when` optionally narrows it to a witness class."""
    if kf["property"] != pid or kf["function"] != fid:
        return False
    if kf.get("clause") and kf["clause"].strip() != (ob.get("clause") or "").strip():
        return False
    if kf.get("obligation_kind") and kf["obligation_kind"] != ob.get("kind"):
        return False
    return True


def native_replay(pid, fid, ob, replay_path):
    """Run the counter-model against the real code under the repo interpreter; returns dict(reproduced=bool|None, detail=...)."""
    script = os.path.join(HERE, "pyvc", "native_replay.py")
    try:
        p = subprocess.run([PY_REPO, script, replay_path], capture_output=True, text=True, timeout=300,
                           env=dict(os.environ, PYTHONPATH=REPO, PYVC_REPO=REPO))
        out = p.stdout.strip().splitlines()
        return json.loads(out[-1]) if out else {"reproduced": None, "detail": "no output; stderr=" + p.stderr[-800:]}
    except Exception as e:
        return {"reproduced": None, "detail": "replay harness error: %s" % e}


def main(argv):
    if argv and argv[0] == "--replay":
        path = argv[1]
        with open(path) as f:
            rp = json.load(f)
        res = native_replay(rp["property"], rp["function"], rp, path)
        print(json.dumps(res, indent=1))
        return 1 if res.get("reproduced") else 0
    pid = argv[0]
    tier = os.environ.get("VERIF_TIER", "quick")
    if "--tier" in argv:
        tier = argv[argv.index("--tier") + 1]
    seed = int(os.environ.get("VERIF_SEED", "0"))
    sys.path.insert(0, HERE)
    from contracts import PROPS
    cfg = PROPS[pid]
    t0 = time.time()
    timeout_ms = 10000 if tier == "quick" else 120000
    jobs = int(os.environ.get("PYVC_JOBS", "16"))
    opts = {"tier": tier, "prop": pid, "assume_props": cfg.get("assume_props", [])}
    try:
        reports = {}
        with concurrent.futures.ThreadPoolExecutor(max_workers=jobs) as ex:
            fmods = cfg.get("function_modules", {})
            futs = {ex.submit(run_function, fmods.get(fid, cfg["modules"]), fid, timeout_ms, opts, cfg.get("split", {}).get(fid, 1)): fid for fid in cfg["functions"]}
            for fu in concurrent.futures.as_completed(futs):
                reports[futs[fu]] = fu.result()
        # helper-contract drift: a failing H-level contract is retried with the helper inlined in its users
        drift = []
        failed_h = [fid for fid, r in reports.items() if r.get("level") == "H" and any(o["result"] == "failed" and in_scope(o, pid) for o in r.get("obligations", []))]
        if failed_h:
            users = [fid for fid, r in reports.items() if set(r.get("used_contracts", [])) & set(failed_h)]
            o2 = dict(opts, inline=failed_h)
            with concurrent.futures.ThreadPoolExecutor(max_workers=jobs) as ex:
                futs = {ex.submit(run_function, cfg.get("function_modules", {}).get(fid, cfg["modules"]), fid, timeout_ms, o2, cfg.get("split", {}).get(fid, 1)): fid for fid in users}
                for fu in concurrent.futures.as_completed(futs):
                    reports[futs[fu]] = fu.result()
            for h in failed_h:
                drift.append({"helper": h, "failed": [o["name"] for o in reports[h]["obligations"] if o["result"] == "failed"], "users_rechecked_with_helper_inlined": users})
                reports[h]["helper_drift"] = True
        extra = []
        for hook in cfg.get("extra_checks", []):
            mod, fn = hook.rsplit(":", 1)
            import importlib
            extra.append(getattr(importlib.import_module(mod), fn)(pid, tier, seed))
        return finish(pid, tier, seed, cfg, reports, drift, extra, t0)
    except Exception:
        import traceback
        traceback.print_exc()
        print("CHECKER-ERROR property=%s" % pid)
        return 3


def finish(pid, tier, seed, cfg, reports, drift, extra, t0):
    known = load_known()
    obligations, discharged, undecided, crashes, failed = 0, 0, [], [], []
    by_backend, solver_time = {}, 0.0
    functions, samples, assumed, notes = [], [], set(), set()
    slowest = []
    vac = []
    for fid in cfg["functions"]:
        r = reports[fid]
        functions.append({"function": fid, "file": r.get("file"), "lines": r.get("lines"), "src_sha": r.get("src_hash"), "level": r.get("level"),
                          "paths": r.get("paths"), "status": r.get("status"), "inlined_helpers": r.get("inlined"), "callee_contracts_used": r.get("used_contracts"),
                          "wall_s": r.get("wall_s"), "outcomes": r.get("outcomes")})
        assumed |= set(r.get("assumed_contracts", []))
        notes |= set(r.get("assumption_notes", []))
        if r.get("status") == "crash":
            crashes.append({"function": fid, "reason": r.get("reason"), "trace": r.get("trace")})
            continue
        if r.get("status") in ("undecided", "vacuous"):
            undecided.append({"function": fid, "obligation": "*", "reason": r.get("reason")})
            continue
        solver_time += r.get("solver_time_s", 0)
        obs = [o for o in r.get("obligations", []) if in_scope(o, pid)]
        if not obs:
            undecided.append({"function": fid, "obligation": "*", "reason": "zero obligations generated (vacuity guard)"})
        if r.get("unreached_ensures"):
            vac.append({"function": fid, "unreached_ensures": r["unreached_ensures"]})
            if (r.get("outcomes") or {}).get("return", 0) == 0 and fid not in cfg.get("never_return", []):
                # no normal return is feasible although the contract has postconditions: a contradictory assumption somewhere (an assumed callee
                # clause, a precondition) would make everything after it "proved".  Functions that are meant never to return are listed by the property.
                undecided.append({"function": fid, "obligation": "*", "reason": "no feasible normal return: every postcondition is unreached (vacuity guard)"})
        for o in obs:
            if r.get("helper_drift") and o["result"] == "failed":
                continue
            obligations += 1
            slowest.append((o.get("time_s") or 0, o["name"], o.get("backend")))
            if o["result"] == "discharged":
                discharged += 1
                by_backend[o["backend"]] = by_backend.get(o["backend"], 0) + 1
                if len(samples) < 6 and o["kind"] in ("post", "loop-preserved", "post-exc"):
                    samples.append({"obligation": o["name"], "clause": o.get("clause"), "kind": o["kind"], "verdict": "unsat (discharged) by " + o["backend"], "time_s": o["time_s"]})
            elif o["result"] == "failed":
                if any(match_finding(k, pid, fid, o) for k in known["findings"]):
                    obligations -= 1     # a listed known finding: outside the proved claim, reported as KNOWN-FINDING and under known_findings_hit
                failed.append((fid, o))
            else:
                if any(match_finding(k, pid, fid, o) for k in known["findings"]) and \
                        any(x["result"] == "failed" and any(match_finding(k, pid, fid, x) and match_finding(k, pid, fid, o) for k in known["findings"]) for x in obs):
                    # the clause of a listed known finding, failed on another path of this function in this run: outside the proved claim as a whole
                    obligations -= 1
                    continue
                undecided.append({"function": fid, "obligation": o["name"], "reason": o.get("reason") or "solver unknown/timeout in z3 and cvc5"})
    for e in extra:
        obligations += e.get("obligations", 0)
        discharged += e.get("discharged", 0)
        for f in e.get("failed", []):
            failed.append((f["function"], f))
        undecided += e.get("undecided", [])
        samples += e.get("samples", [])[:3]
    # failed obligations: known finding or violation
    violations, known_hits = [], []
    import shutil
    shutil.rmtree(os.path.join(HERE, "replays", pid), ignore_errors=True)   # replay files belong to one run
    os.makedirs(os.path.join(HERE, "replays", pid), exist_ok=True)
    groups = {}
    for fid, o in failed:
        kf = next((k for k in known["findings"] if match_finding(k, pid, fid, o)), None)
        if kf is not None:
            known_hits.append({"finding": kf["id"], "obligation": o["name"], "what": kf["what"]})
            continue
        groups.setdefault((fid, o.get("kind"), o.get("clause")), []).append(o)
    # one violation per (function, clause): the same clause usually fails on several paths; each path's counter-model is tried
    # natively until one reproduces (at most 4 attempts), the other failing paths are listed in the replay file
    for (fid, _kind, _clause), obs in groups.items():
        best = None
        for o in obs[:4]:
            path = os.path.join("replays", pid, sanitize(o["name"]) + ".json")
            rp = {"property": pid, "function": fid, "obligation": o["name"], "clause": o.get("clause"), "kind": o.get("kind"),
                  "solver": {"backend": o.get("backend"), "verdict": "sat (counter-model)" if o.get("model") is not None else "sat", "reason": o.get("reason"), "goal": o.get("goal")},
                  "counter_model": o.get("model"), "repo": REPO, "custom_replay": o.get("custom_replay") or cfg.get("custom_replay"),
                  "exit_kind": o.get("kind"), "modules": cfg.get("function_modules", {}).get(fid, cfg.get("modules")), "replay_ctx": (reports.get(fid) or {}).get("replay_ctx"),
                  "same_clause_fails_on_paths": [x["name"] for x in obs if x is not o]}
            with open(os.path.join(HERE, path), "w") as f:
                json.dump(rp, f, indent=1)
            res = o.get("native") or native_replay(pid, fid, rp, os.path.join(HERE, path))
            rp["native_replay"] = res
            with open(os.path.join(HERE, path), "w") as f:
                json.dump(rp, f, indent=1)
            cand = {"obligation": o["name"], "replay": path, "reproduced": res.get("reproduced"), "paths": len(obs)}
            if best is None:
                best = cand
            if res.get("reproduced"):
                best = cand
                break
        if any(x.get("needs_native_confirmation") for x in obs) and not best.get("reproduced"):
            # obtained with re-assigned loop invariants (the function's loop structure drifted from the contract): without a native
            # reproduction the failed obligation may be an artefact of the lost invariants -- undecided, not a violation
            undecided.append({"function": fid, "obligation": best["obligation"], "reason": "loop structure drifted from the contract and the counter-model did not reproduce natively (replay: %s)" % best["replay"]})
            continue
        violations.append(best)
    seen_kf = set()
    for k in known_hits:
        if k["finding"] not in seen_kf:
            seen_kf.add(k["finding"])
            print("KNOWN-FINDING: property=%s %s" % (pid, k["what"]))
    for v in violations:
        suffix = "" if v["reproduced"] else " no-failing-input-found"
        print("VIOLATION property=%s replay=%s%s" % (pid, v["replay"], suffix))
    for u in undecided:
        print("UNDECIDED property=%s obligation=%s/%s reason=%s" % (pid, u["function"], u["obligation"], u["reason"]))
    for c in crashes:
        print("CHECKER-ERROR property=%s function=%s reason=%s" % (pid, c["function"], c["reason"]))
    wall = time.time() - t0
    ev = {
        "property_id": pid, "tier": tier, "seed": seed, "level": "proof",
        "coverage": {
            "obligations": obligations, "discharged": discharged,
            "checker_cmd": "./check %s --tier %s" % (pid, tier),
            "trusted_base": ["pyvc AST->SMT translation and container rule set (DESIGN 2.11)", "z3 5.1 / cvc5 1.0.3"] + cfg.get("trusted", []),
            "functions_under_contract": functions,
            "by_backend": by_backend, "solver_time_s": round(solver_time, 2),
            "undecided": undecided, "failed": [{"function": f, "obligation": o["name"], "clause": o.get("clause")} for f, o in failed],
            "known_findings_hit": known_hits, "helper_contract_drift": drift,
            "vacuity": {"functions_with_zero_obligations": [u["function"] for u in undecided if "zero obligations" in str(u.get("reason"))], "unreached_postconditions": vac},
            "assumed_contracts": sorted(assumed),
            "extraction_drops": __import__("pyvc.source", fromlist=["x"]).EXTRACTION_DROPS,
            "bounded_standins": [b for e in extra for b in e.get("bounded_standins", [])],
            "extra_checks": [{k: v for k, v in e.items() if k not in ("failed", "samples")} for e in extra],
            "samples": samples or [{"note": "no discharged postcondition sample"}],
            # the obligations that took the solvers longest on this run (a per-obligation budget that is approached is a verdict that may flip under load)
            "slowest_obligations": [{"obligation": n_, "time_s": t_, "backend": b_} for t_, n_, b_ in sorted(slowest, reverse=True)[:5]],
        },
        "assumptions": sorted(notes) + cfg.get("assumptions", []),
        "wall_s": round(wall, 2),
        "violations": len(violations),
    }
    os.makedirs(os.path.join(HERE, "evidence"), exist_ok=True)
    with open(os.path.join(HERE, "evidence", pid + ".json"), "w") as f:
        json.dump(ev, f, indent=1)
    print("property=%s tier=%s obligations=%d discharged=%d failed=%d known=%d undecided=%d wall=%.1fs" % (pid, tier, obligations, discharged, len(failed), len(known_hits), len(undecided), wall))
    if crashes:
        return 3
    if violations:
        return 1
    if undecided:
        return 2
    return 0
