"""Per-function verification driver: path enumeration, obligations, discharge (z3, then cvc5)."""
import ast
import os
import sys
import subprocess
import tempfile
import time

import z3

from .ty import *  # noqa
from . import source as S
from .engine import (PathEnd, Unsupported, PyRaise, ReturnSig, BreakSig, ContinueSig, Universal, EmptyV, State, Obligation, sort_key)
from .interp import Frame, is_exc_subclass
from .calls import Calls
from .dyn import Dyn
from .heapmaps import HeapMaps


class Verifier(HeapMaps):
    def __init__(self, reg, sources, fid, opts=None):
        super().__init__(reg, sources, fid, opts)
        self.fi = sources.func(fid)
        self.contract = reg.contracts[fid]
        self.level = self.contract.level
        self.clause_cache = {}
        self.inlined = set()
        self.used_contracts = set()
        self.undecided = []
        self.force_inline = False
        self.max_paths = self.opts.get("max_paths", 4000)
        self.outcomes = {"return": 0, "raise": 0, "cut": 0, "infeasible": 0}
        self.cover_hits = {}
        self.sym_cache = {}
        from .effects import Effects
        self.effects = Effects(sources, reg)
        self.effects.inline_here = set(self.contract.inline_callees) | {fid}
        # class facts from the source: exception class hierarchy of the package
        import ast as _ast
        for mod in ("exception", "types"):
            try:
                m = sources.module(mod)
            except FileNotFoundError:
                continue
            for q, node in m.classes.items():
                bases = [b.id for b in node.bases if isinstance(b, _ast.Name)]
                if bases and "." not in q:
                    reg.exc_bases.setdefault(q, bases)
        for q in list(reg.exc_bases):
            # keep only classes that reach a builtin exception
            pass
        self.singletons = {}

    # ------------------------------------------------------------------ one path
    def reset_path(self, script):
        self.script = list(script)
        self.pos = 0
        self._ctr = 0
        self._oid = 0
        self._box = 0
        self._obctr = 0
        self.st = State()
        from .engine import Facts
        self.facts = Facts()
        self.collector = None
        self.bound_ids = set()
        self.spec_env = {}
        self.spec_mode = 0
        self.old_state = None
        self.cur_exc = None
        self.frame = Frame(self.fi, None)
        self.call_depth = 0
        self.enum_done = set()
        self.witnesses = {}
        self.singletons = {}
        self.cls_done = set()
        self.inputs = {}
        for hook in self.reg.path_init:
            hook(self)

    def run_path(self, script):
        c = self.contract
        self.reset_path(script)
        binding = {}
        node = self.fi.node
        self.check_decorators(self.fi)
        a = node.args
        names = [x.arg for x in a.posonlyargs + a.args] + [x.arg for x in a.kwonlyargs]
        if a.vararg:
            names.append(a.vararg.arg)
        if a.kwarg:
            names.append(a.kwarg.arg)
        for p in names:
            if p == names[0] and self.fi.kind == "class" and p not in c.types:
                binding[p] = VClass(self.fi.cls, self.fi.module)
                continue
            if p in c.labels.get("use_defaults", ()):
                # this contract variant is about calls that omit the argument: the parameter takes the default written in the signature
                pos = a.posonlyargs + a.args
                dflt = None
                if p in [x.arg for x in pos]:
                    i = [x.arg for x in pos].index(p) - (len(pos) - len(a.defaults))
                    dflt = a.defaults[i] if i >= 0 else None
                elif p in [x.arg for x in a.kwonlyargs]:
                    dflt = a.kw_defaults[[x.arg for x in a.kwonlyargs].index(p)]
                if dflt is None:
                    raise Unsupported("parameter %s of %s has no default" % (p, self.fid))
                self.st.env = dict(binding)
                binding[p] = self.ev(dflt)
                continue
            if p not in c.types:
                raise Unsupported("parameter %s of %s has no declared type" % (p, self.fid))
            binding[p] = self.sym(c.types[p], p, record_input=True)
        for g, ty in c.ghost_params.items():
            self.st.ghost[g] = self.sym(ty, "ghost_" + g, record_input=True)
        for fv, ty in c.labels.get("free_vars", {}).items():
            # a nested function verified on its own: the variables it captures from the enclosing function are arbitrary values of the stated types
            binding[fv] = self.sym(ty, fv, record_input=True)
        self.st.env = dict(binding)
        for ghost_local, src in c.labels.get("entry_snapshot", {}).items():
            self.st.env[ghost_local] = binding[src]     # ghost local: the entry value of a parameter the body re-assigns
        self.frame.env = self.st.env
        if node.name == "__init__" and self.fi.cls and isinstance(binding.get(names[0]), VEnt):
            self.class_defaults(binding[names[0]])
        if c.labels.get("prebox_entities"):
            # entity parameters that the body stores in collections of objects: the object standing for the entity is fixed at entry, so that
            # the pre-state (old(...)) and the post-state speak of the same object
            for v_ in binding.values():
                if isinstance(v_, VEnt):
                    self.box(v_)
        for cl in c.requires:
            self.assume_clause(cl, spec_env=binding)
        for cl in c.labels.get("entry_axioms", []):
            # facts about the parameters that hold for every Python value (class facts): assumed at entry, not obligations of callers
            self.assume_clause(cl, spec_env=binding)
        if not self.feasible(z3.BoolVal(True)):
            self.vacuous = True
            raise PathEnd("requires unsatisfiable")
        self.old_state = self.st.snapshot()
        old = self.old_state
        params = dict(binding)
        self.top_params = params
        self.step_count = 0
        if c.labels.get("maxgen"):
            self.MAXGEN = c.labels["maxgen"]     # deeper term generation for the instantiation of universals (witnesses of existential goals)
        try:
            try:
                self.exec_block(node.body)
                result = VNone
            except ReturnSig as r:
                result = r.value
            self.end_of_path_guard()
            self.outcomes["return"] += 1
            self.frame_obligations(old)
            env2 = dict(params)
            env2["ret"] = result
            if "result" not in params:
                env2["result"] = result
            for j, cl in enumerate(c.ensures):
                self.cover_hits[("ensures", j)] = self.cover_hits.get(("ensures", j), 0) + 1
                self.prove_clause("ensures/%d" % j, cl, kind="post", spec_env=env2, old=old)
            for e, cond in c.when_raises.items():
                # `when_raises`: in a pre-state satisfying the condition the call raises -- so a normal return implies its negation
                self.prove_clause("returns-only-when-not[%s]" % e, "not old(%s)" % cond, kind="post", spec_env=env2, old=old)
        except PyRaise as pr:
            self.end_of_path_guard()
            self.outcomes["raise"] += 1
            self.frame_obligations(old)
            exc = pr.exc
            if os.environ.get('PYVC_DEBUG_RAISE'):
                import traceback, sys as _s
                print('RAISE', exc.cls, self.path_id if hasattr(self,'path_id') else '', file=_s.stderr); traceback.print_exc(file=_s.stderr)
            entry = None
            for e in c.raises:
                if is_exc_subclass(self.reg, self.src, exc.cls, e.rstrip("+")):
                    entry = e
                    break
            wentry = None
            if entry is None:
                for e in c.when_raises:
                    if is_exc_subclass(self.reg, self.src, exc.cls, e.rstrip("+")):
                        wentry = e
                        break
            if wentry is not None:
                # raised exactly under the stated pre-state condition
                self.prove_clause("raises-only-when[%s]" % wentry, "old(%s)" % c.when_raises[wentry], kind="post-exc", spec_env=dict(params), old=old)
            elif entry is None:
                self.oblige("no-undeclared-exception/%s" % exc.cls, z3.BoolVal(False), kind="exception-freedom",
                            info={"clause": "the function raises only what its contract declares", "exception": exc.cls})
            else:
                env3 = dict(params)
                env3["exc"] = VObj(self.box(exc))
                for j, cl in enumerate(c.raises[entry]):
                    self.cover_hits[("raises", entry, j)] = self.cover_hits.get(("raises", entry, j), 0) + 1
                    self.prove_clause("raises[%s]/%d" % (entry, j), cl, kind="post-exc", spec_env=env3, old=old)
        except (BreakSig, ContinueSig):
            raise Unsupported("break/continue outside loop")

    def end_of_path_guard(self):
        """Vacuity guard (label `vacuity_guard`): the assumptions collected along the path (assumed callee contracts, axioms) must still be
        satisfiable at the exit, otherwise everything would be proved from a contradiction; such a path is counted as infeasible."""
        if self.contract.labels.get("vacuity_guard") and not self.feasible(z3.BoolVal(True)):
            raise PathEnd("infeasible at exit")

    def class_defaults(self, ent):
        """A constructor starts from the class-level defaults: fields whose class (or a base) declares `f = None` are None."""
        mod, cls = self.reg.entity_methods[ent.cls]
        for f, fty in self.reg.entities[ent.cls].items():
            if isinstance(fty, (TDict, TOrdSet, TList, TSet, TStack)):
                continue
            seen, stack = set(), [(mod, cls)]
            while stack:
                m, c = stack.pop(0)
                if (m, c) in seen:
                    continue
                seen.add((m, c))
                node = self.src.module(m).classes.get(c)
                hit = False
                for st_ in (node.body if node else []):
                    tgt = None
                    if isinstance(st_, ast.Assign) and len(st_.targets) == 1 and isinstance(st_.targets[0], ast.Name):
                        tgt, val = st_.targets[0].id, st_.value
                    elif isinstance(st_, ast.AnnAssign) and isinstance(st_.target, ast.Name) and st_.value is not None:
                        tgt, val = st_.target.id, st_.value
                    if tgt == f and isinstance(val, ast.Constant) and val.value is None:
                        hit = True
                if hit:
                    if isinstance(fty, (TOpt, TObj)):
                        self.st.fields[(ent.oid, f)] = self.coerce(VNone, fty)
                    break
                stack = self.src.class_bases(m, c) + stack

    def frame_obligations(self, old):
        """Frame condition: a field of an object that existed at entry, or a heap attribute of a pre-existing opaque object,
        that the contract's `modifies` does not list must be unchanged at exit."""
        c = self.contract
        allowed, allow_all = set(), set()
        for p in c.modifies:
            if p.startswith("ghost:"):
                continue
            last = p.split(":")[-1].split(".")[-1].split("#")[0]
            if last == "*":
                allow_all.add(p.split(".")[0])
            allowed.add(last)
        for (oid, f), v0 in old.fields.items():
            cls = old.ents.get(oid)
            if f in allowed or allow_all:
                continue
            v1 = self.st.fields.get((oid, f))
            if isinstance(v0, VCont):
                c1, c0 = self.st.conts.get(("f", oid, f)), old.conts.get(("f", oid, f))
                if isinstance(c1, StackV) and isinstance(c0, StackV) and len(c1.items) == len(c0.items) and all(a is b for a, b in zip(c1.items, c0.items)) \
                        and c1.prefix_top is c0.prefix_top and c1.prefix_some is c0.prefix_some:
                    continue
                if c1 is not c0:
                    self.oblige("frame/%s.%s" % (cls, f), z3.BoolVal(False), kind="frame", info={"clause": "field %s.%s is written but not listed in modifies" % (cls, f)})
                continue
            if v1 is v0:
                continue
            try:
                g = self.equal(v0, v1, identity=True)
            except Unsupported:
                g = z3.BoolVal(False)
            self.oblige("frame/%s.%s" % (cls, f), g, kind="frame", info={"clause": "%s.%s == old(%s.%s)  (not listed in modifies)" % (cls, f, cls, f)})
        a0 = z3.Const("alloc0", z3.ArraySort(ObjSort, z3.BoolSort()))
        for name, arr in self.st.objheap.items():
            if name.split("#")[0] in allowed:
                continue
            arr0 = old.objheap.get(name, z3.Const("heap0_" + name, arr.sort()))
            if arr.eq(arr0):
                continue
            o = self.fresh("frame_o", ObjSort)
            self.oblige("frame/heap:%s" % name, z3.Implies(a0[o], arr[o] == arr0[o]), kind="frame",
                        info={"clause": "attribute %s of every pre-existing object is unchanged (not listed in modifies)" % name})

    def loop(self, s, target, it, ordinal=None):
        if ordinal is not None:
            saved = self.loop_ordinal_of
            self.loop_ordinal_of = lambda fi, node: ordinal
            try:
                return super().loop(s, target, it)
            finally:
                self.loop_ordinal_of = saved
        return super().loop(s, target, it)

    # ------------------------------------------------------------------ all paths
    def explore(self):
        self.vacuous = False
        self.pending = [list(x) for x in self.opts.get("start_scripts", [[]])]
        split_at = self.opts.get("split_at")
        self.leftover = []
        t0 = time.time()
        while self.pending:
            if split_at and len(self.pending) >= split_at:
                self.leftover = self.pending
                self.pending = []
                break
            script = self.pending.pop(0) if split_at else self.pending.pop()
            self.paths += 1
            if self.paths > self.max_paths:
                raise Unsupported("path budget exceeded in %s" % self.fid)
            try:
                self.run_path(script)
            except PathEnd as e:
                if "infeasible" in str(e):
                    self.outcomes["infeasible"] += 1
                else:
                    self.outcomes["cut"] += 1
        self.explore_time = time.time() - t0

    # ------------------------------------------------------------------ discharge
    def build_solver(self, ob, timeout_ms):
        s = z3.Solver()
        s.set("timeout", timeout_ms)
        s.add(*ob.pc)
        s.add(z3.Not(ob.goal))
        return s

    def symbols_of(self, f):
        """Names of the uninterpreted symbols of a formula (cached per formula)."""
        i = f.get_id()
        c = self.sym_cache.get(i)
        if c is not None:
            return c
        out, seen, stack = set(), set(), [f]
        while stack:
            t = stack.pop()
            ti = t.get_id()
            if ti in seen:
                continue
            seen.add(ti)
            if z3.is_app(t):
                d = t.decl()
                if d.kind() == z3.Z3_OP_UNINTERPRETED:
                    out.add(d.name())
                stack.extend(t.children())
            elif z3.is_quantifier(t):
                stack.append(t.body())
        self.sym_cache[i] = out
        return out

    def relevance_slices(self, ob):
        """Progressively larger subsets of the assumptions, by symbol-sharing distance from the goal.  Proving the goal from
        a subset is sound; only `unsat` answers are taken from a slice."""
        facts = ob.pc
        syms = [self.symbols_of(f) for f in facts]
        freq = {}
        for sset in syms:
            for x in sset:
                freq[x] = freq.get(x, 0) + 1
        common = {x for x, n in freq.items() if n > max(40, len(facts) // 4)}
        cur = self.symbols_of(ob.goal) - common
        chosen = [False] * len(facts)
        for depth in range(1, 5):
            new_syms = set()
            for idx, sset in enumerate(syms):
                if not chosen[idx] and (sset - common) & cur:
                    chosen[idx] = True
                    new_syms |= sset - common
            cur |= new_syms
            sub = [f for f, c in zip(facts, chosen) if c]
            if len(sub) >= len(facts):
                return
            yield depth, sub

    def discharge(self, ob, timeout_ms=10000):
        t0 = time.time()
        quick = None
        if len(ob.pc) > 150:
            quick = z3.Solver()
            quick.set("timeout", min(2500, timeout_ms))
            quick.add(*ob.pc)
            quick.add(z3.Not(ob.goal))
            rq = quick.check()
            if rq == z3.unsat:
                ob.result, ob.backend, ob.reason = "discharged", "z3", ""
                ob.time = time.time() - t0
                return ob
        if len(ob.pc) > 150 and rq == z3.unknown:
            for depth, sub in self.relevance_slices(ob):
                s1 = z3.Solver()
                s1.set("timeout", min(3000, timeout_ms))
                s1.add(*sub)
                s1.add(z3.Not(ob.goal))
                if s1.check() == z3.unsat:
                    ob.result, ob.backend, ob.reason = "discharged", "z3", "relevance slice depth %d (%d of %d facts)" % (depth, len(sub), len(ob.pc))
                    ob.time = time.time() - t0
                    return ob
        if any("rx_" in x for x in self.symbols_of(ob.goal)) or any("rx_matched" in x for f in ob.pc[-40:] for x in self.symbols_of(f)):
            # regular-expression obligations: word equations under a Boolean structure -- go straight to the case split
            r3, model, how = self.split_discharge(ob, timeout_ms)
            if r3 in ("unsat", "sat"):
                ob.result = "discharged" if r3 == "unsat" else "failed"
                ob.backend, ob.reason, ob.model = ("z3" if (r3 == "sat" and model is not None) else "cvc5"), how, model
                ob.time = time.time() - t0
                return ob
        try:
            s = self.build_solver(ob, timeout_ms)
        except Unsupported as e:
            ob.result, ob.backend, ob.reason = "undecided", "none", "unsupported: %s" % e
            ob.time = time.time() - t0
            return ob
        r = s.check()
        ob.backend = "z3"
        ob.reason = ""
        if r == z3.unsat:
            ob.result = "discharged"
        elif r == z3.sat:
            ob.result = "failed"
            ob.model = self.extract_model(self.small_model(s, ob), ob)
        else:
            ob.reason = s.reason_unknown()
            r2 = self.try_cvc5(s, min(timeout_ms, 8000))
            if r2 == "unsat":
                ob.result, ob.backend = "discharged", "cvc5"
            elif r2 == "sat":
                ob.result, ob.backend = "failed", "cvc5"
                ob.model = None
            else:
                r3, model, how = self.split_discharge(ob, timeout_ms)
                if r3 == "unsat":
                    ob.result, ob.backend, ob.reason = "discharged", "cvc5", how
                elif r3 == "sat":
                    ob.result, ob.backend, ob.reason = "failed", ("z3" if model is not None else "cvc5"), how
                    ob.model = model
                else:
                    ob.result = "undecided"
        ob.time = time.time() - t0
        ob.smt_head = None
        return ob

    def small_model(self, s, ob):
        """Prefer a counter-model with short sequences (replayable): re-check with every sequence length bounded by 3; fall back to
        the solver's first model."""
        m0 = s.model()
        try:
            lens, seen, stack = [], set(), list(ob.pc) + [ob.goal]
            while stack:
                t = stack.pop()
                if t.get_id() in seen:
                    continue
                seen.add(t.get_id())
                if z3.is_app(t):
                    nm = t.decl().name()
                    if nm == "seq_len" or (t.num_args() == 0 and z3.is_int(t) and (nm.endswith("#len") or nm.endswith("#count"))):
                        lens.append(t)
                    stack.extend(t.children())
            if not lens:
                return m0
            s.push()
            s.set("timeout", 3000)
            for t in lens[:60]:
                s.add(t <= 3)
            r = s.check()
            m = s.model() if r == z3.sat else m0
            s.pop()
            return m
        except Exception:
            return m0

    def split_discharge(self, ob, timeout_ms):
        """Case split on the Boolean structure of the query (optional-present flags, regex 'taken' flags): string solvers that
        give up on the merged formula usually decide each case at once.  All cases unsat => unsat; a sat case => sat."""
        import itertools
        import concurrent.futures
        bools, seen = {}, set()
        stack = list(ob.pc) + [ob.goal]
        while stack:
            t = stack.pop()
            if t.get_id() in seen:
                continue
            seen.add(t.get_id())
            if z3.is_const(t) and z3.is_bool(t) and t.decl().kind() == z3.Z3_OP_UNINTERPRETED:
                nm = t.decl().name()
                if "?none" in nm or "_take" in nm or "_matched" in nm:
                    bools[nm] = t
            stack.extend(t.children())
        sp = [bools[k] for k in sorted(bools)][:6]
        if not sp:
            return "unknown", None, ""
        cases = list(itertools.product([True, False], repeat=len(sp)))

        # z3 objects are not thread-safe: queries are built and pre-checked sequentially, only the cvc5 subprocesses run in parallel
        texts, results = [], []
        for vals in cases:
            s = z3.Solver()
            s.set("timeout", 300)
            s.add(*ob.pc)
            s.add(z3.Not(ob.goal))
            for b, x in zip(sp, vals):
                s.add(b if x else z3.Not(b))
            r = s.check()
            if r == z3.unsat:
                results.append(("unsat", None))
            elif r == z3.sat:
                results.append(("sat", self.extract_model(s.model(), ob)))
                break
            else:
                results.append(None)
                texts.append((len(results) - 1, "(set-logic ALL)\n" + s.to_smt2()))
        if not any(r is not None and r[0] == "sat" for r in results):
            with concurrent.futures.ThreadPoolExecutor(max_workers=8) as ex:
                outs = list(ex.map(lambda it: (it[0], self.run_cvc5_text(it[1], max(5000, timeout_ms // 2))), texts))
            for idx, r in outs:
                results[idx] = (r, None)
        results = [r for r in results if r is not None]
        if len(results) < len(cases) and not any(r[0] == "sat" for r in results):
            return "unknown", None, ""
        how = "case split on %d structural Booleans (%d cases)" % (len(sp), len(cases))
        for r, m in results:
            if r == "sat":
                return "sat", m, how
        if all(r == "unsat" for r, _ in results):
            return "unsat", None, how
        return "unknown", None, how

    def try_cvc5(self, s, timeout_ms):
        try:
            return self.run_cvc5_text("(set-logic ALL)\n" + s.to_smt2(), timeout_ms)
        except Exception:
            return "unknown"

    def run_cvc5_text(self, text, timeout_ms):
        try:
            with tempfile.NamedTemporaryFile("w", suffix=".smt2", delete=False, dir=os.environ.get("PYVC_TMP", "/tmp")) as f:
                f.write(text)
                path = f.name
            try:
                p = subprocess.run(["/usr/bin/cvc5", "--strings-exp", "--tlimit=%d" % timeout_ms, path], capture_output=True, text=True, timeout=timeout_ms / 1000 + 5)
                out = p.stdout.strip().splitlines()
                return out[0] if out else "unknown"
            finally:
                os.unlink(path)
        except Exception:
            return "unknown"

    def extract_model(self, m, ob):
        out = {}
        ground_vals = {}
        for k, terms in ob.ground.items():
            ground_vals[k] = [m.eval(t, model_completion=True) for t in terms]
        self._model = m
        self._objbudget = 150      # object values rendered per counter-model (nested views are cut off beyond it)
        self._ground_strings = list(ob.ground.get("String", []))
        for name, t in self.inputs.items():
            self._objbudget = 60       # per input
            try:
                if z3.is_array(t):
                    dom = str(t.sort().domain())
                    entries = []
                    for gv in ground_vals.get(dom, []):
                        entries.append([self.pyval(gv), self.pyval(m.eval(t[gv], model_completion=True))])
                    out[name] = {"$map": entries}
                else:
                    out[name] = self.pyval(m.eval(t, model_completion=True))
            except Exception as e:  # pragma: no cover
                out[name] = "?%s" % e
        return out

    def pyval(self, v):
        if z3.is_int_value(v): return v.as_long()
        if z3.is_true(v): return True
        if z3.is_false(v): return False
        if z3.is_string_value(v): return v.as_string()
        if z3.is_rational_value(v): return float(v.as_fraction())
        m = getattr(self, "_model", None)
        try:
            if v.sort() == ObjSort and m is not None:
                return self.objval(v, m)
            if v.sort().kind() == z3.Z3_DATATYPE_SORT and z3.is_app(v) and v.decl().kind() == z3.Z3_OP_DT_CONSTRUCTOR:
                return {"$rec": v.decl().name(), "fields": [self.pyval(c) for c in v.children()]}
        except Exception:
            pass
        return {"$term": str(v)}

    def objval(self, o, m):
        """Concrete reading of an Obj model value through the dynamic-typing functions (kind_of / unbox* / num_of)."""
        from .dyn import kind_of, unbox_fn, num_of
        ev = lambda t: m.eval(t, model_completion=True)
        if z3.is_true(ev(o == PyNone)):
            return None
        self._objbudget = getattr(self, "_objbudget", 150) - 1
        if self._objbudget < 0:
            return {"$obj": str(ev(o)), "kind": 0, "cut": True}
        k = ev(kind_of(o))
        k = k.as_long() if z3.is_int_value(k) else 0
        d = {"$obj": str(ev(o)), "kind": k}
        try:
            d["truthy"] = bool(z3.is_true(ev(z3.Function("py_truthy", ObjSort, z3.BoolSort())(o))))
        except Exception:
            pass
        try:
            if k in (1, 2, 3):
                d["value"] = self.pyval(ev(unbox_fn(k)[0](o)))
            elif k == 4:
                d["value"] = self.pyval(ev(num_of(o)))
            for cname in sorted(self.cls_done):
                if z3.is_true(ev(self.class_pred(cname)(o))):
                    d.setdefault("classes", []).append(cname)
            names_ = {dd.name() for dd in m.decls()}
            depth0 = getattr(self, "_objdepth", 0)
            if depth0 < 2:
                self._objdepth = depth0 + 1
                try:
                    if "seq_len" in names_:
                        ln = ev(z3.Function("seq_len", ObjSort, z3.IntSort())(o))
                        if z3.is_int_value(ln) and 0 <= ln.as_long() <= 8:
                            item = z3.Function("seq_item", ObjSort, z3.IntSort(), ObjSort)
                            d["seq"] = [self.pyval(ev(item(o, z3.IntVal(i)))) for i in range(ln.as_long())]
                    if "dict_has" in names_:
                        has = z3.Function("dict_has", ObjSort, ObjSort, z3.BoolSort())
                        val = z3.Function("dict_val", ObjSort, ObjSort, ObjSort)
                        bs = z3.Function("box_str", z3.StringSort(), ObjSort)
                        ent = []
                        for kterm in getattr(self, "_ground_strings", [])[:24]:
                            kv = ev(kterm)
                            if z3.is_string_value(kv) and z3.is_true(ev(has(o, bs(kv)))):
                                ent.append([kv.as_string(), self.pyval(ev(val(o, bs(kv))))])
                        if ent:
                            d["map"] = ent
                finally:
                    self._objdepth = depth0
            for meth, ufn in getattr(self.reg, "obj_uf_methods", {}).items():
                fn_, argtys, resty = self.reg.ufs[ufn]
                d.setdefault("methods", {})[meth] = self.pyval(ev(fn_(o)))
            depth = getattr(self, "_objdepth", 0)
            if depth < 2:
                self._objdepth = depth + 1
                try:
                    names = {dd.name() for dd in m.decls()}
                    for a, (ty, mutable) in self.reg.attrs.items():
                        if not mutable and ("attr_" + a) in names and not isinstance(ty, (TSet, TList, TDict)):
                            d.setdefault("attrs", {})[a] = self.pyval(ev(z3.Function("attr_" + a, ObjSort, ty.sort())(o)))
                finally:
                    self._objdepth = depth
        except Exception:
            pass
        return d

    def replay_context(self):
        """Everything the native replay needs to rebuild inputs and evaluate clause texts: parameter types, entity and
        record tables, specification functions."""
        c = self.contract
        ents = {}
        for cls, fields in self.reg.entities.items():
            ents[cls] = {"where": list(self.reg.entity_methods[cls]), "fields": {f: repr(t) for f, t in fields.items()}}
        return {"types": {p: repr(t) for p, t in c.types.items()}, "ghost_params": {g: repr(t) for g, t in c.ghost_params.items()},
                "returns": repr(c.returns) if c.returns is not None else None, "entities": ents,
                "records": {n: [[f, repr(t)] for f, t in r.fields] for n, r in self.reg.records.items()},
                "specs": {n: [ps, body] for n, (ps, body) in self.reg.specs.items()},
                "kind": self.fi.kind, "cls": self.fi.cls, "module": self.fi.module, "name": self.fi.node.name,
                "params": [a.arg for a in self.fi.node.args.posonlyargs + self.fi.node.args.args] + [a.arg for a in self.fi.node.args.kwonlyargs],
                "requires": list(c.requires), "attr_types": {a: repr(t[0]) for a, t in self.reg.attrs.items()}, "class_state": [[k[0], k[1], g] for k, g in getattr(self.reg, "class_state", {}).items()]}

    def run(self, timeout_ms=10000):
        """Explore and discharge.  When the function's loop structure has drifted from the contract, iterate: candidate invariant
        clauses that fail entry / preservation (or cannot be decided) are dropped and the function is re-verified with the rest."""
        self.dropped_invariants = set()
        for _round in range(8):
            rep = self.run_once(timeout_ms)
            if not getattr(self, "drift", False) or rep.get("status") != "ok":
                break
            bad = [o for o in rep["obligations"] if o["kind"] in ("loop-entry", "loop-preserved") and o["result"] != "discharged"]
            if not bad:
                break
            before = len(self.dropped_invariants)
            for o in bad:
                ordinal = int(o["name"].split("/loop")[1].split("-")[0])
                self.dropped_invariants.add((ordinal, o.get("clause_text") or o.get("clause")))
            if len(self.dropped_invariants) == before:
                break
            # restart from scratch with the smaller candidate set
            self.obligations, self.ob_order, self.pending, self.paths = {}, [], [], 0
            self.outcomes = {"return": 0, "raise": 0, "cut": 0, "infeasible": 0}
            self.cover_hits = {}
        if getattr(self, "uninterpreted_sort_key", False):
            # a sort whose key the engine cannot interpret: failures may be artefacts of the abstraction -> need a native reproduction
            for o in rep["obligations"]:
                if o["result"] == "failed":
                    o["needs_native_confirmation"] = True
        if getattr(self, "drift", False):
            rep["drift"] = {"reason": "loop structure differs from the contract's loop table: invariants were re-assigned as candidates and filtered",
                            "dropped_candidates": sorted("%d: %s" % (o, c_) for o, c_ in self.dropped_invariants if c_)}
            rep["obligations"] = [o for o in rep["obligations"] if not (o["kind"] in ("loop-entry", "loop-preserved") and o["result"] != "discharged")]
            for o in rep["obligations"]:
                if o["result"] == "failed":
                    o["needs_native_confirmation"] = True
        return rep

    def run_once(self, timeout_ms=10000):
        rep = {"fid": self.fid, "level": self.level, "prop": self.contract.prop, "src_hash": self.fi.src_hash(), "file": self.src.module(self.fi.module).path,
               "lines": [self.fi.node.lineno, self.fi.node.end_lineno], "obligations": [], "status": "ok"}
        t0 = time.time()
        try:
            self.explore()
        except Unsupported as e:
            rep["status"] = "undecided"
            rep["reason"] = "unsupported: %s" % e
            rep["wall_s"] = time.time() - t0
            return rep
        if self.vacuous:
            rep["status"] = "vacuous"
            rep["reason"] = "requires clauses are unsatisfiable"
        obs = [self.obligations[k] for k in self.ob_order]
        failed_clauses = {}
        big_retries = 0
        for ob in obs:
            ckey = (ob.kind, ob.info.get("clause_text") or ob.info.get("clause"))
            if ckey[1] and failed_clauses.get(ckey, 0) >= 2:
                # the same clause already failed on two other paths of this function: one violation is reported per (function, clause), so the
                # remaining paths are not solved again (failing queries are the slow ones)
                ob.result, ob.backend, ob.reason, ob.model, ob.time = "failed", "none", "same clause already failed on two other paths (not solved again)", None, 0.0
            else:
                self.discharge(ob, timeout_ms)
                if ob.result == "undecided" and "unsupported" not in (getattr(ob, "reason", "") or ""):
                    # a solver budget that is borderline for this query (a loaded machine is enough to tip it): one retry with four times the budget
                    # before the obligation is reported as undecided
                    first_time = ob.time
                    self.discharge(ob, timeout_ms * 4)
                    ob.time += first_time
                    if ob.result == "discharged":
                        ob.reason = ((getattr(ob, "reason", "") or "") + " (second attempt with 4x budget)").strip()
                    elif ob.result == "undecided" and big_retries < 2 and "unsupported" not in (getattr(ob, "reason", "") or ""):
                        # still open: the solvers are erratic on a few queries (the same query takes 3 s in one run and 50 s in another).  At most two
                        # obligations per function get a last attempt with twelve times the budget, so that an undecidable query cannot multiply the run time
                        big_retries += 1
                        t_ = ob.time
                        self.discharge(ob, min(timeout_ms * 12, 240000))
                        ob.time += t_
                        if ob.result == "discharged":
                            ob.reason = ((getattr(ob, "reason", "") or "") + " (third attempt with 12x budget)").strip()
                if ob.result == "failed" and ckey[1]:
                    failed_clauses[ckey] = failed_clauses.get(ckey, 0) + 1
            if os.environ.get("PYVC_TRACE"):
                sys.stderr.write("[trace] %-60s %-10s %-5s %.2fs pc=%d %s\n" % (ob.name[-60:], ob.result, ob.backend, ob.time, len(ob.pc), getattr(ob, 'reason', '')[:60]))
            rep["obligations"].append({"name": ob.name, "kind": ob.kind, "level": ob.level, "result": ob.result, "backend": ob.backend,
                                       "time_s": round(ob.time, 4), "clause": ob.info.get("clause"), "clause_text": ob.info.get("clause_text"), "tags": ob.info.get("tags"), "model": ob.model,
                                       "reason": getattr(ob, "reason", ""), "goal": str(ob.goal)[:300]})
        if any(o["result"] == "failed" for o in rep["obligations"]):
            rep["replay_ctx"] = self.replay_context()
        rep["paths"] = self.paths
        rep["leftover_scripts"] = getattr(self, "leftover", [])
        rep["outcomes"] = self.outcomes
        rep["pruned_branches"] = self.pruned
        rep["inlined"] = sorted(self.inlined)
        rep["used_contracts"] = sorted(self.used_contracts)
        rep["cover"] = {str(k): v for k, v in self.cover_hits.items()}
        unreached = [j for j in range(len(self.contract.ensures)) if ("ensures", j) not in self.cover_hits]
        rep["unreached_ensures"] = unreached if self.contract.ensures else []
        rep["wall_s"] = round(time.time() - t0, 3)
        rep["explore_s"] = round(self.explore_time, 2)
        rep["feasibility_checks"] = self.feas_checks
        rep["solver_time_s"] = round(sum(o.time for o in obs) + self.solver_time, 3)
        return rep
