"""Extraction of the real source: every run re-reads /repo's working tree.

Functions are addressed as "<module>:<Qual.name>" (module = file stem under twosigma/memento).
What extraction drops is fixed here: docstrings, annotations, `log.*` calls, `global`, `cast`.
"""
import ast
import hashlib
import os

REPO = os.environ.get("PYVC_REPO", "/repo")
PKG = os.path.join(REPO, "twosigma", "memento")

EXTRACTION_DROPS = [
    "docstrings (expression statements that are string constants)",
    "type annotations and type comments (annotated assignments keep their value)",
    "calls on the module logger `log.*` / `logging.*` used as statements (arguments not evaluated)",
    "`global` / `nonlocal` declarations, `cast(T, x)` (identity), `# noinspection` comments",
    "the decorators @staticmethod / @classmethod / @property / @x.setter / @abstractmethod / @functools.wraps (no effect on what a call of the body does); a function whose "
    "body the proof executes and that carries any other decorator is outside the subset (exit 2)",
]


class FuncInfo:
    def __init__(self, fid, node, module, cls, kind):
        self.fid, self.node, self.module, self.cls, self.kind = fid, node, module, cls, kind
        # kind: 'function' | 'method' | 'static' | 'class' | 'property'

    @property
    def params(self):
        a = self.node.args
        return [x.arg for x in a.posonlyargs + a.args]

    def src_hash(self):
        return hashlib.sha256(ast.dump(self.node).encode()).hexdigest()[:16]


class Module:
    def __init__(self, name, path):
        self.name, self.path = name, path
        with open(path, "rb") as f:
            data = f.read()
        self.sha256 = hashlib.sha256(data).hexdigest()
        self.text = data.decode()
        self.tree = ast.parse(self.text, filename=path)
        self.funcs = {}    # qualname -> FuncInfo
        self.classes = {}  # qualname -> ClassDef
        self.imports = {}  # local name -> (module or None, original name)
        self.assigns = {}  # module-level NAME -> value node
        self._index(self.tree.body, "", None)

    def _index(self, body, prefix, cls):
        for n in body:
            if isinstance(n, (ast.FunctionDef,)):
                q = prefix + n.name
                kind = "function" if cls is None else "method"
                for d in n.decorator_list:
                    dn = d.id if isinstance(d, ast.Name) else (d.attr if isinstance(d, ast.Attribute) else None)
                    if dn == "staticmethod":
                        kind = "static"
                    elif dn == "classmethod":
                        kind = "class"
                    elif dn == "property":
                        kind = "property"
                    elif dn == "setter":
                        kind = "setter"
                if kind == "setter":
                    q = q + ".setter"
                self.funcs[q] = FuncInfo("%s:%s" % (self.name, q), n, self.name, cls, kind)
                # nested defs
                self._index_nested(n, q + ".<locals>.")
            elif isinstance(n, ast.ClassDef):
                q = prefix + n.name
                self.classes[q] = n
                self._index(n.body, q + ".", q)
            elif isinstance(n, (ast.Import, ast.ImportFrom)) and cls is None:
                for a in n.names:
                    local = a.asname or a.name.split(".")[0]
                    if isinstance(n, ast.ImportFrom):
                        mod = n.module or ""
                        self.imports[local] = (("." * n.level) + mod, a.name)
                    else:
                        # `import a.b` binds the name `a` (the package); `import a.b as c` binds c to a.b
                        self.imports[local] = (a.name if a.asname else local, None)
            elif isinstance(n, ast.Assign) and cls is None:
                for t in n.targets:
                    if isinstance(t, ast.Name):
                        self.assigns[t.id] = n.value
            elif isinstance(n, ast.AnnAssign) and cls is None and n.value is not None:
                if isinstance(n.target, ast.Name):
                    self.assigns[n.target.id] = n.value

    def _index_nested(self, fn, prefix):
        for n in ast.walk(fn):
            if n is fn:
                continue
            if isinstance(n, ast.FunctionDef):
                q = prefix + n.name
                if q not in self.funcs:
                    self.funcs[q] = FuncInfo("%s:%s" % (self.name, q), n, self.name, None, "function")


class Sources:
    def __init__(self):
        self.modules = {}

    def module(self, name):
        if name not in self.modules:
            path = os.path.join(PKG, name + ".py")
            self.modules[name] = Module(name, path)
        return self.modules[name]

    def func(self, fid):
        """fid may carry a variant tag (`module:Qual.name@tag`): a second contract on the same function (e.g. a known-finding witness class)."""
        mod, q = fid.split("@")[0].split(":")
        m = self.module(mod)
        if q not in m.funcs:
            raise KeyError("function %s not found in %s" % (q, m.path))
        return m.funcs[q]

    def has_func(self, fid):
        mod, q = fid.split("@")[0].split(":")
        try:
            return q in self.module(mod).funcs
        except FileNotFoundError:
            return False

    def class_bases(self, mod, cls):
        """List of (module, class) bases resolvable inside the package (single inheritance chain + mixins)."""
        m = self.module(mod)
        node = m.classes.get(cls)
        out = []
        if node is None:
            return out
        for b in node.bases:
            if isinstance(b, ast.Name):
                r = None
                if "." in cls:  # nested class: a sibling nested class shadows module-level names
                    sib = cls.rsplit(".", 1)[0] + "." + b.id
                    if sib in m.classes:
                        r = (mod, sib)
                r = r or self.resolve_class(mod, b.id)
                if r:
                    out.append(r)
            elif isinstance(b, ast.Attribute):
                q = ast.unparse(b)
                if q in m.classes:
                    out.append((mod, q))
        return out

    def resolve_class(self, mod, name):
        m = self.module(mod)
        if name in m.classes:
            return (mod, name)
        if name in m.imports:
            src, orig = m.imports[name]
            if src.startswith("twosigma.memento.") and orig:   # absolute import inside the package
                src = "." + src[len("twosigma.memento."):]
            elif src == "twosigma.memento" and orig:
                init = self.module("__init__")
                if orig in init.imports:
                    return self.resolve_class("__init__", orig)
            if src.startswith(".") and orig:
                tgt = src.lstrip(".")
                try:
                    tm = self.module(tgt)
                except FileNotFoundError:
                    return None
                if orig in tm.classes:
                    return (tgt, orig)
                if orig in tm.imports:
                    return self.resolve_class(tgt, orig)
        return None

    def find_method(self, mod, cls, name):
        """MRO-ish lookup (depth first, left to right) inside the package."""
        seen = set()
        stack = [(mod, cls)]
        while stack:
            m, c = stack.pop(0)
            if (m, c) in seen:
                continue
            seen.add((m, c))
            q = "%s.%s" % (c, name)
            if q in self.module(m).funcs:
                return self.module(m).funcs[q]
            stack = self.class_bases(m, c) + stack
        return None


def strip_body(body):
    """Apply the stated extraction drops to a statement list."""
    out = []
    for s in body:
        if isinstance(s, ast.Expr) and isinstance(s.value, ast.Constant) and isinstance(s.value.value, str):
            continue
        if isinstance(s, (ast.Global, ast.Nonlocal)):
            continue
        if isinstance(s, ast.Expr) and isinstance(s.value, ast.Call):
            f = s.value.func
            if isinstance(f, ast.Attribute) and isinstance(f.value, ast.Name) and f.value.id in ("log", "logging"):
                continue
        out.append(s)
    return out
