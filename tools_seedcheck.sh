#!/bin/bash
# usage: tools_seedcheck.sh <patch.diff> <prop...>  -- apply a seeded change to /repo, run the checks, undo it
patch=$1; shift
git -C /repo apply "$patch" || { echo "patch does not apply"; exit 9; }
for p in "$@"; do
  ( cd /verif && ./check $p --tier quick 2>&1 | grep -v "^UNDECIDED" | tail -6; echo "exit=${PIPESTATUS[0]}" )
done
git -C /repo checkout -- .
git -C /verif checkout -- evidence 2>/dev/null
