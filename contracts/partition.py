"""Contracts for partitions (property C17): DefaultCodec.PicklePartitionStrategy.store (overlay of own keys on the parent's index;
what a stored partition remembers; what storing must leave alone), PicklePartition.get / list_keys, InMemoryPartition.get /
list_keys, OnDiskPartition.get / list_keys.

The partition being stored is an opaque Partition object described by
    own_key(p, k), value_of(p, k)         its own entries (list_keys(False) / get)
and, per class, which bookkeeping attributes it has (class facts, two contract variants: @inmemory, @ondisk).
"""
import z3

from pyvc.ty import *  # noqa
from pyvc.engine import PyRaise, Unsupported


def load(R):
    from pyvc import heapmaps
    heapmaps.register(R)     # mapping objects (a parent's index) are mutable heap objects: writing through an alias is a write to the parent
    Entry = R.record("_ResultTypeAndContentKey", result_type=TObj(), content_key=TObj(), from_parent=TBool)
    for a, t in dict(_merge_parent=TObj(), _index=TObj(), result_type=TObj(), content_key=TObj(), from_parent=TObj()).items():
        R.attr(a, t)
    for a in ("_output_keys", "_data_source", "_parent_data_source", "_index_bytes"):
        R.attr(a, TObj(), mutable=True)
    for n, (a, r) in dict(own_key=([TObj(), TStr], TBool), has_key=([TObj(), TStr], TBool), value_of=([TObj(), TStr], TObj()), rtype_of=([TObj()], TObj()), stored_key=([TObj(), TObj(), TObj()], TObj()),
                          has_attr=([TObj(), TObj()], TBool), index_has=([TObj(), TStr], TBool), index_entry=([TObj(), TStr], Entry), py_str=([TObj()], TStr)).items():
        R.uf(n, a, r)
    ufs = {k: v[0] for k, v in R.ufs.items()}
    R.enum("ResultType", ["exception", "null", "boolean", "string", "binary", "number", "date", "timestamp", "list_result", "dictionary",
                          "array_boolean", "array_int8", "array_int16", "array_int32", "array_int64", "array_float32", "array_float64",
                          "index", "series", "data_frame", "partition", "memento_function"])
    R.entity("PicklePartitionStrategy", ("storage_base", "DefaultCodec.PicklePartitionStrategy"), dict(_codec=TObj("nn:Codec")))
    ST = TEnt("PicklePartitionStrategy")
    R.plain_truthy.update({"Partition"})

    # ---- the partition's own interface (assumed: each class's get / list_keys is proved separately below)
    def list_keys(ex, recv, args, kwargs):
        """obj.list_keys(_include_merge_parent=False): the own keys, each once (sorted order is immaterial here)."""
        inc = kwargs.get("_include_merge_parent", args[0] if args else VBool(True))
        # list_keys(False): the partition's own keys; list_keys(True): all of its keys (has_key).  For a partition WITHOUT a merge parent that was
        # read back from the store the two differ: the entries it inherited when it was written are flagged from_parent and are not "own".
        all_keys = ex.branch(ex.truth(inc))
        arr = ex.fresh("ownkeys", z3.ArraySort(z3.IntSort(), z3.StringSort()))
        idx = ex.fresh("ownkeysidx", z3.ArraySort(z3.StringSort(), z3.IntSort()))
        n = ex.fresh("nown", z3.IntSort())
        ex.assume(n >= 0)
        lst = ListV(TList(TStr), arr, n, idx)
        own = ufs["has_key"] if all_keys else ufs["own_key"]
        o = recv.t
        ex.injlist_facts(lst, lambda k: own(o, k))
        return ex.new_box(lst)
    R.obj_method_hooks["list_keys"] = list_keys

    def get(ex, recv, args, kwargs):
        k = args[0]
        kt = k.t if isinstance(k, VStr) else ex.to_term(k, TStr)
        if not ex.branch(ufs["has_key"](recv.t, kt)):
            if ex.choose([z3.BoolVal(True), z3.BoolVal(True)]) == 1:
                raise PyRaise(VExc("ValueError", []))
            return VObj(ex.fresh("parentval", ObjSort))
        return VObj(ufs["value_of"](recv.t, kt))
    R.obj_method_hooks["get"] = get

    # codec.store(result_type, data_source, override, value): a key that depends on what was stored and where (may raise)
    def codec_store(ex, recv, args, kwargs):
        if ex.choose([z3.BoolVal(True), z3.BoolVal(True)]) == 1:
            raise PyRaise(VExc("OSError", [], exact=False))
        rt, ds, override, value = args
        key = ufs["stored_key"](ds.t, ex.box(override), ex.box(value))
        n_ = ex.st.ghost.get("codec_stores", VInt(0))
        ex.st.ghost["codec_stores"] = VInt(n_.t + 1)
        return VObj(key)
    R.obj_method_hooks["store"] = codec_store

    def reference(ex, recv, args, kwargs):
        """data_source.reference(src_data_source, src_key, target_key): parent entries must be referenced from the data source the parent
        was written to (a PicklePartition's own data source; for a remembered in-memory / on-disk parent its _parent_data_source)."""
        mp = ex.st.env.get("merge_parent")
        if isinstance(mp, VObj):
            pickle = ex.class_pred("DefaultCodec.PicklePartition")(mp.t)
            own = z3.Function("attr__data_source_ro", ObjSort, ObjSort)(mp.t)
            exp = z3.If(pickle, ex.heap_arr("_data_source", TObj())[mp.t], ex.heap_arr("_parent_data_source", TObj())[mp.t])
            ex.oblige("parent-entries-are-referenced-from-the-data-source-the-parent-was-stored-in", args[0].t == exp, kind="post",
                      info={"clause": "data_source.reference(...) is given the data source the merge parent was written to", "tags": ["C17"]})
        return VNone
    R.obj_method_hooks["reference"] = reference
    R.contract("metadata:ResultType.from_object", assumed=True, types={"obj": TObj()}, returns=TObj("nn:enum:ResultType"), ensures=["same(result, rtype_of(obj))"])
    R.contract("storage_base:DefaultCodec.PicklePartition._serialize_index", assumed=True, types={"index": TDict(TStr, Entry)}, returns=TObj("nn:bytes"),
               ensures=["forall(str, lambda k: index_has(result, k) == (k in index) and implies(k in index, index_entry(result, k) == index[k]))"],
               notes="assumed: the serialised index carries exactly the entries of the dict (its JSON round trip is not proved)")
    R.contract("storage_base:Codec.BlobStrategy.store", assumed=True, types={"self": TObj(), "data_source": TObj(), "key_override": TOpt(TStr), "obj": TObj()}, returns=TObj("nn:VersionedDataSourceKey"),
               raises={"OSError+": []}, ensures=[], notes="proved under C07; here it writes the already encoded index and touches nothing of the partition")

    # ---- the overlay law and what is remembered / left alone
    R.spec("PARENT_HAS", ["p", "k"], "p._merge_parent is not None and truthy(p._merge_parent) and k in PARENT_INDEX(p)")
    R.spec("PARENT_INDEX", ["p"], "p._merge_parent._index if isinstance(p._merge_parent, DefaultCodec.PicklePartition) else p._merge_parent._output_keys")
    # the keys a partition contributes itself: all of its keys when it has no merge parent ("reads back with exactly the same key set"), its own keys
    # (list_keys(False)) when it is layered on a parent
    R.spec("SELF_KEY", ["p", "k"], "own_key(p, k) if (p._merge_parent is not None and truthy(p._merge_parent)) else has_key(p, k)")
    R.spec("OVERLAY", ["p", "ds", "ko"],
           # every own key is in the index with a fresh, non-inherited entry describing the value the partition returns for it ...
           "forall(str, lambda k: implies(SELF_KEY(p, k), index_has(p._index_bytes, k) and not index_entry(p._index_bytes, k).from_parent "
           "and same(index_entry(p._index_bytes, k).result_type, rtype_of(value_of(p, k))) "
           "and same(index_entry(p._index_bytes, k).content_key, stored_key(ds, (ko + '/' + k) if ko is not None else None, value_of(p, k))))) "
           # ... every parent key that is not overridden is inherited with the parent's type and content key ...
           "and forall(str, lambda k: implies(PARENT_HAS(p, k) and not SELF_KEY(p, k), index_has(p._index_bytes, k) and index_entry(p._index_bytes, k).from_parent "
           "and same(index_entry(p._index_bytes, k).result_type, PARENT_INDEX(p)[k].result_type) and same(index_entry(p._index_bytes, k).content_key, PARENT_INDEX(p)[k].content_key))) "
           # ... and nothing else is in it
           "and forall(str, lambda k: implies(index_has(p._index_bytes, k), SELF_KEY(p, k) or PARENT_HAS(p, k)))")
    # From the property ("... for chains of any length and whether the parent was ... built in memory"): a partition object that has been stored can
    # itself be the merge parent of a later one, so what it records about its stored form must describe the WHOLE stored result -- inherited
    # entries included --, not only its own keys.
    R.spec("STORED_AS_PARENT", ["p", "ds"],
           "p._output_keys is not None and same(p._parent_data_source, ds) "
           "and forall(str, lambda k: (k in p._output_keys) == index_has(p._index_bytes, k)) "
           "and forall(str, lambda k: implies(k in p._output_keys, same(p._output_keys[k].result_type, index_entry(p._index_bytes, k).result_type) "
           "and same(p._output_keys[k].content_key, index_entry(p._index_bytes, k).content_key)))")
    S = "storage_base:DefaultCodec.PicklePartitionStrategy.store"
    COMMON_REQ = ["implies(obj._merge_parent is not None and truthy(obj._merge_parent) and not isinstance(obj._merge_parent, DefaultCodec.PicklePartition), "
                  "has_attr(obj._merge_parent, '_output_keys') == (obj._merge_parent._output_keys is not None) or True)"]
    LOOPS = {1: ["forall(str, lambda k: (k in index) == (k in PARENT_INDEX(obj) and pos(loop_list, k) < loop_i))"
                 if False else "True"],
             2: ["True"]}

    OWN_IS_KEY = "forall(str, lambda k: implies(own_key(obj, k), has_key(obj, k)))"
    ALL_OWN = "forall(str, lambda k: has_key(obj, k) == own_key(obj, k))"      # in-memory / on-disk partition without a merge parent (their list_keys contracts)

    def variant(tag, has_output_keys, has_data_source, has_parent_source, extra_ensures, class_facts=(OWN_IS_KEY, ALL_OWN)):
        R.contract(S + "@" + tag, prop="C17", types={"self": ST, "data_source": TObj("nn:DataSource"), "key_override": TOpt(TStr), "obj": TObj("nn:Partition")},
                   requires=["has_attr(obj, '_output_keys') == %s" % has_output_keys, "has_attr(obj, '_data_source') == %s" % has_data_source,
                             "has_attr(obj, '_parent_data_source') == %s" % has_parent_source, "obj._merge_parent is None"],
                   ensures=["OVERLAY(obj, data_source, key_override)"] + extra_ensures,
                   raises={"OSError+": [], "ValueError": []},
                   loops={2: ["forall(str, lambda k: (k in index) == (k in keys and pos(keys, k) < loop_i))",
                              "forall(str, lambda k: implies(k in keys and pos(keys, k) < loop_i, not index[k].from_parent and same(index[k].result_type, rtype_of(value_of(obj, k))) "
                              "and same(index[k].content_key, stored_key(data_source, (key_override + '/' + k) if key_override is not None else None, value_of(obj, k)))))",
                              "same(obj._data_source, old(obj._data_source)) and same(obj._output_keys, old(obj._output_keys)) and same(obj._parent_data_source, old(obj._parent_data_source))",
                              "same(self._codec, old(self._codec))"]},
                   labels={"local_types": {"index": TDict(TStr, Entry)}, "entry_axioms": list(class_facts)},
                   modifies=["heap:_output_keys", "heap:_data_source", "heap:_parent_data_source", "heap:_index_bytes"])
    # ---- a partition with a merge parent: the parent's index is inherited, the partition's own keys are layered on top
    PI = "PARENT_INDEX(obj)"
    R.contract(S + "@with-parent", prop="C17", types={"self": ST, "data_source": TObj("nn:DataSource"), "key_override": TOpt(TStr), "obj": TObj("nn:Partition")},
               requires=["obj._merge_parent is not None and truthy(obj._merge_parent)", "not same(obj._merge_parent, obj)",
                         "isinstance(obj._merge_parent, DefaultCodec.PicklePartition) or (has_attr(obj._merge_parent, '_output_keys') and has_attr(obj._merge_parent, '_parent_data_source') "
                         "and obj._merge_parent._output_keys is not None)",
                         "%s is not None" % PI, "forall(obj, lambda x: implies(x in %s, isinstance(x, str) and %s[x] is not None))" % (PI, PI),
                         "has_attr(obj, '_output_keys') == has_attr(obj, '_parent_data_source')"],
               ensures=["OVERLAY(obj, data_source, key_override)",
                        # a partition with a parent is as good a parent as one without (chains of any length)
                        "implies(has_attr(obj, '_output_keys'), STORED_AS_PARENT(obj, data_source))"],
               raises={"OSError+": [], "ValueError": []},
               loops={1: ["forall(str, lambda k: (k in index) == (k in %s and pos(loop_list, k) < loop_i))" % PI,
                          "forall(str, lambda k: implies(k in index, index[k] == _ResultTypeAndContentKey(%s[k].result_type, %s[k].content_key, True)))" % (PI, PI),
                          "same(self._codec, old(self._codec))", "same(obj._index_bytes, old(obj._index_bytes))"],
                      2: ["forall(str, lambda k: (k in index) == (k in %s or (k in keys and pos(keys, k) < loop_i)))" % PI,
                          "forall(str, lambda k: implies(k in keys and pos(keys, k) < loop_i, not index[k].from_parent and same(index[k].result_type, rtype_of(value_of(obj, k))) "
                          "and same(index[k].content_key, stored_key(data_source, (key_override + '/' + k) if key_override is not None else None, value_of(obj, k)))))",
                          "forall(str, lambda k: implies(k in %s and not (k in keys and pos(keys, k) < loop_i), index[k] == _ResultTypeAndContentKey(%s[k].result_type, %s[k].content_key, True)))" % (PI, PI, PI),
                          "same(self._codec, old(self._codec))"]},
               labels={"entry_axioms": [OWN_IS_KEY], "local_types": {"index": TDict(TStr, Entry)}},
               modifies=["heap:_output_keys", "heap:_data_source", "heap:_parent_data_source", "heap:_index_bytes"])
    # an in-memory partition: stored once, it must be able to serve as the merge parent of a later partition -- it remembers its output keys and
    # the data source they were written to (the documented field _parent_data_source)
    REMEMBER = ["STORED_AS_PARENT(obj, data_source)"]
    variant("inmemory", True, False, True, REMEMBER)
    # an on-disk partition additionally keeps reading its staged values from its OWN data source: storing must not re-point it
    variant("ondisk", True, True, True, REMEMBER + ["same(obj._data_source, old(obj._data_source))"])
    # a partition that was read back from the store and is returned again (by another function): no bookkeeping attributes; the entries it inherited when it
    # was written are not "own" (list_keys(False) leaves them out) but they ARE its keys -- "reads back with exactly the same key set"
    variant("readback", False, True, False, ["same(obj._data_source, old(obj._data_source))"], class_facts=(OWN_IS_KEY,))
    load_classes(R)


def load_classes(R):
    """get / list_keys of the three partition classes (the overlay law of the property statement)."""
    Entry = R.records["_ResultTypeAndContentKey"]
    for n, (a, r) in dict(parent_has=([TObj(), TStr], TBool), parent_value=([TObj(), TStr], TObj()), loaded=([TObj(), TObj(), TObj()], TObj())).items():
        R.uf(n, a, r)
    ufs = {k: v[0] for k, v in R.ufs.items()}

    # the merge parent as seen by a child: parent_has(p, k) / parent_value(p, k) (its own get / list_keys obey the same law: induction on the parent link)
    def parent_list_keys(ex, recv, args, kwargs):
        arr = ex.fresh("pkeys", z3.ArraySort(z3.IntSort(), z3.StringSort()))
        idx = ex.fresh("pkeysidx", z3.ArraySort(z3.StringSort(), z3.IntSort()))
        n = ex.fresh("npkeys", z3.IntSort())
        ex.assume(n >= 0)
        lst = ListV(TList(TStr), arr, n, idx)
        o = recv.t
        ex.injlist_facts(lst, lambda k: ufs["parent_has"](o, k))
        return ex.new_box(lst)

    def parent_get(ex, recv, args, kwargs):
        k = args[0]
        kt = k.t if isinstance(k, VStr) else ex.to_term(k, TStr)
        if not ex.branch(ufs["parent_has"](recv.t, kt)):
            raise PyRaise(VExc("ValueError", []))
        return VObj(ufs["parent_value"](recv.t, kt))
    saved = dict(R.obj_method_hooks)
    R.class_hooks = {"list_keys": parent_list_keys, "get": parent_get}

    R.obj_method_hooks["load"] = lambda ex, recv, args, kwargs: VObj(ufs["loaded"](ex.box(args[0]), ex.box(args[1]), ex.box(args[2])))
    KEYS_POST = ["is_sorted(result)", "forall(int, int, lambda i, j: implies(0 <= i and i < j and j < len(result), result[i] != result[j]))"]

    def overlay_contracts(cls_ent, where, own_field, get_own, inv=()):
        E_ = TEnt(cls_ent)
        fid = "%s:%s." % where
        R.contract(fid + "get", prop="C17", types={"self": E_, "key": TStr}, returns=TObj(), requires=list(inv),
                   # own value if the key is the partition's own, else the parent's
                   ensures=["implies(key in self.%s, same(result, %s))" % (own_field, get_own),
                            "implies(key not in self.%s, truthy(self._merge_parent) and parent_has(self._merge_parent, key) and same(result, parent_value(self._merge_parent, key)))" % own_field],
                   raises={"ValueError": ["key not in self.%s" % own_field, "not (truthy(self._merge_parent) and parent_has(self._merge_parent, key))"]},
                   labels={"obj_method_hooks": "class_hooks"})
        R.contract(fid + "list_keys", prop="C17", types={"self": E_, "_include_merge_parent": TBool}, returns=TList(TStr),
                   ensures=["forall(str, lambda k: (k in result) == (k in self.%s or (_include_merge_parent and truthy(self._merge_parent) and parent_has(self._merge_parent, k))))" % own_field] + KEYS_POST,
                   labels={"obj_method_hooks": "class_hooks"})
    # the results dictionary is the user's: it may be a collections.defaultdict (the module's own example builds one)
    R.entity("InMemoryPartition", ("partition", "InMemoryPartition"), dict(_results=TDict(TStr, TObj(), maybe_default=True), _merge_parent=TObj(), _index_bytes=TObj(), _output_keys=TObj(), _parent_data_source=TObj()))
    overlay_contracts("InMemoryPartition", ("partition", "InMemoryPartition"), "_results", "self._results[key]")
    R.entity("OnDiskPartition", ("storage_filesystem", "OnDiskPartition"), dict(_result_types=TDict(TStr, TObj()), _result_keys=TDict(TStr, TObj()), _merge_parent=TObj(), _codec=TObj("nn:Codec"),
                                                                                 _data_source=TObj("nn:DataSource"), _index_bytes=TObj(), _output_keys=TObj(), _parent_data_source=TObj()))
    overlay_contracts("OnDiskPartition", ("storage_filesystem", "OnDiskPartition"), "_result_types", "loaded(self._result_types[key], self._data_source, self._result_keys[key])",
                      inv=["forall(str, lambda k: (k in self._result_types) == (k in self._result_keys))"])
    # a loaded (pickle) partition: its index IS the merged view
    R.entity("PicklePartition", ("storage_base", "DefaultCodec.PicklePartition"), dict(_codec=TObj("nn:Codec"), _data_source=TObj("nn:DataSource"), _base_key=TObj(), _index=TDict(TStr, Entry)))
    PP = TEnt("PicklePartition")
    P = "storage_base:DefaultCodec.PicklePartition."
    R.contract(P + "get", prop="C17", types={"self": PP, "key": TStr}, returns=TObj(),
               ensures=["key in self._index", "same(result, loaded(self._index[key].result_type, self._data_source, self._index[key].content_key))"],
               raises={"ValueError": ["key not in self._index"]})
    R.contract(P + "list_keys", prop="C17", types={"self": PP, "_include_merge_parent": TBool}, returns=TList(TStr),
               ensures=["forall(str, lambda k: (k in result) == (k in self._index and (_include_merge_parent or not self._index[k].from_parent)))"] + KEYS_POST)
