"""Contracts for the in-process version cache (property C13): MementoFunction._update_dependencies, version, fn_reference,
hash_rules, _update_fn_reference, increment_global_fn_generation, the registration step of __init__, and did_change of
the four rule kinds.

Global state: ghost 'gen' = MementoFunction._global_fn_generation, ghost 'vcache' = MementoFunction._global_fn_version_cache
(qualified name -> (generation, version)).

World model (stated assumption): during ONE call of the functions below no user code runs, so the answers of
rule.did_change() (rule_changed(rule)) and the version a from-scratch computation would give (true_version(self), what
_recompute_version returns) do not change within the call.  Coherence across calls is the lemma of DESIGN section 6, C13,
whose environment assumption E is not provable from code.
"""
import z3

from pyvc.ty import *  # noqa
from pyvc.engine import PyRaise, Unsupported


def load(R):
    Entry = R.record("_MementoFunctionVersionCacheEntry", as_of_generation=TInt, version=TStr)
    R.class_state[("MementoFunction", "_global_fn_generation")] = "gen"
    R.class_state[("MementoFunction", "_global_fn_version_cache")] = "vcache"
    GH = {"gen": TInt, "vcache": TDict(TStr, Entry)}
    RULE = TObj("nn:HashRule")
    R.entity("MementoFunction", ("memento", "MementoFunction"), dict(
        _hash_rules=TList(RULE), fn=TObj(), src_fn=TObj(), function_type=TStr, _constructor_provided_version_code_hash=TObj(), _constructor_provided_version_salt=TObj(),
        explicit_version=TOpt(TStr), _calculated_version=TOpt(TStr), code_hash=TObj(), context=TObj(), cluster_name=TOpt(TStr), qualified_name_without_version=TStr,
        auto_dependencies=TBool, _constructor_provided_dependencies=TObj(), required_dependencies=TObj(), detected_dependencies=TObj(),
        partial_args=TObj(), partial_kwargs=TObj(), _fn_reference=TObj()))
    MF = TEnt("MementoFunction")
    for n, (a, r) in dict(rule_changed=([TObj()], TBool), rule_text=([TObj()], TStr), true_version=([TObj()], TStr), call_result=([TObj()], TObj()),
                          serialize=([TObj()], TObj()), py_eq=([TObj(), TObj()], TBool), has_attr=([TObj(), TObj()], TBool), dict_has=([TObj(), TObj()], TBool),
                          fnref=([TObj(), TObj()], TObj())).items():
        R.uf(n, a, r)
    ufs = {k: v[0] for k, v in R.ufs.items()}
    R.attr("locked", TBool)
    R.attr("version", TObj())
    R.assume("within one call the answers of rule.did_change() and the from-scratch version do not change (no user code runs in between; single thread)")

    R.obj_method_hooks["did_change"] = lambda ex, recv, args, kwargs: VBool(ufs["rule_changed"](recv.t))
    R.obj_uf_methods.update({"did_change": "rule_changed", "describe": "rule_text"})
    R.obj_method_hooks["describe"] = lambda ex, recv, args, kwargs: VStr(ufs["rule_text"](recv.t))

    R.uf("the_env", [], TObj())
    R.uf("cluster_of", [TObj(), TObj()], TObj())

    def env_get(ex, args, kwargs):
        o = R.ufs["the_env"][0]()
        ex.assume(o != PyNone)
        return VObj(o, "Environment")
    R.func_hooks["configuration:Environment.get"] = env_get
    R.obj_method("get_cluster", types={"self": TObj(), "cluster_name": TOpt(TStr)}, returns=TObj(), ensures=["same(result, cluster_of(self, cluster_name))"])
    R.spec("LOCKED", ["f"], "f.explicit_version is None and f._calculated_version is not None and cluster_of(the_env(), f.cluster_name) is not None and cluster_of(the_env(), f.cluster_name).locked")

    def selfobj(ex, ent):
        return ex.box(ent)

    def fn_reference_ctor(ex, args, kwargs):
        """FunctionReference(memento_fn, cluster_name=, version=, partial_args=, partial_kwargs=): a fresh reference carrying the version."""
        o = ex.fresh_obj("FunctionReference")
        ver = kwargs.get("version")
        ex.assume(z3.Function("attr_version", ObjSort, ObjSort)(o) == ex.box(ver))
        return VObj(o, "FunctionReference")
    R.constructors["FunctionReference"] = fn_reference_ctor

    # ---- specification vocabulary
    R.spec("NAME", ["f"], "f.qualified_name_without_version")
    R.spec("VER", ["f"], "f.explicit_version if f.explicit_version is not None else f._calculated_version")
    R.spec("CACHE_SAME", [], "forall(str, lambda k: (k in ghost('vcache')) == old(k in ghost('vcache')) and ghost('vcache')[k] == old(ghost('vcache')[k]))")
    R.spec("CACHE_SAME_EXCEPT", ["n"], "forall(str, lambda k: implies(k != n, (k in ghost('vcache')) == old(k in ghost('vcache')) and ghost('vcache')[k] == old(ghost('vcache')[k])))")
    R.spec("NO_RULE_CHANGED", ["f"], "forall(int, lambda j: implies(0 <= j and j < len(f._hash_rules), not rule_changed(f._hash_rules[j])))")
    R.spec("SOME_RULE_CHANGED", ["f"], "exists(int, lambda j: 0 <= j and j < len(f._hash_rules) and rule_changed(f._hash_rules[j]))")
    # FRESH: the version is the from-scratch one and the cache records it at the current generation
    R.spec("FRESH", ["f"], "f._calculated_version == true_version(f) and NAME(f) in ghost('vcache') and ghost('vcache')[NAME(f)] == _MementoFunctionVersionCacheEntry(ghost('gen'), true_version(f))")
    R.spec("FRESH_PENDING", ["f"], "f._calculated_version == true_version(f)")

    M = "memento:MementoFunction."
    R.contract(M + "_recompute_version", assumed=True, types={"self": MF}, returns=TStr, ensures=["result == true_version(self)"], modifies=["self._hash_rules"],
               notes="assumed: the from-scratch version computation (dependency traversal + hashing); its determinism is C03's subject")
    R.contract(M + "increment_global_fn_generation", prop="C13", types={"reason": TOpt(TStr)}, ghost_params=GH,
               ensures=["ghost('gen') == old(ghost('gen')) + 1", "CACHE_SAME()"], modifies=["ghost:gen"])
    # helper: rebuilds the reference from the current version; the nested version() call may refresh the version but never makes it stale
    R.contract(M + "_update_fn_reference", level="H", prop="C13", types={"self": MF}, ghost_params=GH,
               requires=["VER(self) is not None"],
               ensures=["self._fn_reference is not None", "self._fn_reference.version == VER(self)", "VER(self) is not None", "ghost('gen') >= old(ghost('gen'))",
                        "self.explicit_version == old(self.explicit_version)", "NAME(self) == old(NAME(self))",
                        "implies(self.explicit_version is not None, self._calculated_version == old(self._calculated_version) and ghost('gen') == old(ghost('gen')) and CACHE_SAME())",
                        "implies(self.explicit_version is None, (self._calculated_version == old(self._calculated_version) and ghost('gen') == old(ghost('gen')) and CACHE_SAME()) or FRESH(self))",
                        "CACHE_SAME_EXCEPT(NAME(self))"],
               modifies=["self._fn_reference", "self._calculated_version", "self._hash_rules", "ghost:gen", "ghost:vcache"])
    UD_POST = [
        "self.explicit_version == old(self.explicit_version)", "NAME(self) == old(NAME(self))", "ghost('gen') >= old(ghost('gen'))", "CACHE_SAME_EXCEPT(NAME(self))",
        # an explicitly versioned function: nothing about generations, cache or calculated version moves
        "implies(self.explicit_version is not None, self._calculated_version == old(self._calculated_version) and ghost('gen') == old(ghost('gen')) and CACHE_SAME())",
        # asking for a version always succeeds with one
        "implies(self.explicit_version is None and old(self._calculated_version) is None, self._calculated_version is not None)",
        # unless the cluster is locked, the exit state is FRESH (recomputed from scratch and recorded at the current generation) or the
        # coherent CACHED state: the entry is of the current generation, no collected rule reports a change, and the version is the entry's
        # (or the one this object already held)
        "implies(self.explicit_version is None and not old(LOCKED(self)), FRESH(self) or ("
        "ghost('gen') == old(ghost('gen')) and CACHE_SAME() and old(NAME(self) in ghost('vcache')) and old(ghost('vcache')[NAME(self)].as_of_generation) == old(ghost('gen')) "
        # (from the property: the cached version may be kept only by an object that collected the rules it has just re-validated -- an object that never
        # computed its version has an empty rule list and must compute: the entry under its NAME may belong to another object, e.g. to the definition
        # that existed before an edit + reload)
        "and old(NO_RULE_CHANGED(self)) and old(self._calculated_version) is not None and self._calculated_version == old(self._calculated_version)))",
        # a rule that reports a change while the entry is current bumps the generation (so every other function re-validates) and forces recomputation
        "implies(self.explicit_version is None and not old(LOCKED(self)) and old(NAME(self) in ghost('vcache')) and old(ghost('vcache')[NAME(self)].as_of_generation) == old(ghost('gen')) and old(SOME_RULE_CHANGED(self)), "
        "ghost('gen') > old(ghost('gen')) and FRESH(self))",
        # an entry of an older generation is never trusted
        "implies(self.explicit_version is None and not old(LOCKED(self)) and old(NAME(self) in ghost('vcache')) and old(ghost('vcache')[NAME(self)].as_of_generation) != old(ghost('gen')), FRESH(self))",
        "implies(self.explicit_version is None and not old(LOCKED(self)) and not old(NAME(self) in ghost('vcache')), FRESH(self))",
        # locked cluster with a version already calculated: untouched
        "implies(old(LOCKED(self)), self._calculated_version == old(self._calculated_version) and old(self._calculated_version) is not None and ghost('gen') == old(ghost('gen')) and CACHE_SAME())",
    ]
    # the function reference exists once a version does (it may predate the call when this object already had its version)
    FNREF_POST = ["implies(self.explicit_version is not None or old(self._calculated_version) is None, self._fn_reference is not None)"]
    UD_MOD = ["self._fn_reference", "self._calculated_version", "self._hash_rules", "ghost:gen", "ghost:vcache"]
    GH2 = dict(GH)
    R.contract(M + "_update_dependencies", prop="C13", types={"self": MF}, ghost_params=GH2,
               ensures=UD_POST + FNREF_POST, modifies=UD_MOD,
               notes="exception freedom: no `raises` entry, so any exception on any path (e.g. calling a non-callable) is a failed obligation")

    def locked_hook(ex, recv, name):
        return None
    R.contract(M + "version", prop="C13", types={"self": MF}, returns=TOpt(TStr), ghost_params=GH2,
               ensures=["result == VER(self)", "result is not None"] + UD_POST, modifies=UD_MOD)
    R.contract(M + "fn_reference", prop="C13", types={"self": MF}, returns=TObj(), ghost_params=GH2,
               ensures=["same(result, self._fn_reference)"] + UD_POST + FNREF_POST, modifies=UD_MOD)
    R.contract(M + "hash_rules", prop="C13", types={"self": MF}, returns=TList(RULE), ghost_params=GH2,
               ensures=UD_POST, modifies=UD_MOD)

    # ---------------------------------------------------------------- did_change of the four rule kinds
    R.uf("resolves", [TObj()], TBool)

    def opaque_call(ex, fv, args, kwargs):
        """A resolver: returns what the symbol currently resolves to (a function of the resolver within one call) -- or raises, when the symbol (an
        attribute along a dotted name, a module global) has been removed since the rule was collected: `resolves(resolver)` says which."""
        if not ex.branch(R.ufs["resolves"][0](fv.t)):
            raise PyRaise(VExc("AttributeError", []))
        return VObj(ufs["call_result"](fv.t))
    R.opaque_call_hook = opaque_call
    # from the property: a symbol that no longer resolves gives another from-scratch version (an undefined-symbol rule instead of this one), so the rule
    # reports a change -- it does not raise out of version()
    C = "code_hash:"
    R.entity("UndefinedSymbolHashRule", ("code_hash", "UndefinedSymbolHashRule"), dict(ref=TObj(), symbol=TStr, ref_is_global_table=TBool))
    R.contract(C + "UndefinedSymbolHashRule.did_change", prop="C13", types={"self": TEnt("UndefinedSymbolHashRule")}, returns=TBool,
               requires=["self.ref is not None"],
               ensures=["result == (dict_has(self.ref, self.symbol) if self.ref_is_global_table else has_attr(self.ref, self.symbol))"])
    R.entity("MementoFunctionHashRule", ("code_hash", "MementoFunctionHashRule"), dict(resolver=TObj("nn:callable"), memento_fn=TObj()))
    R.contract(C + "MementoFunctionHashRule.did_change", prop="C13", types={"self": TEnt("MementoFunctionHashRule")}, returns=TBool,
               # from the property: a rule reports a change whenever what its symbol resolves to would give another rule hash from scratch -- for a memento
               # function: the symbol no longer resolves to a memento function, OR it resolves to another one (rebinding dep = g2)
               ensures=["result == (not resolves(self.resolver) or not isinstance(call_result(self.resolver), MementoFunctionType) or not same(call_result(self.resolver), self.memento_fn))"])
    R.entity("GlobalVariableHashRule", ("code_hash", "GlobalVariableHashRule"), dict(var=TObj(), resolver=TObj("nn:callable"), last_value=TObj("bytes")))
    R.contract(C + "GlobalVariableHashRule._serialize_value", assumed=True, types={"var": TObj()}, returns=TObj("bytes"), ensures=["same(result, serialize(var))"],
               notes="the JSON bytes of the value, or None for a value Memento cannot hash")
    R.contract(C + "GlobalVariableHashRule.did_change", prop="C13", types={"self": TEnt("GlobalVariableHashRule")}, returns=TBool,
               ensures=["result == (self.last_value is not None and (not resolves(self.resolver) or not py_eq(self.last_value, serialize(call_result(self.resolver)))))"])
    # `a != b` on values the rule does not control (the symbol may have been rebound to an array, a frame, anything) runs their __eq__ and may raise or
    # give a non-bool: a rule decides "is it still the function I hashed" by identity, and never raises out of version()
    R.eq_may_raise = True
    R.entity("NonMementoFunctionHashRule", ("code_hash", "NonMementoFunctionHashRule"), dict(resolver=TObj("nn:callable"), src_fn=TObj()))
    R.contract(C + "NonMementoFunctionHashRule.did_change", prop="C13", types={"self": TEnt("NonMementoFunctionHashRule")}, returns=TBool,
               ensures=["result == (not resolves(self.resolver) or not same(self.src_fn, call_result(self.resolver)))"])

    # ---------------------------------------------------------------- registration step of MementoFunction.__init__
    R.attr("__module__", TStr)
    R.attr("__qualname__", TStr)
    R.uf("code_hash_of", [TObj(), TObj()], TStr)
    R.consts["configuration:ENVIRONMENT_HASH_BYTES"] = lambda ex: VObj(z3.Const("ENVIRONMENT_HASH_BYTES", ObjSort))
    R.external("inspect.isfunction", returns=TBool, ensures=[])
    R.external("functools.update_wrapper", ensures=[])
    R.contract("code_hash:fn_code_hash", assumed=True, types={"fn": TObj(), "salt": TObj(), "environment": TObj()}, returns=TStr, ensures=["result == code_hash_of(fn, salt)"])
    R.contract("code_hash:resolve_to_symbolic_names", assumed=True, types={"dependencies": TObj()}, returns=TObj(), ensures=[])
    R.contract("code_hash:list_dotted_names", assumed=True, types={"fn": TObj()}, returns=TObj(), ensures=[])
    R.contract("configuration:Environment.register_function", assumed=True, types={"cluster_name": TOpt(TStr), "fn": TObj()}, raises={"ValueError": []}, ensures=[],
               notes="registration may refuse (locked cluster); it does not touch the generation counter or the version cache")

    def invocation_context(ex, args, kwargs):
        return VObj(ex.fresh_obj("InvocationContext"), "InvocationContext")
    R.constructors["InvocationContext"] = invocation_context
    R.plain_truthy.add("InvocationContext")
    R.contract(M + "__init__", prop="C13", ghost_params=GH,
               types={"self": MF, "fn": TObj("nn:function"), "src_fn": TObj(), "cluster_name": TOpt(TStr), "version": TOpt(TStr), "calculated_version": TOpt(TStr), "context": TObj("InvocationContext"),
                      "partial_args": TObj(), "partial_kwargs": TObj(), "auto_dependencies": TBool, "dependencies": TObj(), "version_code_hash": TOpt(TStr), "version_salt": TObj(),
                      "register_fn": TBool},
               ensures=["self.explicit_version == version", "self._calculated_version == calculated_version", "self._fn_reference is None",
                        "self.qualified_name_without_version == (cluster_name + '::' if cluster_name is not None else '') + fn.__module__ + ':' + fn.__qualname__",
                        # every registration moves the global generation, so every cached version is re-validated afterwards
                        "ghost('gen') == old(ghost('gen')) + (1 if register_fn else 0)", "CACHE_SAME()"],
               raises={"ValueError": ["CACHE_SAME()", "ghost('gen') >= old(ghost('gen'))"]},
               labels={"asserts_assumed": True}, modifies=["self.*", "ghost:gen"])
