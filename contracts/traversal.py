"""Contracts for the dependency traversal (properties C14, C03, C13): HashRule._visit_dependency and the two
collect_transitive_dependencies methods that descend (MementoFunctionHashRule, NonMementoFunctionHashRule).

What the property statements say about this code: "functions refer to each other by name (directly, through module attributes ...)"
(C14), "defining a previously undefined symbol ... yields exactly the version a fresh process computes" (C13), "identical in every
process regardless of ... definition or import order" (C03).  At the level of one visited dotted name  a.b.c  that is:

  * the name is resolved left to right from the global table of the function that contains it; the FIRST prefix that denotes something a
    hash rule describes (resolvable) gets that rule, and the rule's own traversal is started with the same result set / root / package
    scope / blacklist;
  * when the walk ends without a rule (a missing global, a missing attribute, or a name nothing describes), a REQUIRED dependency is an
    error; an optional one that stopped at something missing leaves an
    undefined-symbol rule that watches exactly the place where the name would appear: (the global table, the first component) or (the
    object reached so far, the missing attribute's own name) -- otherwise the later definition of the symbol is never noticed;
  * nothing else is added, and nothing is ever removed from the result set.

Ghost state: 'collected' -- the rules on which collect_transitive_dependencies was started by the function under verification, in order;
'visited' / 'nvisits' -- the set of visit records and the number of visits made by _visit_dependency (an [effect] of its contract: the record of being
called), used by the
contracts of the two collect_transitive_dependencies methods.

Assumed: the strategy loop `resolve_symbol` (iteration over HashRule.all_rules, blacklist filter): it answers None exactly when
nothing describes the reference (resolvable), otherwise a rule for (parent symbol, symbol, reference).  The three try_resolve strategies
it consults are under contract at the end of this module (a memento function behind any functools.wraps chain; a callable with a global
scope; a value that can be serialised).  list_dotted_names (AST visitor)
is a function of the source function (dotted_names).  FunctionReference.from_qualified_name(s).memento_fn is a function of s (fn_named).
"""
import z3

from pyvc.ty import *  # noqa
from pyvc.engine import PyRaise, Unsupported


def load(R):
    for a, t in dict(__globals__=TObj("nn:dict"), __name__=TStr, __module__=TStr, __qualname__=TStr, __package__=TObj(), key=TStr, memento_fn=TObj(), src_fn=TObj(),
                     required_dependencies=TObj("nn:set"), detected_dependencies=TObj("nn:set"), qualified_name_without_version=TStr,
                     ref=TObj(), ref_is_global_table=TBool, symbol=TStr, parent_symbol=TOpt(TStr), first_level=TBool).items():
        R.attr(a, t)
    for n, (a, r) in dict(has_attr=([TObj(), TObj()], TBool), getattr_=([TObj(), TObj()], TObj()), dict_has=([TObj(), TObj()], TBool), dict_val=([TObj(), TObj()], TObj()),
                          resolvable=([TObj(), TObj()], TBool), is_rule_for=([TObj(), TObj(), TStr, TObj(), TBool], TBool), fn_named=([TStr], TObj()),
                          mf_rule=([TObj(), TObj(), TStr, TObj(), TBool], TBool), module_of=([TObj()], TObj()), dotted_names=([TObj()], TObj()),
                          visit_rec=([TObj(), TObj(), TStr, TBool, TBool, TObj(), TObj(), TObj()], TObj())).items():
        R.uf(n, a, r)
    ufs = {k: v[0] for k, v in R.ufs.items()}
    R.set_identity_attr = "key"
    R.assume("traversal: the strategy loop resolve_symbol (HashRule.all_rules / try_resolve of the four rule classes, blacklist filter) answers None exactly when nothing "
             "describes the reference (resolvable), otherwise a rule for (parent symbol, symbol, reference, first_level) (is_rule_for) -- the loop and the blacklist filter are assumed; "
             "the three try_resolve strategies it consults are under contract separately (what each recognises and which rule it builds)")
    R.assume("traversal: list_dotted_names(fn) (AST visitor) is a function of the source function (dotted_names); FunctionReference.from_qualified_name(s).memento_fn is a "
             "function of s (fn_named); the constructors of MementoFunctionHashRule / UndefinedSymbolHashRule keep their arguments and build the key proved under C03")
    R.assume("traversal: iterating a set of names visits each element once in the set's own order (the contracts state which names are visited, in iteration order)")
    RULE = TObj("nn:HashRule")
    RS = TSet(RULE)
    rule_fields = dict(key=TStr, parent_symbol=TOpt(TStr), symbol=TStr, first_level=TBool, rule_hash=TObj())
    R.entity("HashRule", ("code_hash", "HashRule"), dict(rule_fields))
    R.entity("MementoFunctionHashRule", ("code_hash", "MementoFunctionHashRule"), dict(rule_fields, memento_fn=TObj(), resolver=TObj()))
    R.entity("NonMementoFunctionHashRule", ("code_hash", "NonMementoFunctionHashRule"), dict(rule_fields, src_fn=TObj(), resolver=TObj()))
    GH = {"collected": TList(TObj()), "visited": TSet(TObj()), "nvisits": TInt}

    # ---------------------------------------------------------------- the walk along a dotted name (specification functions)
    def walk_axioms(ex, gt, bl, parts):
        """REACH(k): the object the first k+1 components denote; PREFIX(k): their dotted text (both by recurrence); STOP: the first component at which the
        left-to-right walk ends -- the object reached is described by a rule, or its next attribute does not exist, or the name is used up.  STOP is
        the LEAST such index (definitional: the last component always qualifies, so a least one exists)."""
        p, n = parts.arr, parts.n
        S, I = z3.StringSort(), z3.IntSort()
        W = z3.Function("reach", ObjSort, p.sort(), I, ObjSort)
        P = z3.Function("prefix", p.sort(), I, S)
        T = z3.Function("walk_stop", ObjSort, ObjSort, p.sort(), I, I)
        bs = z3.Function("box_str", z3.StringSort(), ObjSort)
        key = ("walk", z3.simplify(gt).get_id(), z3.simplify(bl).get_id(), p.get_id())
        done = ex.st.ghost.setdefault("$walk_axioms", set())
        if key not in done and not ex.bound_ids and ex.collector is None:
            ex.st.ghost["$walk_axioms"] = set(done) | {key}
            stop = T(gt, bl, p, n)

            def ends(j):
                return z3.Or(ufs["resolvable"](W(gt, p, j), bl), j == n - 1, z3.Not(ufs["has_attr"](W(gt, p, j), bs(p[j + 1]))))
            ex.assume(W(gt, p, 0) == ufs["dict_val"](gt, bs(p[0])))
            ex.assume(P(p, 0) == p[0])
            ex.add_universal([TInt], lambda j: z3.Implies(j >= 0, W(gt, p, j + 1) == ufs["getattr_"](W(gt, p, j), bs(p[j + 1]))), "reach-step")
            ex.add_universal([TInt], lambda j: z3.Implies(j >= 0, P(p, j + 1) == z3.Concat(P(p, j), z3.StringVal("."), p[j + 1])), "prefix-step")
            ex.assume(z3.And(0 <= stop, stop < n, ends(stop)))
            ex.add_universal([TInt], lambda j: z3.Implies(z3.And(0 <= j, j < stop), z3.Not(ends(j))), "walk-stop-is-least")
            ex.touch(TInt, stop)
        return W, P, T

    def _walk_args(ex, n):
        return ex.box(ex.ev(n.args[0])), ex.box(ex.ev(n.args[1])), ex.cont(ex.ev(n.args[2]))

    def sp_reach(ex, n):
        gt, bl, parts = _walk_args(ex, n)
        k = ex.ev(n.args[3])
        ex.touch(TInt, k.t)
        return VObj(walk_axioms(ex, gt, bl, parts)[0](gt, parts.arr, k.t))

    def sp_prefix(ex, n):
        gt, bl, parts = _walk_args(ex, n)
        k = ex.ev(n.args[3])
        ex.touch(TInt, k.t)
        return VStr(walk_axioms(ex, gt, bl, parts)[1](parts.arr, k.t))

    def sp_walk_stop(ex, n):
        gt, bl, parts = _walk_args(ex, n)
        return VInt(walk_axioms(ex, gt, bl, parts)[2](gt, bl, parts.arr, parts.n))
    R.spec_builtins["reach"] = sp_reach
    R.spec_builtins["prefix"] = sp_prefix
    R.spec_builtins["walk_stop"] = sp_walk_stop

    # ---------------------------------------------------------------- callees
    def same_box(a, b):
        return isinstance(a, VCont) and isinstance(b, VCont) and a.loc == b.loc

    def collect(ex, recv, args, kwargs):
        """rule.collect_transitive_dependencies(result=, root_fn=, package_scope=, blacklist=): the traversal of the rule is started -- with THIS traversal's
        result set, root, package scope and blacklist (obligation) -- recorded in ghost 'collected'; it may add rules to the set and removes none."""
        top = ex.top_env if hasattr(ex, "top_env") else ex.st.env
        names = ["result", "root_fn", "package_scope", "blacklist"]
        vals = dict(zip(names, args)); vals.update(kwargs)
        conds = []
        for nme in names:
            mine, given = top.get(nme), vals.get(nme)
            if mine is None or given is None:
                conds.append(z3.BoolVal(False))
            elif isinstance(mine, VCont) or isinstance(given, VCont):
                conds.append(z3.BoolVal(same_box(mine, given)))
            else:
                conds.append(ex.box(mine) == ex.box(given))
        ex.oblige("the-rule's-traversal-continues-this-traversal", z3.And(*conds), kind="post",
                  info={"clause": "collect_transitive_dependencies(result=result, root_fn=root_fn, package_scope=package_scope, blacklist=blacklist)", "tags": ["C14", "C03", "C13"]})
        g = ex.st.ghost
        lst = ex.cont(g["collected"])
        g["collected"] = ex.new_box(lst.replace(arr=z3.Store(lst.arr, lst.n, ex.box(recv)), n=lst.n + 1))
        tgt = vals["result"]
        c = ex.cont(tgt)
        mem2 = ex.fresh("after_collect", c.mem.sort())
        cnt = ex.fresh("n_after_collect", z3.IntSort())
        ex.assume(cnt >= c.count)
        old = c.mem
        ex.add_universal([TObj()], lambda r: z3.Implies(old[r], mem2[r]), "collect-removes-nothing")
        ex.set_cont(tgt, c.replace(mem=mem2, count=cnt))
        return VNone
    R.obj_method_hooks["collect_transitive_dependencies"] = collect

    def mfh_ctor(ex, args, kwargs):
        """MementoFunctionHashRule(parent_symbol=, symbol=, resolver=, obj=, first_level=): a rule carrying these (its __init__ is proved under C03)."""
        names = ["parent_symbol", "symbol", "resolver", "obj", "first_level"]
        vals = dict(zip(names, args)); vals.update(kwargs)
        o = ex.fresh_obj("MementoFunctionHashRule")
        ex.assume(ufs["mf_rule"](o, ex.box(vals["parent_symbol"]), ex.to_term(vals["symbol"], TStr), ex.box(vals["obj"]), ex.to_term(vals["first_level"], TBool)))
        return VObj(o, "MementoFunctionHashRule")
    R.constructors["MementoFunctionHashRule"] = mfh_ctor

    def undef_ctor(ex, args, kwargs):
        """UndefinedSymbolHashRule(ref, parent_symbol=, symbol=, first_level=, ref_is_global_table=): a rule carrying these, with the key its __init__ builds
        (both proved under C03: contracts/codehash.py)."""
        names = ["ref", "parent_symbol", "symbol", "first_level", "ref_is_global_table"]
        vals = dict(zip(names, args)); vals.update(kwargs)
        o = ex.fresh_obj("UndefinedSymbolHashRule")
        ex.assume(ex.class_pred("UndefinedSymbolHashRule")(o))
        r = VObj(o, "UndefinedSymbolHashRule")
        for nme in names:
            ex.assume(ex.box(ex.get_attr(r, nme)) == ex.box(vals[nme]))
        ps = vals["parent_symbol"]
        pst = ex.to_str(ps)
        ex.assume(ex.to_term(ex.get_attr(r, "key"), TStr) == z3.Concat(z3.StringVal("UndefinedSymbol;"), pst, z3.StringVal(";"), ex.to_term(vals["symbol"], TStr)))
        return r
    R.constructors["UndefinedSymbolHashRule"] = undef_ctor

    def from_qname(ex, args, kwargs):
        o = ex.fresh_obj("FunctionReference")
        ex.assume(z3.Function("attr_memento_fn", ObjSort, ObjSort)(o) == ufs["fn_named"](ex.to_term(args[0], TStr)))
        return VObj(o, "FunctionReference")
    R.func_hooks["reference:FunctionReference.from_qualified_name"] = from_qname

    V = "code_hash:HashRule._visit_dependency"
    R.contract(V + ".<locals>.resolve_symbol", assumed=True, types={"parent_sym": TOpt(TStr), "sym": TStr, "resolver_fn": TObj(), "reference": TObj()}, returns=TObj(),
               ensures=["(result is None) == (not resolvable(reference, blacklist))",
                        "implies(result is not None, is_rule_for(result, parent_sym, sym, reference, first_level))"],
               labels={"free_vars": {"blacklist": TObj(), "first_level": TBool}},
               notes="assumed: the strategy loop over HashRule.all_rules (try_resolve of the four rule classes) and the blacklist filter")

    # ---------------------------------------------------------------- HashRule._visit_dependency
    R.spec("PARTS", [], "symbol.split('.')")
    R.spec("GT", [], "src_fn.__globals__")
    R.spec("REACH", ["k"], "reach(GT(), blacklist, PARTS(), k)")
    R.spec("PREFIX", ["k"], "prefix(GT(), blacklist, PARTS(), k)")
    R.spec("STOP", [], "walk_stop(GT(), blacklist, PARTS())")
    R.spec("RESULT_SAME", [], "forall(obj, lambda r: (r in result) == old(r in result))")
    R.spec("RESULT_KEEPS", [], "forall(obj, lambda r: implies(old(r in result), r in result))")
    R.spec("NONE_COLLECTED", [], "len(ghost('collected')) == old(len(ghost('collected')))")
    R.spec("ONE_COLLECTED", [], "len(ghost('collected')) == old(len(ghost('collected'))) + 1")
    R.spec("LAST", [], "ghost('collected')[old(len(ghost('collected')))]")
    # the undefined-symbol rule that watches (ref, name): it reports a change exactly when `name` appears in / on `ref`
    R.spec("WATCHES", ["r", "ref", "name", "is_table"],
           "isinstance(r, UndefinedSymbolHashRule) and same(r.ref, ref) and r.symbol == name and r.ref_is_global_table == is_table and r.parent_symbol == parent_symbol "
           "and r.first_level == first_level")
    R.spec("WATCHED", ["ref", "name", "is_table"], "exists(obj, lambda r: r in result and WATCHES(r, ref, name, is_table))")
    R.spec("PLAIN", [], "has_attr(src_fn, '__globals__') and ':' not in symbol")
    R.spec("FOUND0", [], "PLAIN() and dict_has(GT(), PARTS()[0])")
    # the walk ends at an object no rule describes, before the name is used up: its next attribute does not exist (yet)
    R.spec("MISSING", [], "FOUND0() and not resolvable(REACH(STOP()), blacklist) and STOP() + 1 < len(PARTS())")
    R.contract(V, prop="C14",
               types={"result": RS, "src_fn": TObj("nn:function"), "parent_symbol": TOpt(TStr), "symbol": TStr, "required": TBool, "root_fn": TObj(), "first_level": TBool,
                      "package_scope": TObj(), "blacklist": TObj("nn:list")},
               ghost_params=GH,
               requires=["implies(has_attr(src_fn, '__globals__'), src_fn.__globals__ is not None)"],
               ensures=[
                   "RESULT_KEEPS()",
                   # a function without a global scope cannot be looked into
                   "implies(not has_attr(src_fn, '__globals__'), RESULT_SAME() and NONE_COLLECTED())",
                   # a qualified memento-function name: the rule of that function, traversed
                   "implies(has_attr(src_fn, '__globals__') and ':' in symbol, ONE_COLLECTED() and mf_rule(LAST(), parent_symbol, symbol, fn_named(symbol), first_level))",
                   # the first component is not a global (optional dependency): watch the global table for it
                   "implies(PLAIN() and not dict_has(GT(), PARTS()[0]), NONE_COLLECTED() and WATCHED(GT(), PARTS()[0], True))",
                   # the first prefix that denotes something a rule describes: that rule, for that prefix (or for the whole name, which is a path through it)
                   "implies(FOUND0() and resolvable(REACH(STOP()), blacklist), ONE_COLLECTED() and (is_rule_for(LAST(), parent_symbol, PREFIX(STOP()), REACH(STOP()), first_level) "
                   "or is_rule_for(LAST(), parent_symbol, symbol, REACH(STOP()), first_level)))",
                   # an attribute that does not exist (yet): watch the object reached so far for exactly that attribute name
                   "implies(MISSING(), NONE_COLLECTED() and WATCHED(REACH(STOP()), PARTS()[STOP() + 1], False))",
                   # the whole name exists and nothing along it is described by a rule: nothing to record
                   "implies(FOUND0() and not resolvable(REACH(STOP()), blacklist) and STOP() + 1 == len(PARTS()), RESULT_SAME() and NONE_COLLECTED())",
                   # the record of being called: one more visit, of exactly this (function, namespace, name, required, direct, traversal)
                   "[effect] ghost('nvisits') == old(ghost('nvisits')) + 1",
                   "[effect] forall(obj, lambda x: (x in ghost('visited')) == (old(x in ghost('visited')) or same(x, visit_rec(src_fn, parent_symbol, symbol, required, first_level, root_fn, package_scope, blacklist))))",
               ],
               raises={"DependencyNotFoundError": [
                   "required and PLAIN()",
                   "not dict_has(GT(), PARTS()[0]) or not resolvable(REACH(STOP()), blacklist)",
                   "RESULT_SAME() and NONE_COLLECTED()"]},
               when_raises={"DependencyNotFoundError": "required and PLAIN() and (not dict_has(GT(), PARTS()[0]) or not resolvable(REACH(STOP()), blacklist))"},
               loops={1: ["same(ref, REACH(loop_i))", "symbol_part == PREFIX(loop_i)", "not resolvable(REACH(loop_i), blacklist)", "RESULT_SAME()", "NONE_COLLECTED()",
                          "forall(int, lambda j: implies(0 <= j and j < loop_i, not resolvable(REACH(j), blacklist) and has_attr(REACH(j), PARTS()[j + 1])))",
                          "dict_has(GT(), PARTS()[0])", "same(global_table, GT())"]},
               labels={"local_types": {"parts": TList(TStr)}},
               modifies=["result", "ghost:collected", "ghost:visited", "ghost:nvisits"])

    # ---------------------------------------------------------------- the two traversals that descend
    # From the property (C14: "the transitive memento dependencies ... are exactly the memento functions reachable in that reference graph ... through plain
    # helper functions of the same package, with cycles"): a rule that is already in the result set is not traversed again (cycles end); otherwise the
    # rule is recorded and EVERY name its function refers to -- declared (required) and detected -- is visited (as many visits as there are names), from the function's own
    # globals, with the function's own name as namespace; dependencies of the root are the direct ones; a plain function outside the package scope is
    # neither recorded nor looked into.
    R.external("inspect.getmodule", returns=TObj("nn:module"), ensures=["same(result, module_of(arg0))"])
    R.contract("code_hash:list_dotted_names", assumed=True, types={"fn": TObj()}, returns=TObj("nn:set"), ensures=["same(result, dotted_names(fn))"],
               notes="assumed: the AST visitor (source text -> set of dotted names) is outside the verifier's subset; it is a function of the source function")
    R.spec("NV0", [], "old(ghost('nvisits'))")
    R.spec("VISITS_SAME", [], "ghost('nvisits') == NV0() and forall(obj, lambda x: (x in ghost('visited')) == old(x in ghost('visited')))")
    R.spec("VISITS_KEPT", [], "forall(obj, lambda x: implies(old(x in ghost('visited')), x in ghost('visited')))")
    R.spec("MFN", [], "self.memento_fn")
    R.spec("MREC", ["name", "req"], "visit_rec(MFN().src_fn, MFN().qualified_name_without_version, name, req, MFN() is root_fn, root_fn, package_scope, blacklist)")
    CT_TYPES = {"result": RS, "root_fn": TObj(), "package_scope": TObj("nn:set"), "blacklist": TObj("nn:list")}
    R.contract("code_hash:MementoFunctionHashRule.collect_transitive_dependencies", prop="C14",
               types=dict(CT_TYPES, self=TEnt("MementoFunctionHashRule")), ghost_params=GH,
               requires=["self.memento_fn is not None", "self.memento_fn.required_dependencies is not None and self.memento_fn.detected_dependencies is not None",
                         "implies(has_attr(self.memento_fn.src_fn, '__globals__'), self.memento_fn.src_fn.__globals__ is not None)", "self.memento_fn.src_fn is not None",
                         # MementoFunction.__init__ asserts it: dependency names are strings
                         "forall(int, lambda j: implies(0 <= j and j < len(self.memento_fn.required_dependencies), isinstance(self.memento_fn.required_dependencies[j], str)))",
                         "forall(int, lambda j: implies(0 <= j and j < len(self.memento_fn.detected_dependencies), isinstance(self.memento_fn.detected_dependencies[j], str)))"],
               ensures=["RESULT_KEEPS()",
                        "implies(old(self in result), RESULT_SAME() and VISITS_SAME())",
                        "implies(not old(self in result), self in result)",
                        # every declared and every detected name is visited (as many visits as names), with the function's own globals / name, required resp. optional
                        "implies(not old(self in result), ghost('nvisits') == NV0() + len(MFN().required_dependencies) + len(MFN().detected_dependencies))",
                        "implies(not old(self in result), forall(int, lambda j: implies(0 <= j and j < len(MFN().required_dependencies), MREC(MFN().required_dependencies[j], True) in ghost('visited'))))",
                        "implies(not old(self in result), forall(int, lambda j: implies(0 <= j and j < len(MFN().detected_dependencies), MREC(MFN().detected_dependencies[j], False) in ghost('visited'))))",
                        "VISITS_KEPT()"],
               raises={"DependencyNotFoundError": []},
               loops={1: ["ghost('nvisits') == NV0() + loop_i", "self in result", "RESULT_KEEPS()", "same(memento_fn, self.memento_fn)", "VISITS_KEPT()",
                          "forall(int, lambda j: implies(0 <= j and j < loop_i, MREC(MFN().required_dependencies[j], True) in ghost('visited')))"],
                      2: ["ghost('nvisits') == NV0() + len(MFN().required_dependencies) + loop_i", "self in result", "RESULT_KEEPS()", "same(memento_fn, self.memento_fn)", "VISITS_KEPT()",
                          "forall(int, lambda j: implies(0 <= j and j < len(MFN().required_dependencies), MREC(MFN().required_dependencies[j], True) in ghost('visited')))",
                          "forall(int, lambda j: implies(0 <= j and j < loop_i, MREC(MFN().detected_dependencies[j], False) in ghost('visited')))"]},
               labels={"prebox_entities": True},
               modifies=["result", "ghost:collected", "ghost:visited", "ghost:nvisits"])
    R.spec("SFN", [], "self.src_fn")
    R.spec("IN_SCOPE", [], "module_of(SFN()).__package__ in package_scope")
    R.spec("SREC", ["name"], "visit_rec(SFN(), SFN().__module__ + ':' + SFN().__qualname__, name, False, False, root_fn, package_scope, blacklist)")
    R.contract("code_hash:NonMementoFunctionHashRule.collect_transitive_dependencies", prop="C14",
               types=dict(CT_TYPES, self=TEnt("NonMementoFunctionHashRule")), ghost_params=GH,
               requires=["self.src_fn is not None", "implies(has_attr(self.src_fn, '__globals__'), self.src_fn.__globals__ is not None)", "dotted_names(self.src_fn) is not None",
                         "package_scope is not None", "forall(int, lambda j: implies(0 <= j and j < len(dotted_names(self.src_fn)), isinstance(dotted_names(self.src_fn)[j], str)))"],
               ensures=["RESULT_KEEPS()",
                        "implies(old(self in result) or not IN_SCOPE(), RESULT_SAME() and VISITS_SAME())",
                        "implies(not old(self in result) and IN_SCOPE(), self in result)",
                        "implies(not old(self in result) and IN_SCOPE(), ghost('nvisits') == NV0() + len(dotted_names(SFN())))",
                        "implies(not old(self in result) and IN_SCOPE(), forall(int, lambda j: implies(0 <= j and j < len(dotted_names(SFN())), SREC(dotted_names(SFN())[j]) in ghost('visited'))))",
                        "VISITS_KEPT()"],
               raises={"DependencyNotFoundError": []},
               loops={1: ["ghost('nvisits') == NV0() + loop_i", "self in result", "RESULT_KEEPS()", "same(src_fn, self.src_fn)", "VISITS_KEPT()",
                          "forall(int, lambda j: implies(0 <= j and j < loop_i, SREC(dotted_names(SFN())[j]) in ghost('visited')))"]},
               labels={"prebox_entities": True},
               modifies=["result", "ghost:collected", "ghost:visited", "ghost:nvisits"])

    # ---------------------------------------------------------------- the three strategies behind resolve_symbol (try_resolve)
    # From the property (C14: reference forms "bare name, module.attr, alias, decorator-wrapped"): a reference denotes a memento function when the object or
    # anything along its chain of functools.wraps layers IS one -- the rule is for the first such function; a callable that has a global scope is a plain
    # function; anything whose value can be serialised is a tracked variable (the rule records that serialisation); everything else has no rule.
    R.uf("unwrapped_mf", [TObj()], TObj())
    R.uf("callable_obj", [TObj()], TBool)
    R.uf("serialize", [TObj()], TObj())
    R.uf("fn_rule", [TObj(), TObj(), TStr, TObj(), TBool], TBool)
    R.uf("var_rule", [TObj(), TObj(), TStr, TObj(), TObj(), TBool], TBool)
    R.attr("__wrapped__", TObj())
    R.external("callable", returns=TBool, ensures=["result == callable_obj(arg0)"])

    def unwrap_axioms(ex):
        """unwrapped_mf(x): the first memento function along the __wrapped__ chain starting at x, or None when the chain ends without one (definition by cases)."""
        u, has = R.ufs["unwrapped_mf"][0], R.ufs["has_attr"][0]
        w = z3.Function("attr___wrapped__", ObjSort, ObjSort)
        key = ex.box(VStr("__wrapped__"))
        ismf = ex.class_pred("MementoFunctionType")
        ex.add_universal([TObj()], lambda x: z3.If(ismf(x), u(x) == x, z3.If(has(x, key), u(x) == u(w(x)), u(x) == PyNone)), "unwrapped-memento-function")
        ex.add_universal([TObj()], lambda x: z3.Implies(ismf(x), x != PyNone), "memento-functions-are-objects")
        ex.assume(z3.And(z3.Not(has(PyNone, key)), z3.Not(ismf(PyNone)), u(PyNone) == PyNone))
    R.path_init.append(unwrap_axioms)

    def sp_umf(ex, n):
        """umf(x) = unwrapped_mf(x), and x becomes an instantiation point of the defining axiom."""
        x = ex.box(ex.ev(n.args[0]))
        if not ex.bound_ids:
            ex.touch(TObj(), x)
        return VObj(R.ufs["unwrapped_mf"][0](x))
    R.spec_builtins["umf"] = sp_umf
    R.touch_attrs = set(getattr(R, "touch_attrs", set())) | {"__wrapped__"}

    def nmf_ctor(ex, args, kwargs):
        names = ["parent_symbol", "symbol", "resolver", "obj", "first_level"]
        vals = dict(zip(names, args)); vals.update(kwargs)
        o = ex.fresh_obj("NonMementoFunctionHashRule")
        ex.assume(R.ufs["fn_rule"][0](o, ex.box(vals["parent_symbol"]), ex.to_term(vals["symbol"], TStr), ex.box(vals["obj"]), ex.to_term(vals["first_level"], TBool)))
        return VObj(o, "NonMementoFunctionHashRule")

    def gv_ctor(ex, args, kwargs):
        names = ["parent_symbol", "symbol", "resolver", "ref", "last_value", "first_level"]
        vals = dict(zip(names, args)); vals.update(kwargs)
        o = ex.fresh_obj("GlobalVariableHashRule")
        ex.assume(R.ufs["var_rule"][0](o, ex.box(vals["parent_symbol"]), ex.to_term(vals["symbol"], TStr), ex.box(vals["ref"]), ex.box(vals["last_value"]), ex.to_term(vals["first_level"], TBool)))
        return VObj(o, "GlobalVariableHashRule")
    R.constructors["NonMementoFunctionHashRule"] = nmf_ctor
    R.constructors["GlobalVariableHashRule"] = gv_ctor
    R.contract("code_hash:GlobalVariableHashRule._serialize_value", assumed=True, types={"var": TObj()}, returns=TObj(), ensures=["same(result, serialize(var))"],
               notes="the JSON bytes of the value, or None for a value Memento cannot hash")
    TR_TYPES = {"parent_symbol": TOpt(TStr), "symbol": TStr, "resolver": TObj(), "ref": TObj(), "first_level": TBool}
    R.contract("code_hash:MementoFunctionHashRule.try_resolve", prop="C14", types=TR_TYPES, returns=TObj(),
               requires=["forall(obj, lambda x: implies(has_attr(x, '__wrapped__'), x.__wrapped__ is not None))"],
               ensures=["(result is None) == (umf(ref0) is None)",
                        "implies(result is not None, mf_rule(result, parent_symbol, symbol, umf(ref0), first_level))"],
               loops={1: ["same(umf(ref), umf(ref0))"]},
               labels={"entry_snapshot": {"ref0": "ref"}})
    R.contract("code_hash:NonMementoFunctionHashRule.try_resolve", prop="C14", types=TR_TYPES, returns=TObj(),
               ensures=["(result is None) == (not (callable_obj(ref) and has_attr(ref, '__globals__')))",
                        "implies(result is not None, fn_rule(result, parent_symbol, symbol, ref, first_level))"])
    R.contract("code_hash:GlobalVariableHashRule.try_resolve", prop="C14", types=TR_TYPES, returns=TObj(),
               ensures=["(result is None) == (serialize(ref) is None)",
                        "implies(result is not None, var_rule(result, parent_symbol, symbol, ref, serialize(ref), first_level))"])
