"""Contract for ResultType.from_object (property C02: "the recorded result type always matches the value"): the classification of a result.

Specification, from the documented table of result kinds and Python's own class hierarchy (NOT from the order of the tests in the code): every
supported value has exactly one kind; where Python makes one class a subclass of another the more specific kind wins -- a bool is a boolean although
it is an int, a datetime (and a pandas Timestamp) is a timestamp although it is a date; a memoized exception is an exception whatever else it is;
complex numbers, arrays of other element types and every other class are refused with ValueError after nothing has been recorded.

Assumed (entry axioms): the subclass facts bool < int, datetime < date; the remaining listed classes are pairwise disjoint on the values considered
(a value of a user class that inherits from two of them is outside the contract).
"""
import z3

from pyvc.ty import *  # noqa
from pyvc.engine import PyRaise, Unsupported

KINDS = ["exception", "null", "boolean", "string", "binary", "number", "date", "timestamp", "list_result", "dictionary",
         "array_boolean", "array_int8", "array_int16", "array_int32", "array_int64", "array_float32", "array_float64",
         "index", "series", "data_frame", "partition", "memento_function"]
ARRAYS = ["bool", "int8", "int16", "int32", "int64", "float32", "float64"]


def load(R):
    R.enum("ResultType", KINDS)
    R.attr("dtype", TObj())
    R.uf("py_eq", [TObj(), TObj()], TBool)
    CLS = ["MementoException", "bool", "str", "bytes", "int", "float", "complex", "datetime", "date", "list", "dict", "Index", "Series", "DataFrame", "ndarray", "Partition"]
    R.spec("IS", ["o", "c"], "isinstance(o, c)")
    # the class hierarchy (assumed): subclass facts and disjointness of the rest
    sub = {("bool", "int"), ("datetime", "date")}
    names = {"datetime": "datetime.datetime", "date": "datetime.date", "Index": "pd.Index", "Series": "pd.Series", "DataFrame": "pd.DataFrame", "ndarray": "np.ndarray"}
    ax = ["implies(isinstance(obj, bool), isinstance(obj, int))", "implies(isinstance(obj, datetime.datetime), isinstance(obj, datetime.date))"]
    for i, a in enumerate(CLS):
        for b in CLS[i + 1:]:
            if (a, b) in sub or (b, a) in sub:
                continue
            ax.append("not (isinstance(obj, %s) and isinstance(obj, %s))" % (names.get(a, a), names.get(b, b)))
    ax.append("implies(obj is None, not (%s))" % " or ".join("isinstance(obj, %s)" % names.get(c, c) for c in CLS))
    DT = lambda t: "py_eq(obj.dtype, '%s')" % t
    arr = ["implies(isinstance(obj, np.ndarray) and %s, same(result, ResultType.array_%s))" % (DT(t), "boolean" if t == "bool" else t) for t in ARRAYS]
    R.contract("metadata:ResultType.from_object", prop="C02", types={"obj": TObj()}, returns=TObj("enum:ResultType"),
               requires=ax + ["implies(isinstance(obj, np.ndarray), obj.dtype is not None)"]
               # an element type has one name
               + ["not (%s and %s)" % (DT(a), DT(b)) for i, a in enumerate(ARRAYS) for b in ARRAYS[i + 1:]],
               ensures=["implies(isinstance(obj, MementoException), same(result, ResultType.exception))",
                        "implies(obj is None, same(result, ResultType.null))",
                        "implies(isinstance(obj, bool), same(result, ResultType.boolean))",
                        "implies(isinstance(obj, str), same(result, ResultType.string))",
                        "implies(isinstance(obj, bytes), same(result, ResultType.binary))",
                        "implies((isinstance(obj, int) and not isinstance(obj, bool)) or isinstance(obj, float), same(result, ResultType.number))",
                        "implies(isinstance(obj, datetime.datetime), same(result, ResultType.timestamp))",
                        "implies(isinstance(obj, datetime.date) and not isinstance(obj, datetime.datetime), same(result, ResultType.date))",
                        "implies(isinstance(obj, list), same(result, ResultType.list_result))",
                        "implies(isinstance(obj, dict), same(result, ResultType.dictionary))",
                        "implies(isinstance(obj, pd.Index), same(result, ResultType.index))",
                        "implies(isinstance(obj, pd.Series), same(result, ResultType.series))",
                        "implies(isinstance(obj, pd.DataFrame), same(result, ResultType.data_frame))",
                        "implies(isinstance(obj, Partition), same(result, ResultType.partition))"] + arr,
               raises={"ValueError": ["isinstance(obj, complex) or (isinstance(obj, np.ndarray) and not (%s)) or (obj is not None and not (%s))"
                                      % (" or ".join(DT(t) for t in ARRAYS), " or ".join("isinstance(obj, %s)" % names.get(c, c) for c in CLS))]},
               when_raises={"ValueError": "isinstance(obj, complex) or (isinstance(obj, np.ndarray) and not (%s)) or (obj is not None and not (%s))"
                                          % (" or ".join(DT(t) for t in ARRAYS), " or ".join("isinstance(obj, %s)" % names.get(c, c) for c in CLS))})
    R.assume("ResultType.from_object: bool < int and datetime < date are the only subclass relations among the listed classes; a value that is an instance of two "
             "otherwise unrelated listed classes (multiple inheritance in user code) is outside the contract; ndarray.dtype == '<name>' is a function of the dtype (py_eq)")
