"""Contracts for declarative configuration (property C18).

Configuration objects are heterogeneous dicts: keys are strings, values arbitrary objects (dyn layer: Obj-valued dicts,
boxed primitives).  For every documented option the *effective* value is written once as a specification function of
(configuration object, explicit argument) taken from the property statement:

    effective(o) = the explicit argument when given, else the configuration's value, else the default

and every constructor is proved to put exactly that value into the state that governs behaviour (the data source's base
path, the metadata source's data source, the existence and budget of the memory cache, the read-only flag), and every
to_dict is proved to produce a dictionary whose effective options (with no explicit arguments) equal the current ones.
"""
import z3

from pyvc.ty import *  # noqa
from pyvc.engine import PyRaise, Unsupported
from . import memory_cache


def load(R):
    memory_cache.load(R)
    CFG = TDict(TStr, TObj())
    R.entity("_FilesystemDataSource", ("storage_filesystem", "_FilesystemDataSource"), dict(base_path=TObj()))
    R.entity("DataSourceMetadataSource", ("storage_base", "DataSourceMetadataSource"), dict(data_source=TEnt("_FilesystemDataSource")))
    backend_fields = dict(storage_type=TStr, config=CFG, read_only=TObj())
    base_fields = dict(backend_fields, _data_source=TEnt("_FilesystemDataSource"), _metadata_source=TEnt("DataSourceMetadataSource"),
                       _memory_cache=TOpt(TEnt("MemoryCache")), codec=TObj())
    R.entity("StorageBackend", ("storage", "StorageBackend"), dict(backend_fields))
    R.entity("StorageBackendBase", ("storage_base", "StorageBackendBase"), dict(base_fields))
    R.entity("FilesystemStorageBackend", ("storage_filesystem", "FilesystemStorageBackend"), dict(base_fields, config_path=TObj(), metadata_config_path=TObj()))
    R.entity("MemoryStorageBackend", ("storage_memory", "MemoryStorageBackend"),
             dict(backend_fields, metadata=TDict(TStr, TObj()), result=TDict(TStr, TObj()), mementos=TDict(TStr, TObj())))
    R.entity("NullStorageBackend", ("storage_null", "NullStorageBackend"), dict(backend_fields))

    for n, (a, r) in dict(num_of=([TObj()], TReal), path_norm=([TStr], TStr), path_expand=([TStr], TStr), path_join=([TStr, TStr], TStr),
                          py_str=([TObj()], TStr), codec_of=([TObj(), TObj()], TObj())).items():
        R.uf(n, a, r)
    ufs = {k: v[0] for k, v in R.ufs.items()}

    # ---- pathlib model (assumed): a Path object is characterised by its string; the operations are functions of the strings
    def path_obj(ex, s):
        o = ex.fresh_obj("Path")
        ex.assume(z3.And(ex.class_pred("Path")(o), ufs["py_str"](o) == s))
        return VObj(o, "Path")

    def as_str(ex, v):
        return v.t if isinstance(v, VStr) else ex.to_term(v, TStr)
    R.constructors["pathlib.Path"] = lambda ex, args, kwargs: path_obj(ex, ufs["path_norm"](as_str(ex, args[0])))
    R.obj_method_hooks["expanduser"] = lambda ex, recv, args, kwargs: path_obj(ex, ufs["path_expand"](ufs["py_str"](recv.t)))

    def joinpath(ex, recv, args, kwargs):
        s = ufs["py_str"](recv.t)
        for a in args:
            s = ufs["path_join"](s, as_str(ex, a))
        return path_obj(ex, s)
    R.obj_method_hooks["joinpath"] = joinpath
    R.assume("pathlib: Path(s), expanduser() and joinpath() are functions of the path strings (uninterpreted); str(Path) is that string")

    R.contract("storage_base:Codec.create", assumed=True, types={"codec_type": TObj(), "config": TObj()}, returns=TObj("nn:Codec"),
               ensures=["same(result, codec_of(codec_type, config))"], notes="codec selection is outside C18's option list")
    R.func_hooks["storage_base:DataSource.__init__"] = lambda ex, args, kwargs: VNone
    R.func_hooks["storage_base:MetadataSource.__init__"] = lambda ex, args, kwargs: VNone

    # ---- the effective options (from the property statement)
    R.spec("CFGV", ["config", "k"], "config[k] if (config is not None and k in config) else None")
    R.spec("DEFAULT_FS_PATH", [], "path_join(path_join(path_expand(path_norm('~')), '.memento'), 'data')")
    R.spec("EFF_PATH", ["config", "path"], "path if path is not None else (CFGV(config, 'path') if CFGV(config, 'path') is not None else DEFAULT_FS_PATH())")
    R.spec("EFF_META", ["config", "path", "metadata_path"], "metadata_path if metadata_path is not None else (CFGV(config, 'metadata_path') if CFGV(config, 'metadata_path') is not None else EFF_PATH(config, path))")
    R.spec("EFF_MB", ["config", "mb"], "mb if mb is not None else CFGV(config, 'memory_cache_mb')")
    R.spec("EFF_RO", ["config", "ro"], "ro if ro is not None else (config['readonly'] if (config is not None and 'readonly' in config) else False)")
    R.spec("IS_NUM", ["x"], "isinstance(x, int) or isinstance(x, float)")
    R.spec("MB_OK", ["x"], "x is None or (IS_NUM(x) and num_of(x) >= 0)")
    R.spec("STR_OR_NONE", ["x"], "x is None or isinstance(x, str)")
    R.spec("CFG_TYPED", ["config"], "implies(config is not None, MB_OK(CFGV(config, 'memory_cache_mb')) and STR_OR_NONE(CFGV(config, 'path')) and STR_OR_NONE(CFGV(config, 'metadata_path')))")
    # behaviour-relevant state of a filesystem backend equals the effective options
    R.spec("FS_STATE", ["b", "p", "mp", "mb", "ro"],
           "b.config_path == p and b.metadata_config_path == mp and py_str(b._data_source.base_path) == path_norm(p) "
           "and py_str(b._metadata_source.data_source.base_path) == path_norm(mp) "
           "and (b._metadata_source.data_source is b._data_source) == (mp == p) "
           "and (b._memory_cache is not None) == truthy(mb) "
           "and implies(b._memory_cache is not None, b._memory_cache.memory_cache_bytes == num_of(mb) * 1024 * 1024 and b._memory_cache.memory_usage == 0 and len(b._memory_cache.cache) == 0) "
           "and b.read_only == ro")

    FSB = TEnt("FilesystemStorageBackend")
    OPTCFG = TOpt(CFG)
    F = "storage_filesystem:FilesystemStorageBackend."
    INL = ["storage_base:StorageBackendBase.__init__", "storage:StorageBackend.__init__", "storage_base:MemoryCache.__init__",
           "storage_filesystem:_FilesystemDataSource.__init__", "storage_base:DataSourceMetadataSource.__init__"]
    R.contract(F + "__init__", prop="C18", inline_callees=INL,
               types={"self": FSB, "config": OPTCFG, "path": TOpt(TStr), "metadata_path": TOpt(TStr), "memory_cache_mb": TObj(), "read_only": TOpt(TBool)},
               requires=["CFG_TYPED(config)", "MB_OK(memory_cache_mb)"],
               ensures=["FS_STATE(self, EFF_PATH(config, path), EFF_META(config, path, metadata_path), EFF_MB(config, memory_cache_mb), EFF_RO(config, read_only))",
                        "self.storage_type == 'filesystem'"],
               modifies=["self.*"])
    # a backend created from its configuration alone (StorageBackend.create(type, config) passes nothing else): the omitted arguments take the
    # defaults written in the signature, and the configuration decides every option
    R.contract(F + "__init__@config-only", prop="C18", inline_callees=INL,
               types={"self": FSB, "config": OPTCFG},
               requires=["CFG_TYPED(config)"],
               ensures=["FS_STATE(self, EFF_PATH(config, None), EFF_META(config, None, None), EFF_MB(config, None), EFF_RO(config, None))"],
               labels={"use_defaults": ["path", "metadata_path", "memory_cache_mb", "read_only"]}, modifies=["self.*"])
    R.contract(F + "to_dict", prop="C18", types={"self": FSB}, returns=CFG,
               requires=["isinstance(self.config_path, str)", "isinstance(self.metadata_config_path, str)",
                         "implies(self._memory_cache is not None, self._memory_cache.memory_cache_bytes > 0)"],
               ensures=["result['type'] == 'filesystem' and 'type' in result",
                        # reconstructing from the dump (no explicit arguments) gives the same effective options
                        "EFF_PATH(result, None) == self.config_path",
                        "EFF_META(result, None, None) == self.metadata_config_path",
                        "truthy(EFF_MB(result, None)) == (self._memory_cache is not None)",
                        "implies(self._memory_cache is not None, IS_NUM(EFF_MB(result, None)) and num_of(EFF_MB(result, None)) * 1024 * 1024 == self._memory_cache.memory_cache_bytes)",
                        "implies(self.read_only is not None, EFF_RO(result, None) == self.read_only)",
                        # the codec is an option of the storage configuration too (StorageBackendBase.__init__ reads 'codec' / 'codecConfig'): a cluster rebuilt from
                        # the dump must read what this one wrote
                        "same(CFGV(result, 'codec'), CFGV(self.config, 'codec')) and same(CFGV(result, 'codecConfig'), CFGV(self.config, 'codecConfig'))",
                        "CFG_TYPED(result)"],
               labels={"dict_literals_dynamic": True})

    SBB = TEnt("StorageBackendBase")
    R.contract("storage_base:StorageBackendBase.__init__", prop="C18", inline_callees=["storage:StorageBackend.__init__", "storage_base:MemoryCache.__init__"],
               types={"self": SBB, "storage_type": TStr, "data_source": TEnt("_FilesystemDataSource"), "metadata_source": TEnt("DataSourceMetadataSource"),
                      "memory_cache_mb": TObj(), "config": CFG, "read_only": TOpt(TBool)},
               requires=["MB_OK(memory_cache_mb)"],
               ensures=["self._data_source is data_source", "self._metadata_source is metadata_source", "self.storage_type == storage_type",
                        "(self._memory_cache is not None) == truthy(memory_cache_mb)",
                        "implies(self._memory_cache is not None, self._memory_cache.memory_cache_bytes == num_of(memory_cache_mb) * 1024 * 1024)",
                        "self.read_only == EFF_RO(config, read_only)"],
               modifies=["self.*"])

    SB = TEnt("StorageBackend")
    R.contract("storage:StorageBackend.__init__", prop="C18", types={"self": SB, "storage_type": TStr, "config": OPTCFG, "read_only": TOpt(TBool)},
               ensures=["self.read_only == EFF_RO(config, read_only)", "self.storage_type == storage_type"],
               modifies=["self.*"])

    MSB = TEnt("MemoryStorageBackend")
    R.contract("storage_memory:MemoryStorageBackend.__init__@config-only", prop="C18", inline_callees=["storage:StorageBackend.__init__"],
               types={"self": MSB, "config": OPTCFG}, ensures=["self.read_only == EFF_RO(config, None)"], labels={"use_defaults": ["read_only"]}, modifies=["self.*"])
    R.contract("storage_memory:MemoryStorageBackend.__init__", prop="C18", inline_callees=["storage:StorageBackend.__init__"],
               types={"self": MSB, "config": OPTCFG, "read_only": TOpt(TBool)},
               ensures=["self.read_only == EFF_RO(config, read_only)", "self.storage_type == 'memory'", "len(self.mementos) == 0", "len(self.result) == 0", "len(self.metadata) == 0"],
               modifies=["self.*"])
    for mod, cls, typ in (("storage_memory", "MemoryStorageBackend", "memory"), ("storage_null", "NullStorageBackend", "null")):
        R.contract("%s:%s.to_dict" % (mod, cls), prop="C18", types={"self": TEnt(cls)}, returns=CFG,
                   ensures=["result['type'] == '%s' and 'type' in result" % typ, "implies(self.read_only is not None, EFF_RO(result, None) == self.read_only)"],
                   labels={"dict_literals_dynamic": True})

    # ================================================================== configuration.py: clusters, repositories, environments
    for n_, (a, r) in dict(dump_of=([TObj()], TObj()), storage_created=([TObj(), TObj()], TObj()), runner_created=([TObj(), TObj()], TObj()),
                           instantiate=([TObj(), TObj()], TObj())).items():
        R.uf(n_, a, r)
    ufs.update({k: v[0] for k, v in R.ufs.items()})
    R.attr("clusters", TObj())
    R.attr("name", TObj())
    # x.to_dict() of an opaque cluster / repository / backend: a function of the object (its own to_dict is proved separately)
    R.obj_method_hooks["to_dict"] = lambda ex, recv, args, kwargs: VObj(ufs["dump_of"](recv.t))
    R.consts["configuration:_DEFAULT_STORAGE_CONFIG"] = lambda ex: VObj(z3.Const("DEFAULT_STORAGE_CONFIG", ObjSort))
    R.consts["configuration:_DEFAULT_RUNNER_CONFIG"] = lambda ex: VObj(z3.Const("DEFAULT_RUNNER_CONFIG", ObjSort))
    R.uf("DEFAULT_STORAGE_CONFIG_", [], TObj())

    def registry(name):
        def get(ex):
            if name not in ex.singletons:
                ex.singletons[name] = ex.sym(TDict(TStr, TObj()), name, record_input=True)
                ex.st.ghost[name] = ex.singletons[name]
            return ex.singletons[name]
        return get
    R.consts["storage:_registered_storage_backends"] = registry("storage_registry")
    R.consts["runner:_registered_runner_backends"] = registry("runner_registry")

    def path_init(ex):
        registry("storage_registry")(ex)
        registry("runner_registry")(ex)
    R.path_init.append(path_init)

    def opaque_call(ex, fv, args, kwargs):
        """Instantiating a registered backend class: a function of (class, configuration); may raise."""
        if ex.choose([z3.BoolVal(True), z3.BoolVal(True)]) == 1:
            raise PyRaise(VExc("Exception", [], exact=False))
        r = ufs["instantiate"](fv.t, ex.box(args[0]) if args else PyNone)
        ex.assume(r != PyNone)
        ex.st.ghost["instantiated_with"] = VInt(len(args) + len(kwargs))
        return VObj(r)
    R.opaque_call_hook = opaque_call

    for kind, mod, cls, reg in (("storage", "storage", "StorageBackend", "storage_registry"), ("runner", "runner", "RunnerBackend", "runner_registry")):
        R.contract("%s:%s.create" % (mod, cls), prop="C18", types={("%s_type" % kind): TStr, "config": TObj()}, returns=TObj(),
                   ensures=["%s_type in ghost('%s')" % (kind, reg), "same(result, instantiate(ghost('%s')[%s_type], config))" % (reg, kind)],
                   raises={"ValueError": ["%s_type not in ghost('%s')" % (kind, reg)], "Exception+": ["%s_type in ghost('%s')" % (kind, reg)]})

    FC = TEnt("FunctionCluster")
    R.entity("FunctionCluster", ("configuration", "FunctionCluster"), dict(locked=TBool, config=CFG, name=TObj(), description=TObj(), maintainer=TObj(),
                                                                             documentation=TObj(), storage=TObj(), runner=TObj()))
    # at this level create() is used through its summary: the created backend is a function of (type, configuration object)
    R.func_hooks["storage:StorageBackend.create"] = lambda ex, args, kwargs: created(ex, "storage_created", args)
    R.func_hooks["runner:RunnerBackend.create"] = lambda ex, args, kwargs: created(ex, "runner_created", args)

    def created(ex, uf, args):
        if ex.choose([z3.BoolVal(True), z3.BoolVal(True)]) == 1:
            raise PyRaise(VExc("ValueError", []))
        r = ufs[uf](ex.box(args[-2]), ex.box(args[-1]))
        ex.assume(r != PyNone)
        return VObj(r)

    R.spec("OVERRIDE", ["arg", "config", "k"], "arg if arg is not None else CFGV(config, k)")
    R.contract("configuration:FunctionCluster.__init__", prop="C18",
               types={"self": FC, "config": OPTCFG, "name": TOpt(TStr), "description": TOpt(TStr), "maintainer": TOpt(TStr), "documentation": TOpt(TStr),
                      "storage": TObj(), "runner": TObj()},
               ensures=["self.name == OVERRIDE(name, config, 'name') and self.name is not None",
                        "self.description == OVERRIDE(description, config, 'description')",
                        "self.maintainer == OVERRIDE(maintainer, config, 'maintainer')",
                        "self.documentation == OVERRIDE(documentation, config, 'documentation')",
                        "self.locked == False",
                        # explicit storage / runner objects override the configuration; otherwise the registry is asked with exactly the configured type and sub-configuration
                        "implies(storage is not None, same(self.storage, storage))",
                        "implies(storage is None and CFGV(config, 'storage') is None and not (config is not None and 'storage' in config), same(self.storage, storage_created('filesystem', DEFAULT_STORAGE_CONFIG_())))",
                        "implies(storage is None and config is not None and 'storage' in config, 'type' in config['storage'] and same(self.storage, storage_created(config['storage']['type'], config['storage'])))",
                        "implies(runner is not None, same(self.runner, runner))",
                        "implies(runner is None and not (config is not None and 'runner' in config), same(self.runner, runner_created('local', DEFAULT_RUNNER_CONFIG_())))",
                        "implies(runner is None and config is not None and 'runner' in config, 'type' in config['runner'] and same(self.runner, runner_created(config['runner']['type'], config['runner'])))"],
               raises={"ValueError": []}, modifies=["self.*"])
    R.uf("DEFAULT_RUNNER_CONFIG_", [], TObj())

    def cfg_consts(ex):
        ex.assume(z3.And(R.ufs["DEFAULT_STORAGE_CONFIG_"][0]() == z3.Const("DEFAULT_STORAGE_CONFIG", ObjSort), R.ufs["DEFAULT_RUNNER_CONFIG_"][0]() == z3.Const("DEFAULT_RUNNER_CONFIG", ObjSort)))
    R.path_init.append(cfg_consts)

    OPTKEYS = ("description", "maintainer", "documentation")
    R.contract("configuration:FunctionCluster.to_dict", prop="C18", types={"self": FC}, returns=CFG,
               requires=["self.storage is not None", "self.runner is not None"],
               ensures=["'name' in result and result['name'] == self.name",
                        "'storage' in result and same(result['storage'], dump_of(self.storage))",
                        "'runner' in result and same(result['runner'], dump_of(self.runner))"]
               + ["CFGV(result, '%s') == self.%s" % (k, k) for k in OPTKEYS],
               labels={"dict_literals_dynamic": True})

    CR = TEnt("ConfigurationRepository")
    R.entity("ConfigurationRepository", ("configuration", "ConfigurationRepository"),
             dict(config=CFG, name=TObj(), base_dir=TObj(), description=TObj(), maintainer=TObj(), documentation=TObj(),
                  clusters=TDict(TStr, TObj("nn:FunctionCluster")), modules=TObj()))
    R.contract("configuration:ConfigurationRepository.to_dict", prop="C18", types={"self": CR}, returns=CFG,
               ensures=["'name' in result and result['name'] == self.name", "'modules' in result and same(result['modules'], self.modules)",
                        "'clusters' in result",
                        # the dump keeps every cluster under the key it is registered under in the repository
                        "forall(str, lambda k: (k in result['clusters']) == (k in self.clusters))",
                        "forall(str, lambda k: implies(k in self.clusters, same(result['clusters'][k], dump_of(self.clusters[k]))))"]
               + ["CFGV(result, '%s') == self.%s" % (k, k) for k in ("base_dir",) + OPTKEYS],
               labels={"dict_literals_dynamic": True})

    # From the property ("declarative configuration is honoured"): every field is the explicit argument when one is given, else what the configuration says, else
    # absent; clusters named by the configuration are loaded -- relative to the configured base directory -- unless an explicit map replaces them; a
    # repository without a name is refused.
    R.uf("loaded_config", [TObj(), TObj()], TObj())
    R.uf("cluster_from", [TObj()], TObj())
    R.func_hooks["configuration:_load_config"] = lambda ex, args, kwargs: load_config(ex, args)

    def load_config(ex, args):
        """_load_config(base_dir, config): the configuration object -- itself, or parsed from the file it names relative to base_dir -- or an I/O error."""
        if ex.choose([z3.BoolVal(True), z3.BoolVal(True)]) == 1:
            raise PyRaise(VExc("OSError", [], exact=False))
        r = R.ufs["loaded_config"][0](ex.box(args[0]), ex.box(args[1]))
        ex.assume(r != PyNone)
        return VObj(r)

    def function_cluster(ex, args, kwargs):
        """FunctionCluster(config): proved separately (FunctionCluster.__init__); here the cluster is a function of the configuration object, or ValueError."""
        if len(args) != 1 or kwargs:
            raise Unsupported("FunctionCluster(...) of this shape")
        if ex.choose([z3.BoolVal(True), z3.BoolVal(True)]) == 1:
            raise PyRaise(VExc("ValueError", []))
        r = R.ufs["cluster_from"][0](ex.box(args[0]))
        ex.assume(r != PyNone)
        return VObj(r, "FunctionCluster")
    # (variant: the configuration names no clusters -- the loop that loads configured clusters is then not entered; the general case needs the keys of an opaque
    # mapping as strings and multiplies 128 override paths by the loop: not under contract)
    CRI = "configuration:ConfigurationRepository.__init__@no-configured-clusters"
    R.contract(CRI, prop="C18",
               types={"self": CR, "config": OPTCFG, "name": TObj(), "base_dir": TObj(), "description": TObj(), "maintainer": TObj(), "documentation": TObj(),
                      "clusters": TOpt(TDict(TStr, TObj("nn:FunctionCluster"))), "modules": TObj()},
               requires=["not (config is not None and 'clusters' in config)"],
               ensures=["same(self.name, OVERRIDE(name, config, 'name')) and self.name is not None",
                        "same(self.base_dir, OVERRIDE(base_dir, config, 'base_dir'))",
                        "same(self.description, OVERRIDE(description, config, 'description'))",
                        "same(self.maintainer, OVERRIDE(maintainer, config, 'maintainer'))",
                        "same(self.documentation, OVERRIDE(documentation, config, 'documentation'))",
                        "implies(modules is not None, same(self.modules, modules))",
                        "implies(modules is None and CFGV(config, 'modules') is not None, same(self.modules, CFGV(config, 'modules')))",
                        "self.modules is not None",
                        # an explicit cluster map replaces the configured one entirely
                        "implies(clusters is not None, forall(str, lambda k: (k in self.clusters) == (k in clusters) and implies(k in clusters, same(self.clusters[k], clusters[k]))))",
                        "implies(clusters is None, forall(str, lambda k: k not in self.clusters))"],
               raises={"ValueError": ["OVERRIDE(name, config, 'name') is None"]},
               when_raises={"ValueError": "OVERRIDE(name, config, 'name') is None"},
               loops={1: ["False"]},
               modifies=["self.*"])

    EN = TEnt("Environment")
    REPO = TObj("nn:ConfigurationRepository")
    R.entity("Environment", ("configuration", "Environment"), dict(config=CFG, name=TObj(), base_dir=TObj(), repos=TList(REPO), default_cluster=TObj("nn:FunctionCluster")))
    # From the property ("honoured, ordered"): name and base directory are the explicit arguments when given, else the configuration's ("default" when it names
    # none); an explicit repository list replaces the configured one; otherwise the repositories are those the configuration lists, IN THAT ORDER (the order is
    # the search priority of get_cluster), each loaded relative to the configured base directory.
    R.uf("repo_from", [TObj()], TObj())
    R.uf("default_cluster_of", [TObj()], TObj())

    def repo_ctor(ex, args, kwargs):
        if len(args) != 1 or kwargs:
            raise Unsupported("ConfigurationRepository(...) of this shape")
        if ex.choose([z3.BoolVal(True), z3.BoolVal(True)]) == 1:
            raise PyRaise(VExc("ValueError", []))
        r = R.ufs["repo_from"][0](ex.box(args[0]))
        ex.assume(r != PyNone)
        return VObj(r, "ConfigurationRepository")

    def default_cluster_ctor(ex, args, kwargs):
        r = R.ufs["default_cluster_of"][0](ex.box(args[0]))
        ex.assume(r != PyNone)
        return VObj(r, "FunctionCluster")
    ENV_I = "configuration:Environment.__init__"
    R.contract(ENV_I, prop="C18", types={"self": EN, "config": OPTCFG, "name": TObj(), "base_dir": TObj(), "repos": TOpt(TList(REPO))},
               requires=["implies(config is not None and 'repos' in config, config['repos'] is not None)"],
               ensures=["implies(name is not None, same(self.name, name))",
                        "implies(name is None and config is not None and 'name' in config, same(self.name, config['name']))",
                        "implies(name is None and not (config is not None and 'name' in config), self.name == 'default')",
                        "same(self.base_dir, OVERRIDE(base_dir, config, 'base_dir'))",
                        "implies(repos is not None, len(self.repos) == len(repos) and forall(int, lambda j: implies(0 <= j and j < len(repos), same(self.repos[j], repos[j]))))",
                        "implies(repos is None and not (config is not None and 'repos' in config), len(self.repos) == 0)",
                        "implies(repos is None and config is not None and 'repos' in config, len(self.repos) == len(config['repos']) and forall(int, lambda j: implies(0 <= j and j < len(config['repos']), "
                        "same(self.repos[j], repo_from(loaded_config(CFGV(config, 'base_dir'), config['repos'][j]))))))",
                        "self.default_cluster is not None"],
               raises={"ValueError": [], "OSError+": []},
               loops={1: ["len(comp_result) == loop_i", "forall(int, lambda j: implies(0 <= j and j < loop_i, same(comp_result[j], repo_from(loaded_config(CFGV(config0, 'base_dir'), loop_list[j])))))"]},
               labels={"comp_types": {1: REPO}, "constructors": {"ConfigurationRepository": repo_ctor, "_DefaultFunctionCluster": default_cluster_ctor},
                       "entry_snapshot": {"config0": "config"}},
               modifies=["self.*"])
    R.contract("configuration:Environment.to_dict", prop="C18", types={"self": EN}, returns=CFG,
               ensures=["'name' in result and result['name'] == self.name", "'repos' in result", "len(result['repos']) == len(self.repos)",
                        "forall(int, lambda j: implies(0 <= j and j < len(self.repos), same(result['repos'][j], dump_of(self.repos[j]))))",
                        "CFGV(result, 'base_dir') == self.base_dir"],
               labels={"dict_literals_dynamic": True})
    R.contract("configuration:Environment.get_cluster", prop="C18", types={"self": EN, "cluster_name": TOpt(TStr)}, returns=TObj(),
               ensures=["implies(cluster_name is None, same(result, self.default_cluster))",
                        # the first repository in priority order that defines the name, or nothing
                        "implies(cluster_name is not None, same(result, self.repos[first_index(self.repos, lambda r: cluster_name in r.clusters)].clusters[cluster_name] "
                        "if first_index(self.repos, lambda r: cluster_name in r.clusters) < len(self.repos) else None))"],
               loops={1: ["forall(int, lambda j: implies(0 <= j and j < loop_i, cluster_name not in self.repos[j].clusters))"]})
    R.contract("configuration:Environment.append_repo", prop="C18", types={"self": EN, "repo": REPO},
               ensures=["len(self.repos) == old(len(self.repos)) + 1", "same(self.repos[old(len(self.repos))], repo)",
                        "forall(int, lambda j: implies(0 <= j and j < old(len(self.repos)), same(self.repos[j], old(self.repos[j]))))"],
               modifies=["self.repos"])
    R.contract("configuration:Environment.prepend_repo", prop="C18", types={"self": EN, "repo": REPO},
               ensures=["len(self.repos) == old(len(self.repos)) + 1", "same(self.repos[0], repo)",
                        "forall(int, lambda j: implies(0 <= j and j < old(len(self.repos)), same(self.repos[j + 1], old(self.repos[j]))))"],
               modifies=["self.repos"])
    for mod, cls, typ in (("runner_local", "LocalRunnerBackend", "local"), ("runner_null", "NullRunnerBackend", "null")):
        R.entity(cls, (mod, cls), dict())
        R.contract("%s:%s.to_dict" % (mod, cls), prop="C18", types={"self": TEnt(cls)}, returns=TDict(TStr, TStr), ensures=["result['type'] == '%s' and 'type' in result" % typ])
