"""Contracts for dependency enforcement (property C14): MementoFunction._validate_dependency, call / call_batch (validation
precedes dispatch), DependencyGraph.transitive_memento_fn_dependencies / direct_memento_fn_dependencies.

The rule list (`_all_rules`) is what the static analysis collected; its exactness w.r.t. the reference graph of an arbitrary
program (list_dotted_names, collect_transitive_dependencies) is not within the verifier's reach and is not claimed.
"""
import z3

from pyvc.ty import *  # noqa
from pyvc.engine import PyRaise, Unsupported


def load(R):
    for a, t in dict(memento=TObj("nn:Memento"), invocation_metadata=TObj("nn:InvocationMetadata"), fn_reference_with_args=TObj("nn:FunctionReferenceWithArguments"),
                     fn_reference=TObj("nn:FunctionReference"), memento_fn=TObj(), qualified_name=TStr, explicit_version=TOpt(TStr),
                     qualified_name_without_version=TStr, args=TObj(), kwargs=TObj(), context_args=TObj(), first_level=TBool).items():
        R.attr(a, t)
    for n, (a, r) in dict(calling_frame=([], TObj()), fnref_names=([TObj(), TObj(), TObj()], TSet(TStr)), dep_of=([TObj(), TObj()], TBool), qname_of=([TObj()], TStr),
                          has_attr=([TObj(), TObj()], TBool), py_eq=([TObj(), TObj()], TBool)).items():
        if isinstance(r, TSet):
            continue
        R.uf(n, a, r)
    R.uf("in_fnref_names", [TObj(), TObj(), TObj(), TStr], TBool)
    ufs = {k: v[0] for k, v in R.ufs.items()}
    R.exc_bases["UndeclaredDependencyError"] = ["ValueError"]

    R.entity("MementoFunction", ("memento", "MementoFunction"), dict(qualified_name_without_version=TStr, explicit_version=TOpt(TStr)))
    MF = TEnt("MementoFunction")

    class _Frame:
        pass

    def callstack_get(ex, args, kwargs):
        o = z3.Const("the_call_stack", ObjSort)
        ex.assume(o != PyNone)
        return VObj(o, "CallStack")
    R.func_hooks["call_stack:CallStack.get"] = callstack_get
    R.obj_method_hooks["get_calling_frame"] = lambda ex, recv, args, kwargs: VObj(ufs["calling_frame"]())

    # x.fn_reference().qualified_name of a memento function object (self or a dependency): a function of the object within one call
    def fn_reference_of(ex, recv, args, kwargs):
        o = ex.fresh("fnref", ObjSort)
        ex.assume(z3.And(o != PyNone, z3.Function("attr_qualified_name", ObjSort, z3.StringSort())(o) == ufs["qname_of"](recv.t)))
        return VObj(o, "FunctionReference")
    R.obj_method_hooks["fn_reference"] = fn_reference_of

    def self_fn_reference(ex, args, kwargs):
        return fn_reference_of(ex, VObj(ex.box(args[0])), [], {})
    R.func_hooks["memento:MementoFunction.fn_reference"] = self_fn_reference

    # caller.dependencies().transitive_memento_fn_dependencies(): the set {d | dep_of(caller, d)} (its definition from the rule list is proved below)
    def dependencies(ex, recv, args, kwargs):
        g = z3.Function("depgraph_of", ObjSort, ObjSort)(recv.t)
        ex.assume(g != PyNone)
        owners = dict(ex.st.ghost.get("$depgraph_owner", {}))
        owners[z3.simplify(g).get_id()] = recv.t
        ex.st.ghost["$depgraph_owner"] = owners
        return VObj(g, "DependencyGraph")
    R.obj_method_hooks["dependencies"] = dependencies

    def transitive(ex, recv, args, kwargs):
        mem = ex.fresh("depmem", z3.ArraySort(ObjSort, z3.BoolSort()))
        owner = ex.st.ghost.get("$depgraph_owner", {}).get(z3.simplify(recv.t).get_id())
        if owner is None:
            raise Unsupported("transitive_memento_fn_dependencies() on a graph whose owner is unknown")
        ex.add_universal([TObj()], lambda d: z3.And(mem[d] == ufs["dep_of"](owner, d), z3.Implies(mem[d], d != PyNone)), "transitive-deps-set")
        cnt = ex.fresh("depcount", z3.IntSort())
        ex.assume(cnt >= 0)
        return ex.new_box(SetV(TSet(TObj()), mem, cnt))
    R.obj_method_hooks["transitive_memento_fn_dependencies"] = transitive

    def extract_refs(ex, args, kwargs):
        a, k, c = [ex.box(x) for x in args[-3:]]
        mem = ex.fresh("refmem", z3.ArraySort(z3.StringSort(), z3.BoolSort()))
        ex.add_universal([TStr], lambda s: mem[s] == ufs["in_fnref_names"](a, k, c, s), "fn-ref-args")
        cnt = ex.fresh("refcount", z3.IntSort())
        ex.assume(cnt >= 0)
        return ex.new_box(SetV(TSet(TStr), mem, cnt))
    R.func_hooks["memento:MementoFunction._extract_fn_ref_args"] = extract_refs
    R.assume("_extract_fn_ref_args returns the qualified names of the function references nested in the caller's args / kwargs / context args (in_fnref_names; its recursive walk is not under contract)")

    R.spec("FRAME", [], "calling_frame()")
    R.spec("CALLER_REF", [], "calling_frame().memento.invocation_metadata.fn_reference_with_args")
    R.attr("_clone_of", TObj())
    R.spec("FRAME_FN", [], "CALLER_REF().fn_reference.memento_fn")
    # from the property ("a memento function with an automatic version"): the function object on the stack may be a modifier clone (force_local(), partial(),
    # with_context_args() ...), which carries the version of its original as an explicit one -- whether the version is automatic, and what may be called,
    # is decided by the function the clone was made from
    R.spec("CALLER", [], "FRAME_FN()._clone_of if (has_attr(FRAME_FN(), '_clone_of') and FRAME_FN()._clone_of is not None and truthy(FRAME_FN()._clone_of)) else FRAME_FN()")
    # the call is outside the caller's declared / detected closure and the callee was not passed to the caller as an argument
    R.spec("REFUSED", ["f"],
           "calling_frame() is not None and CALLER().explicit_version is None and CALLER().qualified_name_without_version != f.qualified_name_without_version "
           "and not exists(obj, lambda d: dep_of(CALLER(), d) and qname_of(d) == qname_of(f)) "
           "and not in_fnref_names(CALLER_REF().args, CALLER_REF().kwargs, CALLER_REF().context_args, qname_of(f))")
    M = "memento:MementoFunction."
    R.contract(M + "_validate_dependency", prop="C14", types={"self": MF}, ghost_params={"validated": TBool},
               requires=["implies(calling_frame() is not None, FRAME_FN() is not None and CALLER() is not None)"],
               ensures=["not REFUSED(self)", "[effect] ghost('validated')"],
               raises={"UndeclaredDependencyError": ["REFUSED(self)"]},
               modifies=["ghost:validated"])

    # ---- validation precedes dispatch: the base-class dispatch requires the ghost flag that only _validate_dependency's normal return sets
    def validate_summary(ex, args, kwargs):
        if ex.choose([z3.BoolVal(True), z3.BoolVal(True)]) == 1:
            raise PyRaise(VExc("UndeclaredDependencyError", []))
        ex.st.ghost["validated"] = VBool(True)
        return VNone
    B = "base:MementoFunctionBase."
    R.contract(B + "call", assumed=True, types={"self": TObj(), "args": TObj(), "kwargs": TObj()}, returns=TObj(), requires=["ghost('validated')"], raises={"Exception+": []},
               ensures=["ghost('dispatched')"], modifies=["ghost:dispatched"])
    R.contract(B + "call_batch", assumed=True, types={"self": TObj(), "kwargs_list": TObj(), "raise_first_exception": TBool}, returns=TObj(), requires=["ghost('validated')"],
               raises={"Exception+": []}, ensures=["ghost('dispatched')"], modifies=["ghost:dispatched"])
    GH = {"validated": TBool, "dispatched": TBool}
    for name, types in (("call", {"self": MF, "args": TObj(), "kwargs": TObj()}), ("call_batch", {"self": MF, "kwargs_list": TObj(), "raise_first_exception": TBool})):
        R.contract(M + name, prop="C14", types=types, returns=TObj(), ghost_params=GH, requires=["not ghost('validated')", "not ghost('dispatched')", "implies(calling_frame() is not None, FRAME_FN() is not None and CALLER() is not None)"],
                   ensures=["ghost('validated') and ghost('dispatched')"],
                   raises={"UndeclaredDependencyError": ["not ghost('dispatched')"], "Exception+": []},
                   modifies=["ghost:validated", "ghost:dispatched"])

    # ---- the dependency sets are exactly the stated filters of the collected rule list
    R.entity("DependencyGraph", ("dependency_graph", "DependencyGraph"), dict(memento_fn=TObj(), _all_rules=TList(TObj("nn:HashRule"))))
    DG = TEnt("DependencyGraph")
    D = "dependency_graph:DependencyGraph."
    R.spec("IS_DEP_RULE", ["g", "r"], "has_attr(r, 'memento_fn') and not py_eq(r.memento_fn, g.memento_fn)")
    R.spec("IS_DIRECT_RULE", ["g", "r"], "has_attr(r, 'memento_fn') and r.memento_fn is not None and not py_eq(r.memento_fn, g.memento_fn) and r.first_level")
    R.contract(D + "transitive_memento_fn_dependencies", prop="C14", types={"self": DG}, returns=TSet(TObj()),
               ensures=["forall(int, lambda i: implies(0 <= i and i < len(self._all_rules) and IS_DEP_RULE(self, self._all_rules[i]), self._all_rules[i].memento_fn in result))",
                        "forall(obj, lambda f: implies(f in result, exists(int, lambda i: 0 <= i and i < len(self._all_rules) and IS_DEP_RULE(self, self._all_rules[i]) and same(self._all_rules[i].memento_fn, f))))"])
    R.contract(D + "direct_memento_fn_dependencies", prop="C14", types={"self": DG}, returns=TSet(TObj()),
               ensures=["forall(int, lambda i: implies(0 <= i and i < len(self._all_rules) and IS_DIRECT_RULE(self, self._all_rules[i]), self._all_rules[i].memento_fn in result))",
                        "forall(obj, lambda f: implies(f in result, exists(int, lambda i: 0 <= i and i < len(self._all_rules) and IS_DIRECT_RULE(self, self._all_rules[i]) and same(self._all_rules[i].memento_fn, f))))"])

    # ---- the graph links nodes by the parts of a rule key: parse_key is the inverse of the key construction "kind;namespace;name" proved under C03
    # (the kind and the namespace contain no ';'; the name may)
    R.contract(D + "parse_key", prop="C14", types={"key": TStr}, returns=TTuple([TStr, TStr, TStr]), ghost_params={"kind": TStr, "ns": TStr, "nm": TStr},
               requires=["key == ghost('kind') + ';' + ghost('ns') + ';' + ghost('nm')", "';' not in ghost('kind')", "';' not in ghost('ns')"],
               ensures=["result[0] == ghost('kind')", "result[1] == ghost('ns')", "result[2] == ghost('nm')"])
