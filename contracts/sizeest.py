"""Contracts for the size estimate the memory cache accounts with (property C06: the representation invariant 0 <= usage <= budget and
"oversize values are never resident" rest on the estimate being a non-negative number): MemoryCache._pd_linreg_mem_usage.

Assumed (pandas): len() of a frame is non-negative, sample(n) has n rows, .iloc[a:b] of an n-row frame has the rows a..b, and the deep
memory usage of a frame (_pd_mem_usage) is a non-negative int."""
import z3

from pyvc.ty import *  # noqa


def load(R):
    R.uf("seq_len", [TObj()], TInt)
    ln = z3.Function("seq_len", ObjSort, z3.IntSort())

    def frame(ex, n_rows):
        o = ex.fresh_obj("Frame")
        ex.assume(z3.And(ln(o) == n_rows, n_rows >= 0))
        return VObj(o, "Frame")

    def sample(ex, recv, args, kwargs):
        n = ex.to_term(args[0], TInt)
        return frame(ex, n)
    R.obj_method_hooks["sample"] = sample
    R.attr_hooks[(None, "iloc")] = lambda ex, o: VObj(o.t, "iloc")
    R.attr_hooks[("Frame", "iloc")] = lambda ex, o: VObj(o.t, "iloc")

    def iloc_slice(ex, base, lo, hi):
        n = ln(base.t)
        lo_t = ex.to_term(lo, TInt) if lo is not None else z3.IntVal(0)
        hi_t = ex.to_term(hi, TInt) if hi is not None else n
        # non-negative bounds within the frame (the code slices a 100-row sample at 33)
        rows = z3.If(hi_t >= n, n, hi_t) - z3.If(lo_t >= n, n, lo_t)
        return frame(ex, z3.If(rows >= 0, rows, 0))
    R.slice_hooks = {"iloc": iloc_slice}
    R.assume("pandas: sample(n) has n rows; .iloc[a:b] with 0 <= a, b has max(0, min(b, rows) - min(a, rows)) rows; deep memory usage is a non-negative int")
    SB = "storage_base:MemoryCache."
    R.contract(SB + "_pd_mem_usage", assumed=True, types={"obj": TObj()}, returns=TInt, ensures=["result >= 0"],
               notes="pandas memory_usage(deep=True) (summed over columns for a frame)")
    R.contract(SB + "_pd_linreg_mem_usage", prop="C06", types={"obj": TObj("nn:Frame"), "sample_size": TInt}, returns=TInt,
               requires=["sample_size == 100"],
               # what the cache needs from an estimate: it is a size
               ensures=["result >= 0"],
               labels={"use_defaults": ["sample_size"]})
