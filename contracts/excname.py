"""Contracts for recorded exceptions (property C02, clause "replayed as the same exception class when it can be rebuilt from its
message"): MementoException.__init__ / from_exception / to_exception.  The name format `language::module:qualname` is parsed by the
regular expression read from the real source (pyvc/regex.py)."""
import z3

from pyvc.ty import *  # noqa
from pyvc.engine import PyRaise, Unsupported


def load(R):
    for a, t in dict(__class__=TObj("nn:type"), __module__=TStr, __qualname__=TStr, __name__=TStr, __traceback__=TObj()).items():
        R.attr(a, t)
    for n, (a, r) in dict(py_str=([TObj()], TStr), has_attr=([TObj(), TObj()], TBool), getattr_=([TObj(), TObj()], TObj()), module_named=([TStr], TObj()),
                          is_class=([TObj()], TBool), built=([TObj(), TStr], TObj()), ctor_accepts_message=([TObj()], TBool), resolved=([TObj(), TStr], TObj()),
                          resolvable=([TObj(), TStr], TBool)).items():
        R.uf(n, a, r)
    ufs = {k: v[0] for k, v in R.ufs.items()}

    def sp_walk(ex, n):
        """walk(root, parts, i): the object reached from root after following the first i attribute names of parts."""
        root, parts, i = ex.ev(n.args[0]), ex.cont(ex.ev(n.args[1])), ex.ev(n.args[2])
        W = z3.Function("walk", ObjSort, parts.arr.sort(), z3.IntSort(), ObjSort)
        G = z3.Function("getattr_", ObjSort, ObjSort, ObjSort)
        bs = z3.Function("box_str", z3.StringSort(), ObjSort)
        r, p = ex.box(root), parts.arr
        key = ("walk", r.get_id(), p.get_id())
        done = ex.st.ghost.setdefault("$walk_axioms", set())
        if key not in done and not ex.bound_ids and ex.collector is None:
            ex.st.ghost["$walk_axioms"] = set(done) | {key}
            ex.assume(W(r, p, 0) == r)
            ex.add_universal([TInt], lambda j: z3.Implies(j >= 0, W(r, p, j + 1) == G(W(r, p, j), bs(p[j]))), "walk-step")
        ex.touch(TInt, i.t)
        return VObj(W(r, p, i.t))
    R.spec_builtins["walk"] = sp_walk
    R.spec("WALKED", ["m", "q"], "walk(module_named(m), q.split('.'), len(q.split('.')))")
    R.entity("MementoException", ("exception", "MementoException"), dict(exception_name=TStr, message=TStr, stack_trace=TStr))
    ME = TEnt("MementoException")
    R.external("traceback.format_exception", returns=TObj("nn:list"), ensures=[])
    R.external("inspect.isclass", returns=TBool, ensures=["result == is_class(arg0)"])
    R.uf("importable", [TStr], TBool)
    R.external("importlib.import_module", returns=TObj("nn:module"), raises={"ModuleNotFoundError": ["not importable(arg0)"], "ValueError": ["not importable(arg0)"]},
               ensures=["importable(arg0)", "same(result, module_named(arg0))"])
    # a part of an exception name: no ':' (the separator) and single-line
    R.spec("PART", ["x"], "':' not in x and '\\n' not in x")
    R.spec("EXC_NAME", ["l", "m", "q"], "l + '::' + m + ':' + q")
    E = "exception:MementoException."
    GP = {"l": TStr, "m": TStr, "q": TStr}
    HINT = [{"1": "ghost('l')", "2": "ghost('m')", "3": "ghost('q')", "optional_literals": [True]}]
    R.contract(E + "__init__", prop="C02", types={"self": ME, "exception_name": TStr, "message": TStr, "stack_trace": TStr}, ghost_params=GP,
               requires=["PART(ghost('l')) and PART(ghost('m')) and PART(ghost('q'))", "exception_name == EXC_NAME(ghost('l'), ghost('m'), ghost('q'))"],
               ensures=["self.exception_name == exception_name", "self.message == message", "self.stack_trace == stack_trace"],
               labels={"regex_hints": HINT}, modifies=["self.*"])
    # recording: the name identifies the class by module and *qualified* name (nested classes included)
    # from the property ("a raised exception is recorded and replayed"): EVERY exception the body raises can be recorded -- str(e) is the exception's own
    # code and may itself raise (or return a non-string): from_exception has no raises clause, the message is str(e) whenever str(e) works
    R.str_may_raise = True
    R.uf("str_works", [TObj()], TBool)
    R.contract(E + "from_exception", prop="C02", types={"e": TObj("nn:Exception")}, returns=ME,
               requires=["PART(e.__class__.__module__) and PART(e.__class__.__qualname__)"],
               ensures=["result.exception_name == EXC_NAME('python', e.__class__.__module__, e.__class__.__qualname__)",
                        # the original message is preserved whenever there is one (str(e) worked); otherwise a placeholder naming the class
                        "result.message == py_str(e) or result.message == '<unprintable ' + e.__class__.__qualname__ + ' object>'"],
               labels={"callee_ghosts": {E + "__init__": {"l": "'python'", "m": "e.__class__.__module__", "q": "e.__class__.__qualname__"}}})

    def construct_exception(ex, fv, args, kwargs):
        """Calling the resolved class with the message: the instance, or TypeError when the constructor does not take a single message."""
        if ex.branch(ufs["ctor_accepts_message"](fv.t)):
            return VObj(ufs["built"](fv.t, ex.to_term(args[0], TStr)))
        # a constructor that does not take a single message: TypeError for a wrong signature, or whatever its own code raises
        if ex.choose([z3.BoolVal(True), z3.BoolVal(True)]) == 0:
            raise PyRaise(VExc("TypeError", []))
        raise PyRaise(VExc("Exception", [], exact=False))
    R.opaque_call_hook = construct_exception
    # walking the dotted qualified name from the module: resolved(module, q) exists iff every step exists (assumed summary of the getattr loop's meaning)
    R.spec("WALKABLE", ["m", "q"], "forall(int, lambda j: implies(0 <= j and j < len(q.split('.')), has_attr(walk(module_named(m), q.split('.'), j), q.split('.')[j])))")
    R.spec("REBUILDABLE", ["l", "m", "q"], "l == 'python' and importable(m) and WALKABLE(m, q) and is_class(WALKED(m, q)) and ctor_accepts_message(WALKED(m, q))")
    # From the docstring and the property ("a stored exception is converted back ... or returned as it is"): to_exception NEVER raises.  Whatever goes
    # wrong while rebuilding -- module not importable in this process, a name that cannot be walked (a class defined inside a function has
    # '<locals>' in its qualified name), something that is not a class, a constructor that rejects a single message in whatever way -- the
    # MementoException itself is the result.
    R.contract(E + "to_exception", prop="C02", types={"self": ME}, returns=TObj(), ghost_params=GP,
               requires=["PART(ghost('l')) and PART(ghost('m')) and PART(ghost('q'))", "self.exception_name == EXC_NAME(ghost('l'), ghost('m'), ghost('q'))"],
               ensures=[
                   "implies(not REBUILDABLE(ghost('l'), ghost('m'), ghost('q')), result is self)",
                   # otherwise an instance of exactly the recorded class, built from the recorded message
                   "implies(REBUILDABLE(ghost('l'), ghost('m'), ghost('q')), "
                   "same(result, built(WALKED(ghost('m'), ghost('q')), self.message + '. Original stack trace follows:\\n' + self.stack_trace)))",
                   ],
               loops={1: ["same(ref, walk(module, loop_list, loop_i))",
                          "forall(int, lambda j: implies(0 <= j and j < loop_i, has_attr(walk(module, loop_list, j), loop_list[j])))"]},
               labels={"regex_hints": HINT})
