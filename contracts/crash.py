"""Contracts for property C08: a crash or an I/O fault at any file-system operation of a write never poisons the
file-system store (storage_filesystem._FilesystemDataSource).

Ghost state (the file system under the store root, as far as the data source touches it):
    files   : path string -> content (regular files)
    closed  : set of paths whose writer closed normally -- their content is the complete content the writer intended
    pending : path string -> everything handed to write() since the file was opened for writing (buffered or on disk)
    dirs    : set of directory paths

Trusted OS model (assumed contracts, the ONLY statements about the operating system):
    open(p, 'w'|'wb')      creates/truncates p to '' in one step, or raises OSError leaving everything unchanged
    f.write(s) / shutil.copyfileobj(src, f)
                           pending grows by s; the file holds some prefix of pending that extends what it held (buffering);
                           or raises OSError with some such prefix on disk
    close (leaving `with`) normal: the file holds all of pending and is complete (closed); or raises OSError with a prefix on disk;
                           when the body raised, the file is never marked complete
    os.replace(a, b)       atomic: b gets a's content and completeness, a disappears; or raises OSError, nothing changed
    os.makedirs(d)         only adds directories (none of which is a link / version-file / temporary path)
    open(p,'r') / io.FileIO(p)   raises OSError iff p is not a regular file; reading returns the content on disk
    uuid4()                a non-empty path component that no existing path uses as its version

A *crash* is "the process stops after some primitive": the reachable crash states are exactly the states right after each
primitive's normal or exceptional outcome (a death in the middle of a write is the exceptional outcome's state: a prefix on
disk).  The label `step_invariant` makes the verifier prove the crash invariant in each of these states, not only at exit.

Path algebra (assumed, `PATH_AX`): link paths LPS(base, k), version paths VPS(base, k, v) and temporary paths TMPS(p) are
uninterpreted functions of the (escaped) key strings with pairwise-disjoint ranges and the inverses pathlib gives
(Path(VPS(b,k,v)).parent.name == v).  This holds for memento's key space (no key has a '.versions' component or ends
in '.link' / '.link.tmp'; a version is a uuid).
"""
import z3

from pyvc.ty import *  # noqa


FS_GHOSTS = {"files": TDict(TStr, TStr), "closed": TSet(TStr)}
FS_MODS = ["ghost:files", "ghost:closed"]


def load(R):
    VKey = R.record("VersionedDataSourceKey", key=TStr, version=TStr)
    DKey = R.record("DataSourceKey", key=TStr)
    R.entity("_FilesystemDataSource", ("storage_filesystem", "_FilesystemDataSource"), dict(base_path=TObj("nn:Path")))
    FDS = TEnt("_FilesystemDataSource")
    for n, (a, r) in dict(path_norm=([TStr], TStr), py_str=([TObj()], TStr), esc=([TStr], TStr),
                          LPS=([TStr, TStr], TStr), VPS=([TStr, TStr, TStr], TStr), MPS=([TStr, TStr, TStr, TStr], TStr), TMPS=([TStr], TStr),
                          pkind=([TStr], TInt), lkey=([TStr], TStr), ver_of=([TStr], TStr), comp=([TStr], TBool),
                          fpath=([TObj()], TStr), fwrites=([TObj()], TBool), stream_str=([TObj()], TStr),
                          path_with_name=([TStr, TStr], TStr), path_name=([TStr], TStr), path_parent=([TStr], TStr)).items():
        R.uf(n, a, r)
    ufs = {k: v[0] for k, v in R.ufs.items()}
    R.assume("C08 OS model: open-for-write truncates in one step; write/copyfileobj leave a prefix of the pending data on disk; a normal close "
             "completes the file; os.replace is atomic; every primitive may instead raise OSError (open/replace/makedirs: nothing changed; "
             "write/close: a prefix on disk); a crash state is the state after some primitive outcome")
    R.assume("C08 path algebra: link paths, version-file paths and temporary link paths are functions of (base, escaped key, version) with "
             "pairwise disjoint ranges, Path(version path).parent.name is the version, _escape_key is idempotent (memento's key space: no key has a "
             "'.versions' component or ends in '.link' / '.link.tmp'; versions are uuid strings)")
    R.assume("C08 uuid4() yields a version no existing file uses (fresh) and that is a single non-empty path component")

    # ---------------------------------------------------------------- pathlib objects: characterised by their string
    def path_obj(ex, s):
        o = ex.fresh_obj("Path")
        ex.assume(z3.And(ex.class_pred("Path")(o), ufs["py_str"](o) == s, o != PyNone))
        return VObj(o, "Path")

    def as_str(ex, v):
        if isinstance(v, VObj):
            return ufs["py_str"](v.t)
        return v.t if isinstance(v, VStr) else ex.to_term(v, TStr)

    def path_ctor(ex, args, kwargs):
        a = args[0]
        if isinstance(a, VObj):
            return path_obj(ex, ufs["py_str"](a.t))          # Path(Path(..)) is the same path
        return path_obj(ex, ufs["path_norm"](as_str(ex, a)))
    R.constructors["pathlib.Path"] = path_ctor
    R.constructors["Path"] = path_ctor
    def with_name(ex, recv, args, kwargs):
        s, n = ufs["py_str"](recv.t), as_str(ex, args[0])
        r = ufs["path_with_name"](s, n)
        # path algebra: <version file>.link.tmp is neither a link path nor a version-file path
        ex.assume(z3.Implies(n == z3.Concat(ufs["path_name"](s), z3.StringVal(".link.tmp")), ufs["pkind"](r) == 2))
        return path_obj(ex, r)
    R.obj_method_hooks["with_name"] = with_name
    R.attr_hooks = getattr(R, "attr_hooks", {})
    R.attr_hooks[("Path", "name")] = lambda ex, o: VStr(ufs["path_name"](ufs["py_str"](o.t)))
    def parent_hook(ex, o):
        s = ufs["py_str"](o.t)
        ex.assume(ufs["ver_of"](s) == ufs["path_name"](ufs["path_parent"](s)))      # definition of ver_of: Path(s).parent.name
        return path_obj(ex, ufs["path_parent"](s))
    R.attr_hooks[("Path", "parent")] = parent_hook
    R.constructors["typing.cast"] = lambda ex, args, kwargs: args[1]
    R.constructors["cast"] = lambda ex, args, kwargs: args[1]

    # ---------------------------------------------------------------- specification vocabulary
    R.spec("B", ["ds"], "py_str(ds.base_path)")
    R.spec("LP", ["ds", "k"], "LPS(py_str(ds.base_path), esc(k))")
    R.spec("VP", ["ds", "k", "v"], "VPS(py_str(ds.base_path), esc(k), v)")
    R.spec("FS_SAME", [], "forall(str, lambda p: (p in ghost('files')) == old(p in ghost('files')) and ghost('files')[p] == old(ghost('files')[p]) "
                          "and (p in ghost('closed')) == old(p in ghost('closed')))")
    R.spec("OTHERS_SAME", ["q"], "forall(str, lambda p: implies(p != q, (p in ghost('files')) == old(p in ghost('files')) and ghost('files')[p] == old(ghost('files')[p]) "
                                 "and (p in ghost('closed')) == old(p in ghost('closed'))))")
    # a complete, readable version file
    R.spec("COMPLETE", ["p"], "p in ghost('files') and p in ghost('closed')")
    # THE CRASH INVARIANT (one state): every link file that exists is complete and holds the path of a complete version file of its own key
    R.spec("GOOD", ["ds"], "forall(str, lambda p: implies(pkind(p) == 0 and p in ghost('files'), p in ghost('closed') "
                           "and ghost('files')[p] == VPS(B(ds), lkey(p), ver_of(ghost('files')[p])) and comp(ver_of(ghost('files')[p])) "
                           "and pkind(ghost('files')[p]) == 1 and path_norm(ghost('files')[p]) == ghost('files')[p] "
                           "and COMPLETE(ghost('files')[p])))")
    # two-state part: complete version files are immutable and stay
    R.spec("KEPT", [], "forall(str, lambda p: implies(pkind(p) == 1 and old(p in ghost('files') and p in ghost('closed')), "
                       "p in ghost('files') and p in ghost('closed') and ghost('files')[p] == old(ghost('files')[p])))")
    R.spec("LINKS_SAME", [], "forall(str, lambda p: implies(pkind(p) == 0, (p in ghost('files')) == old(p in ghost('files')) and ghost('files')[p] == old(ghost('files')[p])))")
    R.spec("LINKS_SAME_BUT", ["q"], "forall(str, lambda p: implies(pkind(p) == 0 and p != q, (p in ghost('files')) == old(p in ghost('files')) and ghost('files')[p] == old(ghost('files')[p])))")
    R.spec("LINK_OLD_OR", ["q", "t"], "((q in ghost('files')) == old(q in ghost('files')) and ghost('files')[q] == old(ghost('files')[q])) or (q in ghost('files') and ghost('files')[q] == t)")

    PATH_AX = ["forall(str, lambda k: lkey(LPS(B(self), k)) == k and pkind(LPS(B(self), k)) == 0)",
               "forall(str, lambda p: ver_of(p) == path_name(path_parent(p)))",
               "forall(str, lambda s: esc(esc(s)) == esc(s))"]

    # ---------------------------------------------------------------- assumed: the path helpers (pathlib / os.path arithmetic)
    F = "storage_filesystem:_FilesystemDataSource."
    R.contract(F + "_escape_key", assumed=True, types={"self": FDS, "key": TStr}, returns=TStr, ensures=["result == esc(key)", "esc(result) == result"],
               notes="str.replace(':', '%3A'); idempotent (path algebra)")
    R.contract(F + "_get_non_versioned_link_path", assumed=True, types={"self": FDS, "key": TStr}, returns=TObj("nn:Path"),
               ensures=["py_str(result) == LPS(B(self), esc(key))", "pkind(py_str(result)) == 0", "lkey(py_str(result)) == esc(key)"], notes="base_path / (escaped key + '.link')")
    R.contract(F + "_get_path_versioned", assumed=True, types={"self": FDS, "key": VKey, "metadata_key": TOpt(TStr)}, returns=TObj("nn:Path"),
               ensures=["implies(metadata_key is None, py_str(result) == VPS(B(self), esc(key.key), key.version) and pkind(py_str(result)) == 1 "
                        "and path_norm(py_str(result)) == py_str(result) and implies(comp(key.version), ver_of(py_str(result)) == key.version))",
                        "implies(metadata_key is not None, py_str(result) == MPS(B(self), esc(key.key), key.version, metadata_key) and pkind(py_str(result)) == 3)"],
               labels={"use_defaults_at_call": True},
               notes="base_path / dirname / '.versions' / version / basename")

    # ---- the one thing about _get_path_versioned that is NOT path arithmetic: which of the two file names it builds.  Proved on the real body (variant
    # @metadata-key): whenever a metadata key is given -- ANY string, the empty one included -- the result is the metadata file name
    # '<basename>.meta.<key>', never the name of the data object itself (metadata written "with the data" must not overwrite the data, C07 / C08)
    for n_, (a_, r_) in dict(path_join=([TStr, TStr], TStr), os_dirname=([TStr], TStr), os_basename=([TStr], TStr)).items():
        R.uf(n_, a_, r_)

    def joinpath(ex, recv, args, kwargs):
        s_ = ufs_now()["py_str"](recv.t)
        for a in args:
            s_ = ufs_now()["path_join"](s_, as_str(ex, a))
        return path_obj(ex, s_)

    def ufs_now():
        return {k: v[0] for k, v in R.ufs.items()}
    R.obj_method_hooks["joinpath"] = joinpath
    R.constructors["os.path.dirname"] = lambda ex, args, kwargs: VStr(ufs_now()["os_dirname"](as_str(ex, args[0])))
    R.constructors["os.path.basename"] = lambda ex, args, kwargs: VStr(ufs_now()["os_basename"](as_str(ex, args[0])))
    R.contract(F + "_get_path_versioned@metadata-key", prop="C08", types={"self": FDS, "key": VKey, "metadata_key": TStr}, returns=TObj("nn:Path"),
               ensures=["py_str(result) == path_join(path_join(path_join(path_join(B(self), os_dirname(esc(key.key))), '.versions'), key.version), "
                        "os_basename(esc(key.key)) + '.meta.' + metadata_key)"],
               labels={"vacuity_guard": True})

    # ---------------------------------------------------------------- assumed: the OS primitives
    # For a file that is open for writing (not in `closed`), files[p] is its LOGICAL content (written so far, buffered or on disk): what is
    # on disk is some prefix of it.  No invariant below says anything about the content of a file that is not closed.
    R.external("fs.open_w", returns=TObj("nn:File"), types={"arg0": TStr},
               raises={"OSError+": ["FS_SAME()"]},
               ensures=["fpath(result) == arg0", "fwrites(result)", "arg0 in ghost('files')", "ghost('files')[arg0] == ''", "arg0 not in ghost('closed')", "OTHERS_SAME(arg0)"],
               modifies=FS_MODS)
    R.external("fs.open_r", returns=TObj("nn:File"), types={"arg0": TStr},
               when_raises={"OSError+": "arg0 not in ghost('files')"},
               ensures=["fpath(result) == arg0", "not fwrites(result)"])
    R.external("fs.write", returns=TInt, types={"arg0": TObj("nn:File"), "arg1": TStr},
               raises={"OSError+": ["fpath(arg0) in ghost('files')", "fpath(arg0) not in ghost('closed')", "OTHERS_SAME(fpath(arg0))"]},
               ensures=["fpath(arg0) in ghost('files')", "fpath(arg0) not in ghost('closed')",
                        "ghost('files')[fpath(arg0)] == old(ghost('files')[fpath(arg0)]) + arg1", "OTHERS_SAME(fpath(arg0))"],
               modifies=FS_MODS)
    R.external("fs.close", types={"arg0": TObj("nn:File")},
               raises={"OSError+": ["fpath(arg0) in ghost('files')", "fpath(arg0) not in ghost('closed')", "OTHERS_SAME(fpath(arg0))"]},
               ensures=["fpath(arg0) in ghost('files')", "fpath(arg0) in ghost('closed')", "ghost('files')[fpath(arg0)] == old(ghost('files')[fpath(arg0)])",
                        "OTHERS_SAME(fpath(arg0))"],
               modifies=FS_MODS)
    R.external("fs.close_after_error", types={"arg0": TObj("nn:File")},
               ensures=["fpath(arg0) in ghost('files')", "fpath(arg0) not in ghost('closed')", "OTHERS_SAME(fpath(arg0))"],
               modifies=FS_MODS, notes="leaving a with-block by an exception: the file is closed but never counted as complete")
    R.external("os.replace", types={"arg0": TStr, "arg1": TStr},
               raises={"OSError+": ["FS_SAME()"]},
               ensures=["old(arg0 in ghost('files'))", "arg1 in ghost('files')", "ghost('files')[arg1] == old(ghost('files')[arg0])",
                        "(arg1 in ghost('closed')) == old(arg0 in ghost('closed'))", "implies(arg0 != arg1, arg0 not in ghost('files'))",
                        "forall(str, lambda p: implies(p != arg0 and p != arg1, (p in ghost('files')) == old(p in ghost('files')) and ghost('files')[p] == old(ghost('files')[p]) "
                        "and (p in ghost('closed')) == old(p in ghost('closed'))))"],
               modifies=FS_MODS)
    R.external("os.makedirs", types={"arg0": TStr}, raises={"OSError+": []}, ensures=[],
               notes="creates directories only; directories are not part of the ghost state (see fs.exists)")
    R.external("fs.unlink", types={"arg0": TStr},
               raises={"OSError+": ["FS_SAME()"]},
               ensures=["old(arg0 in ghost('files'))", "arg0 not in ghost('files')", "arg0 not in ghost('closed')", "OTHERS_SAME(arg0)"],
               modifies=FS_MODS, notes="removes one regular file in one step, or raises OSError leaving everything unchanged (also when the file does not exist)")
    R.external("fs.exists", returns=TBool, types={"arg0": TStr},
               ensures=["implies(arg0 in ghost('files'), result)", "implies(pkind(arg0) == 0 or pkind(arg0) == 1 or pkind(arg0) == 2, result == (arg0 in ghost('files')))"],
               notes="a link / version-file / temporary path is never a directory (path algebra); for other paths only 'a regular file exists' is known")
    R.external("fs.isfile", returns=TBool, types={"arg0": TStr}, ensures=["result == (arg0 in ghost('files'))"])
    R.external("fs.read", returns=TStr, types={"arg0": TObj("nn:File")}, ensures=["result == ghost('files')[fpath(arg0)]"])
    R.external("uuid.uuid4", returns=TObj("nn:UUID"),
               ensures=["comp(py_str(result))",
                        "forall(str, lambda p: implies(p in ghost('files'), not (pkind(p) == 1 and ver_of(p) == py_str(result))))"])

    def call_ext(ex, name, *args):
        return ex.apply_contract(R.externals[name], {"arg%d" % i: a for i, a in enumerate(args)}, name)

    def const_mode(ex, args, kwargs, pos):
        m = kwargs.get("mode") if "mode" in kwargs else (args[pos] if len(args) > pos else VStr(z3.StringVal("r")))
        s = z3.simplify(m.t)
        if not z3.is_string_value(s):
            raise Unsupported("open() with a non-constant mode")
        return s.as_string()

    def do_open(ex, path_term, mode):
        if "w" in mode or "a" in mode or "+" in mode or "x" in mode:
            if mode not in ("w", "wb"):
                raise Unsupported("open mode %r" % mode)
            return call_ext(ex, "fs.open_w", VStr(path_term))
        return call_ext(ex, "fs.open_r", VStr(path_term))
    R.constructors["open"] = lambda ex, args, kwargs: do_open(ex, as_str(ex, args[0]), const_mode(ex, args, kwargs, 1))
    R.constructors["io.FileIO"] = lambda ex, args, kwargs: do_open(ex, as_str(ex, args[0]), const_mode(ex, args, kwargs, 1))
    R.obj_method_hooks["open"] = lambda ex, recv, args, kwargs: do_open(ex, ufs["py_str"](recv.t), const_mode(ex, args, kwargs, 0))
    R.obj_method_hooks["exists"] = lambda ex, recv, args, kwargs: call_ext(ex, "fs.exists", VStr(ufs["py_str"](recv.t)))
    R.constructors["os.path.exists"] = lambda ex, args, kwargs: call_ext(ex, "fs.exists", VStr(as_str(ex, args[0])))
    R.constructors["os.unlink"] = lambda ex, args, kwargs: call_ext(ex, "fs.unlink", VStr(as_str(ex, args[0])))
    R.constructors["os.path.isfile"] = lambda ex, args, kwargs: call_ext(ex, "fs.isfile", VStr(as_str(ex, args[0])))
    R.obj_method_hooks["is_file"] = lambda ex, recv, args, kwargs: call_ext(ex, "fs.isfile", VStr(ufs["py_str"](recv.t)))
    R.obj_method_hooks["write"] = lambda ex, recv, args, kwargs: call_ext(ex, "fs.write", recv, VStr(as_str(ex, args[0])))
    R.obj_method_hooks["read"] = lambda ex, recv, args, kwargs: call_ext(ex, "fs.read", recv)
    R.constructors["shutil.copyfileobj"] = lambda ex, args, kwargs: call_ext(ex, "fs.write", args[1], VStr(ufs["stream_str"](args[0].t)))

    def file_enter(ex, cm):
        return cm

    def file_exit(ex, cm, h):
        if getattr(ex, "with_exc", False):
            call_ext(ex, "fs.close_after_error", cm)
        else:
            # a file opened for reading: nothing to flush
            if ex.branch(ufs["fwrites"](cm.t)):
                call_ext(ex, "fs.close", cm)
    R.with_hooks["File"] = (file_enter, file_exit)

    # ---------------------------------------------------------------- the functions under contract
    STEP = ["GOOD(self)", "KEPT()"]
    R.contract(F + "_write_non_versioned_link", prop="C08", types={"self": FDS, "versioned_key": VKey}, ghost_params=FS_GHOSTS,
               requires=["GOOD(self)", "COMPLETE(VP(self, versioned_key.key, versioned_key.version))", "comp(versioned_key.version)"],
               ensures=["GOOD(self)", "KEPT()", "LINKS_SAME_BUT(LP(self, versioned_key.key))",
                        "LP(self, versioned_key.key) in ghost('files')",
                        "ghost('files')[LP(self, versioned_key.key)] == VP(self, versioned_key.key, versioned_key.version)"],
               raises={"OSError+": ["GOOD(self)", "KEPT()", "LINKS_SAME()"]},
               modifies=FS_MODS,
               labels={"vacuity_guard": True, "entry_axioms": PATH_AX,
                       "step_invariant": STEP + ["LINKS_SAME_BUT(LP(self, versioned_key.key))",
                                                 "LINK_OLD_OR(LP(self, versioned_key.key), VP(self, versioned_key.key, versioned_key.version))"]})

    R.contract(F + "output", prop="C08", types={"self": FDS, "key": DKey, "data": TObj("nn:BytesIO")}, returns=VKey, ghost_params=FS_GHOSTS,
               requires=["GOOD(self)"],
               ensures=["GOOD(self)", "KEPT()", "LINKS_SAME_BUT(LP(self, key.key))",
                        "result.key == key.key", "comp(result.version)",
                        "not old(VP(self, key.key, result.version) in ghost('files'))",
                        "COMPLETE(VP(self, key.key, result.version))",
                        "ghost('files')[VP(self, key.key, result.version)] == stream_str(data)",
                        "LP(self, key.key) in ghost('files')",
                        "ghost('files')[LP(self, key.key)] == VP(self, key.key, result.version)"],
               raises={"OSError+": ["GOOD(self)", "KEPT()", "LINKS_SAME()"]},
               modifies=FS_MODS,
               labels={"vacuity_guard": True, "entry_axioms": PATH_AX, "step_invariant": STEP + ["LINKS_SAME_BUT(LP(self, key.key))"]})

    # removing a link (forgetting the unversioned name of a key; NullStrategy.store does it for a None result under an override key): no other link and no
    # version file changes, at every step
    R.contract(F + "_delete_non_versioned_link", prop="C08", types={"self": FDS, "key": DKey}, ghost_params=FS_GHOSTS,
               requires=["GOOD(self)"],
               ensures=["GOOD(self)", "KEPT()", "LINKS_SAME_BUT(LP(self, key.key))", "LP(self, key.key) not in ghost('files')"],
               raises={"OSError+": ["GOOD(self)", "KEPT()", "LINKS_SAME()"]},
               modifies=FS_MODS,
               labels={"vacuity_guard": True, "entry_axioms": PATH_AX, "step_invariant": STEP + ["LINKS_SAME_BUT(LP(self, key.key))"]})
    R.contract(F + "delete_nonversioned_key", prop="C08", types={"self": FDS, "key": DKey}, ghost_params=FS_GHOSTS,
               requires=["GOOD(self)"],
               ensures=["GOOD(self)", "KEPT()", "LINKS_SAME_BUT(LP(self, key.key))", "LP(self, key.key) not in ghost('files')"],
               raises={"OSError+": ["GOOD(self)", "KEPT()", "LINKS_SAME()"]},
               modifies=FS_MODS,
               labels={"vacuity_guard": True, "entry_axioms": PATH_AX, "step_invariant": STEP + ["LINKS_SAME_BUT(LP(self, key.key))"]})
    R.contract(F + "_read_non_versioned_link", prop="C08", types={"self": FDS, "key": DKey}, returns=TObj("nn:Path"), ghost_params=FS_GHOSTS,
               when_raises={"OSError+": "LP(self, key.key) not in ghost('files')"},
               ensures=["py_str(result) == path_norm(ghost('files')[LP(self, key.key)])", "pkind(LP(self, key.key)) == 0", "lkey(LP(self, key.key)) == esc(key.key)"],
               labels={"vacuity_guard": True, "entry_axioms": PATH_AX})
    R.contract(F + "exists_nonversioned", prop="C08", types={"self": FDS, "key": DKey}, returns=TBool, ghost_params=FS_GHOSTS,
               requires=["GOOD(self)"],
               ensures=["result == (LP(self, key.key) in ghost('files'))"],
               labels={"vacuity_guard": True, "entry_axioms": PATH_AX})
    R.contract(F + "get_versioned_key", prop="C08", types={"self": FDS, "key": DKey}, returns=VKey, ghost_params=FS_GHOSTS,
               requires=["GOOD(self)"],
               when_raises={"OSError+": "LP(self, key.key) not in ghost('files')"},
               ensures=["result.key == key.key", "comp(result.version)", "COMPLETE(VP(self, key.key, result.version))",
                        "VP(self, key.key, result.version) == ghost('files')[LP(self, key.key)]"],
               labels={"vacuity_guard": True, "entry_axioms": PATH_AX})
    R.contract(F + "exists_versioned", prop="C08", types={"self": FDS, "key": VKey}, returns=TBool, ghost_params=FS_GHOSTS,
               ensures=["result == (VP(self, key.key, key.version) in ghost('files'))"],
               labels={"vacuity_guard": True, "entry_axioms": PATH_AX})
    R.contract(F + "input_nonversioned", prop="C08", types={"self": FDS, "key": DKey}, returns=TObj("nn:File"), ghost_params=FS_GHOSTS,
               requires=["GOOD(self)"],
               when_raises={"OSError+": "LP(self, key.key) not in ghost('files')"},
               ensures=["fpath(result) == ghost('files')[LP(self, key.key)]", "COMPLETE(fpath(result))"],
               labels={"vacuity_guard": True, "entry_axioms": PATH_AX})
    R.contract(F + "input_versioned", prop="C08", types={"self": FDS, "key": VKey}, returns=TObj("nn:File"), ghost_params=FS_GHOSTS,
               when_raises={"OSError+": "VP(self, key.key, key.version) not in ghost('files')"},
               ensures=["fpath(result) == VP(self, key.key, key.version)"],
               labels={"vacuity_guard": True, "entry_axioms": PATH_AX})

    # ---------------------------------------------------------------- the metadata source on top of the data source (storage_base.py:924-981)
    R.entity("DataSourceMetadataSource", ("storage_base", "DataSourceMetadataSource"), dict(data_source=FDS))
    DMS = TEnt("DataSourceMetadataSource")
    R.opaque_class("FunctionReferenceWithArgHash", "reference")
    FWH = TObj("nn:FunctionReferenceWithArgHash")
    R.uf("meta_key", [TObj()], TStr)
    R.uf("memento_json", [TObj()], TStr)
    R.uf("fwh_of", [TObj()], TObj())
    D = "storage_base:DataSourceMetadataSource."
    R.contract(D + "_get_metadata_path", assumed=True, types={"fn_with_arg_hash": FWH}, returns=DKey, ensures=["result.key == meta_key(fn_with_arg_hash)"],
               notes="key of the memento of a (function, argument hash) pair")
    R.contract(D + "_read_memento", assumed=True, types={"self": DMS, "path": DKey}, returns=TObj("nn:Memento"),
               raises={"OSError+": [], "FunctionNotFoundError": []}, ensures=[],
               notes="reads and decodes the memento JSON; any I/O error (a missing or unreadable file) surfaces as OSError")
    R.contract(D + "get_mementos", prop="C08", types={"self": DMS, "fns": TList(FWH)}, returns=TList(TObj("Memento")), ghost_params=FS_GHOSTS,
               ensures=["len(result) == len(fns)"],
               loops={0: ["len(results) == loop_i"]},
               labels={"vacuity_guard": True, "local_types": {"results": TList(TObj("Memento"))}},
               notes="no raises clause: an OSError (or an unknown function) while reading a memento must not escape -- the entry is None and the caller recomputes")
