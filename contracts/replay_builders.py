"""Native meanings of the uninterpreted functions used in contract clauses, for the generic native replay
(pyvc/native_replay.py, run under /venv/bin/python -- no z3 import here)."""
import contextlib
from pathlib import Path

BUILDERS = {}   # fid -> callable(replay) -> result dict, for functions that need a bespoke harness
PATCHES = {}    # fid -> context-manager factory (replay, builder, args) patching assumed externals with the model's values


class _Und(Exception):
    pass


def _undecidable(name):
    def f(*a):
        from pyvc.native_replay import Undecidable
        raise Undecidable("uninterpreted function %s has no native meaning" % name)
    return f


def natives(rp, builder):
    mods = rp.get("modules") or []
    n = {}
    if "config" in mods:
        n.update({"num_of": float, "py_str": str, "path_norm": lambda s: str(Path(s)), "path_expand": lambda s: str(Path(s).expanduser()),
                  "path_join": lambda a, b: str(Path(a).joinpath(b)), "dump_of": lambda o: o.to_dict(),
                  "storage_created": _undecidable("storage_created"), "runner_created": _undecidable("runner_created"),
                  "instantiate": lambda c, cfg: _undecidable("instantiate")(), "codec_of": _undecidable("codec_of"),
                  "DEFAULT_STORAGE_CONFIG_": lambda: {}, "DEFAULT_RUNNER_CONFIG_": lambda: {}})
    if "memory_cache" in mods or "storage" in mods or "codec" in mods or "nullbackends" in mods:
        n.update({"absval": lambda x: x})
    return n


@contextlib.contextmanager
def _stub_codec_create(rp, builder, args):
    """Codec.create is an assumed external in the C18 contracts (codec selection is outside the option list): the replay
    substitutes a placeholder codec for it, as the proof does."""
    from unittest import mock
    from twosigma.memento import storage_base
    with mock.patch.object(storage_base.Codec, "create", classmethod(lambda cls, codec_type, config=None: ("codec", codec_type))):
        builder.notes.append("Codec.create stubbed (assumed external in this contract)")
        yield


PATCHES["storage_filesystem:FilesystemStorageBackend.__init__"] = _stub_codec_create
PATCHES["storage_base:StorageBackendBase.__init__"] = _stub_codec_create


@contextlib.contextmanager
def _stub_environment(rp, builder, args):
    """Environment.get() is modelled as an opaque environment in the C13 contracts: the replay substitutes one whose clusters are
    unlocked (get_cluster -> None), and keeps FunctionReference construction out of the way (it needs a live function object)."""
    from unittest import mock
    from twosigma.memento import configuration, memento

    class _Env:
        def get_cluster(self, cluster_name=None):
            return None
    with mock.patch.object(configuration.Environment, "get", staticmethod(lambda: _Env())), \
            mock.patch.object(memento, "FunctionReference", lambda *a, **k: ("FunctionReference", k.get("version"))):
        builder.notes.append("Environment.get() stubbed with an environment whose clusters are unlocked; FunctionReference stubbed")
        yield


for _f in ("_update_dependencies", "version", "fn_reference", "hash_rules", "_update_fn_reference"):
    PATCHES["memento:MementoFunction." + _f] = _stub_environment


def _names_natives():
    import inspect
    return {"version_of": lambda mf: mf.version(), "callable_obj": lambda f: inspect.isfunction(f), "has_attr": hasattr, "normalized": _undecidable("normalized"),
            "sig_of": inspect.signature, "keys_of": lambda m: m.keys(), "aslist": list, "astuple": tuple}


_old_natives = natives


def natives(rp, builder):   # noqa: F811
    n = _old_natives(rp, builder)
    if "names" in (rp.get("modules") or []):
        n.update(_names_natives())
    return n


def _replay_from_exception(rp):
    """Bespoke harness: the model describes an exception object through its class's __module__ / __qualname__ / __name__; a real
    exception class with exactly those attributes is created, MementoException.from_exception is run on an instance, and the recorded
    name is compared with language::module:qualified-name (the clause's meaning)."""
    from twosigma.memento.exception import MementoException
    m = rp.get("counter_model") or {}
    cls_attrs = (((m.get("e") or {}).get("attrs") or {}).get("__class__") or {}).get("attrs") or {}
    mod, qual, name = cls_attrs.get("__module__"), cls_attrs.get("__qualname__"), cls_attrs.get("__name__")
    if not isinstance(mod, str) or not isinstance(qual, str):
        return {"reproduced": None, "detail": "the counter-model does not give the exception class's __module__ / __qualname__"}
    if not isinstance(name, str) or not name:
        name = qual.rsplit(".", 1)[-1] or "E"
    if ":" in mod or ":" in qual:
        return {"reproduced": None, "detail": "model violates the precondition (':' in module or qualified name)"}
    cls = type(name if name.isidentifier() else "E", (Exception,), {})
    cls.__module__, cls.__qualname__ = mod, qual
    try:
        cls.__name__ = name
    except Exception:
        pass
    try:
        me = MementoException.from_exception(cls("boom"))
    except Exception as e:
        return {"reproduced": rp.get("kind") == "exception-freedom", "detail": "from_exception raised %r" % e, "inputs": "class module=%r qualname=%r name=%r" % (mod, qual, name)}
    want = "python::%s:%s" % (mod, qual)
    ok = me.exception_name == want
    return {"reproduced": not ok, "detail": "recorded name %r, required %r" % (me.exception_name, want), "inputs": "exception class with __module__=%r __qualname__=%r __name__=%r" % (mod, qual, name)}


BUILDERS["exception:MementoException.from_exception"] = _replay_from_exception


def _args_natives(ns_get):
    def name_index(pn, k):
        return list(pn).index(k) if k in list(pn) else -1

    def free_rank(f, p):
        pn = list(f.fn_reference.parameter_names)
        b1 = ns_get("B1")
        return sum(1 for q in range(min(p, len(pn))) if not b1(f, pn[q]))
    return {"name_index": name_index, "free_rank": free_rank}


_prev_natives2 = natives


def natives(rp, builder):   # noqa: F811
    n = _prev_natives2(rp, builder)
    if "args" in (rp.get("modules") or []):
        holder = {}
        n.update(_args_natives(lambda name: holder["ns"][name]))
        n["__bind_ns__"] = holder
    return n


def crash_replay(rp):
    """C08: fault-injection replay of a failed crash-invariant obligation on the real code (contracts/crash_replay.py)."""
    from contracts.crash_replay import crash_replay as f
    return f(rp)


_SEED_CHILD = r'''
import json, sys
sys.path.insert(0, sys.argv[1])
from twosigma.memento import code_hash
cands = {
    "frozenset({1, '1'})": frozenset({1, "1"}),
    "frozenset({'alpha','beta','gamma','delta','epsilon'})": frozenset({"alpha", "beta", "gamma", "delta", "epsilon"}),
    "frozenset({('x', 1), ('y', 2), ('z', 3)})": frozenset({("x", 1), ("y", 2), ("z", 3)}),
    "frozenset({1.5, '1.5', b'1.5'})": frozenset({1.5, "1.5", b"1.5"}),
    "(frozenset({'p','q','r'}), frozenset({2, '2'}))": (frozenset({"p", "q", "r"}), frozenset({2, "2"})),
    "frozenset({frozenset({'a','b','c'}), 'd', 'e'})": frozenset({frozenset({"a", "b", "c"}), "d", "e"}),
}
out = {}
if hasattr(code_hash, "_stable_repr"):
    for k, v in cands.items():
        out["_stable_repr(%s)" % k] = code_hash._stable_repr(v)
srcs = {
    "fn_code_hash(def g(flag): return flag in {1, '1'})": "def g(flag):\n    return flag in {1, '1'}\n",
    "fn_code_hash(def g(w): return w in {'alpha','beta','gamma','delta','epsilon'})": "def g(w):\n    return w in {'alpha', 'beta', 'gamma', 'delta', 'epsilon'}\n",
    "fn_code_hash(def g(t): return t in {('x', 1), ('y', 2), ('z', 3)})": "def g(t):\n    return t in {('x', 1), ('y', 2), ('z', 3)}\n",
    "fn_code_hash(nested: def g(w): return (lambda v: v in {'a','b','c','d'})(w))": "def g(w):\n    return (lambda v: v in {'a', 'b', 'c', 'd'})(w)\n",
}
for k, src in srcs.items():
    ns = {}
    exec(compile(src, "<c03-replay>", "exec"), ns)
    out[k] = code_hash.fn_code_hash(ns["g"])
print(json.dumps(out))
'''


def _replay_seed_independence(rp):
    """C03: a failed hash-seed-independence obligation cannot be replayed from the counter-model (a process has ONE hash seed, and the model's
    objects are not constructible): the replay renders a fixed family of constants / hashes a fixed family of functions with the real code in
    child processes under PYTHONHASHSEED 0..15 and reports the first whose output differs between seeds."""
    if "seed_independent" not in (rp.get("clause") or ""):
        from pyvc.native_replay import run
        return run(rp)
    import json
    import os
    import subprocess
    import sys
    repo = rp.get("repo") or os.environ.get("PYVC_REPO", "/repo")
    outs = {}
    for seed in range(16):
        p = subprocess.run([sys.executable, "-c", _SEED_CHILD, repo], capture_output=True, text=True, timeout=120, env=dict(os.environ, PYTHONHASHSEED=str(seed)))
        if p.returncode != 0:
            return {"reproduced": None, "detail": "seed replay child failed: " + p.stderr[-500:]}
        outs[seed] = json.loads(p.stdout)
    for k in outs[0]:
        vals = {}
        for seed, o in outs.items():
            vals.setdefault(o[k], []).append(seed)
        if len(vals) > 1:
            return {"reproduced": True, "detail": "%s differs between processes: %s" % (k, "; ".join("PYTHONHASHSEED in %s -> %r" % (v, r) for r, v in list(vals.items())[:3])),
                    "inputs": k, "explored": "%d expressions x 16 hash seeds" % len(outs[0])}
    return {"reproduced": False, "detail": "no expression of the fixed family renders differently under PYTHONHASHSEED 0..15", "explored": "%d expressions x 16 hash seeds" % len(outs[0])}


BUILDERS["code_hash:_stable_repr"] = _replay_seed_independence
BUILDERS["code_hash:fn_code_hash.<locals>.hash_if_code_object"] = _replay_seed_independence


def _replay_binding_law(rp):
    """C04: a failed obligation of _compute_effective_kwargs is confirmed natively on the real method by a search over a small family of signatures and
    presentations (the counter-model's opaque argument structures are not rebuilt): parameter lists of up to 4 names, every subset bound by partial keywords,
    every split of the remaining values into partial positional / call positional / call keyword arguments.  The oracle is the law the property states:
    f.partial(*pa, **pk)(*a, **k) binds what f(*pa, *a, **pk, **k) binds -- positional arguments, partial ones first, fill in order the parameters no partial
    keyword binds; call keywords override."""
    import itertools
    import os
    import sys
    import types
    repo = rp.get("repo") or os.environ.get("PYVC_REPO", "/repo")
    if repo not in sys.path:
        sys.path.insert(0, repo)
    from twosigma.memento.reference import FunctionReferenceWithArguments as FWA
    names_all = ["a", "b", "c", "d"]
    tried = 0
    for n in range(1, 5):
        names = names_all[:n]
        for pk_names in itertools.chain.from_iterable(itertools.combinations(names, r) for r in range(0, n + 1)):
            free = [x for x in names if x not in pk_names]
            for n_pa in range(0, len(free) + 1):
                for n_a in range(0, len(free) - n_pa + 1):
                    rest = free[n_pa + n_a:]
                    for kw_names in itertools.chain.from_iterable(itertools.combinations(rest, r) for r in range(0, len(rest) + 1)):
                        pk = {x: "pk_" + x for x in pk_names}
                        pa = tuple("pos_%d" % i for i in range(n_pa))
                        a = tuple("pos_%d" % (n_pa + i) for i in range(n_a))
                        k = {x: "kw_" + x for x in kw_names}
                        expected = dict(pk)
                        for i, v in enumerate(pa + a):
                            expected[free[i]] = v
                        expected.update(k)
                        obj = object.__new__(FWA)
                        obj.fn_reference = types.SimpleNamespace(parameter_names=list(names), partial_args=pa, partial_kwargs=dict(pk))
                        obj.args, obj.kwargs = a, dict(k)
                        tried += 1
                        try:
                            got = obj._compute_effective_kwargs()
                        except Exception as e:  # noqa
                            got = "raised %s: %s" % (type(e).__name__, e)
                        if got != expected:
                            return {"reproduced": True, "detail": "parameters %r, partial(%s%s), call(%s%s): bound %r, the law gives %r" % (
                                names, ", ".join(map(repr, pa)), "".join(", %s=%r" % kv for kv in pk.items()), ", ".join(map(repr, a)),
                                "".join(", %s=%r" % kv for kv in k.items()), got, expected),
                                "inputs": {"parameter_names": names, "partial_args": list(pa), "partial_kwargs": pk, "args": list(a), "kwargs": k}, "explored": "%d presentations" % tried}
    return {"reproduced": False, "detail": "the binding law holds on all %d presentations of the family" % tried, "explored": "%d presentations" % tried}


BUILDERS["reference:FunctionReferenceWithArguments._compute_effective_kwargs"] = _replay_binding_law
