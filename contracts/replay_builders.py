"""Concretisation of counter-models into real objects, and native evaluation against the real code."""
BUILDERS = {}
