"""Contracts for qualified names (property C12): FunctionReference.parse_qualified_name against the name construction,
from_qualified_name's fall-back to external references, and (C02) the MementoException name round trip.

The regular expressions are read from the real source and translated mechanically (pyvc/regex.py); the contract supplies the
intended decomposition as a hint, the proof shows that no decomposition the backtracking engine prefers exists.
"""
import z3

from pyvc.ty import *  # noqa
from pyvc.engine import PyRaise, Unsupported


def load(R):
    # ---- the qualified-name format, as FunctionReference.__init__ builds it (proved below for the real constructor)
    R.spec("BUILD", ["c", "m", "f", "v"], "(c + '::' if c is not None else '') + m + ':' + f + ('#' + v if v is not None else '')")
    R.spec("NAME_PART", ["x"], "len(x) > 0 and ':' not in x and '#' not in x and '\\n' not in x")
    # admissible parts: module and function are non-empty and contain neither ':' nor '#'; a cluster contains no '::' (and, for the
    # unambiguous sub-domain, no '#': a cluster containing '#' and a version containing '::' can build the same string);
    # versions are arbitrary single-line strings, including ':' and '#'
    # AMBIGUOUS(c): the cluster itself reads as "module:function#..." -- then  c::m:f  is also the name of function `c`'s prefix with a
    # version containing '::'; the format cannot tell the two apart (inherent; recorded as a known finding)
    R.spec("AMBIGUOUS", ["c"], "full_match(c, '[^:#]*:[^:#]*#.*')")
    R.spec("PARTS_OK", ["c", "m", "f", "v"], "NAME_PART(m) and NAME_PART(f) and implies(c is not None, '::' not in c and '\\n' not in c) and implies(v is not None, '\\n' not in v)")
    # proved domain: clusters that do not contain both ':' and '#' (a subset of the unambiguous ones; clusters such as 'a#b:c' are unambiguous but not covered)
    R.spec("ADMISSIBLE", ["c", "m", "f", "v"], "PARTS_OK(c, m, f, v) and implies(c is not None, '#' not in c or ':' not in c)")
    GP = {"c": TOpt(TStr), "m": TStr, "f": TStr, "v": TOpt(TStr)}
    PARTS = TDict(TStr, TOpt(TStr))
    R.contract("reference:FunctionReference.parse_qualified_name", prop="C12", types={"qualified_name": TStr}, returns=PARTS, ghost_params=GP,
               requires=["ADMISSIBLE(ghost('c'), ghost('m'), ghost('f'), ghost('v'))", "qualified_name == BUILD(ghost('c'), ghost('m'), ghost('f'), ghost('v'))"],
               ensures=["'cluster' in result and result['cluster'] == ghost('c')", "'module' in result and result['module'] == ghost('m')",
                        "'function' in result and result['function'] == ghost('f')", "'version' in result and result['version'] == ghost('v')"],
               labels={"regex_hints": [{"cluster": "ghost('c')", "module": "ghost('m')", "function": "ghost('f')", "version": "ghost('v')"}]})

    load_refs(R)
    load_lookup(R)
    # the residual, format-inherent ambiguity as its own obligation set: clusters that read as "module:function#..."
    R.contract("reference:FunctionReference.parse_qualified_name@ambiguous-cluster", prop="C12", types={"qualified_name": TStr}, returns=PARTS, ghost_params=GP,
               requires=["PARTS_OK(ghost('c'), ghost('m'), ghost('f'), ghost('v'))", "ghost('c') is not None and AMBIGUOUS(ghost('c'))",
                         "qualified_name == BUILD(ghost('c'), ghost('m'), ghost('f'), ghost('v'))"],
               ensures=["'cluster' in result and result['cluster'] == ghost('c')"],
               labels={"regex_hints": [{"cluster": "ghost('c')", "module": "ghost('m')", "function": "ghost('f')", "version": "ghost('v')"}]})


def load_refs(R):
    """FunctionReference.__init__ (name construction), from_qualified_name, UnboundExternalMementoFunction.__init__."""
    for a, t in dict(cluster_name=TOpt(TStr), fn=TObj(), qualified_name_without_version=TStr, __module__=TStr, __name__=TStr, parameters=TObj("nn:mapping")).items():
        R.attr(a, t)
    for n, (a, r) in dict(version_of=([TObj()], TStr), normalized=([TObj()], TObj()), sig_of=([TObj()], TObj()), keys_of=([TObj()], TObj()), aslist=([TObj()], TObj()),
                          astuple=([TObj()], TObj()), found_fn=([TStr, TStr, TOpt(TStr)], TObj()), py_eq=([TObj(), TObj()], TBool)).items():
        R.uf(n, a, r)
    ufs = {k: v[0] for k, v in R.ufs.items()}
    R.entity("FunctionReference", ("reference", "FunctionReference"), dict(
        external=TBool, _cluster_name=TOpt(TStr), _module=TStr, _function_name=TStr, _qualified_name=TStr, _qualified_name_without_cluster=TStr,
        qualified_name_without_version=TStr, _partial_args=TObj(), _partial_kwargs=TObj(), _memento_fn=TObj(), parameter_names=TObj()))
    FRE = TEnt("FunctionReference")
    MFT = TObj("nn:MementoFunctionType")
    R.obj_method_hooks["version"] = lambda ex, recv, args, kwargs: VStr(ufs["version_of"](recv.t))
    R.obj_uf_methods["version"] = "version_of"
    R.obj_method_hooks["keys"] = lambda ex, recv, args, kwargs: VObj(ufs["keys_of"](recv.t))
    R.external("inspect.signature", returns=TObj("nn:Signature"), raises={"TypeError": ["not callable_obj(arg0)"]}, ensures=["callable_obj(arg0)", "same(result, sig_of(arg0))"])
    R.uf("callable_obj", [TObj()], TBool)
    R.uf("has_attr", [TObj(), TObj()], TBool)
    R.contract("reference:ArgumentHasher.normalize", assumed=True, types={"obj": TObj()}, returns=TObj(), ensures=["same(result, normalized(obj))"],
               notes="argument normalisation is C04's subject")

    def passthrough(name):
        def f(ex, args, kwargs):
            if not args:
                return ex.new_box(EmptyV("list")) if name == "aslist" else VTuple([])
            v = args[0]
            if isinstance(v, VCont):
                c = ex.cont(v)
                if isinstance(c, EmptyV):
                    return v if name == "aslist" else VTuple([])
                v = VObj(ex.box(v))
            if isinstance(v, VTuple) and not v.items:
                return v
            if not isinstance(v, VObj):
                raise Unsupported("%s(%r)" % (name, v))
            return VObj(ufs[name](v.t))
        return f
    R.constructors["list"] = passthrough("aslist")
    R.constructors["tuple"] = passthrough("astuple")
    from pyvc.engine import EmptyV

    # names must not be None when taken from the function; a live memento function has a plain function behind it
    R.spec("LIVE", ["mf"], "mf.fn is not None and callable_obj(mf.fn)")
    R.spec("BASE", ["mf", "module_name", "function_name"], "mf.qualified_name_without_version if mf.fn is not None else "
           "(module_name if module_name is not None else mf.fn.__module__) + ':' + (function_name if function_name is not None else mf.fn.__name__)")
    R.spec("VERSION_OF", ["mf", "version"], "version if version is not None else version_of(mf)")
    R.contract("reference:FunctionReference.__init__", prop="C12",
               types={"self": FRE, "memento_fn": MFT, "cluster_name": TOpt(TStr), "version": TOpt(TStr), "partial_args": TObj(), "partial_kwargs": TObj(),
                      "module_name": TOpt(TStr), "function_name": TOpt(TStr), "parameter_names": TObj(), "external": TBool},
               requires=["isinstance(memento_fn, MementoFunctionType)",
                         # a stub (no function behind it) is described by explicit module, function and parameter names; a live function can be introspected
                         "implies(memento_fn.fn is None, module_name is not None and function_name is not None and parameter_names is not None and external)",
                         "implies(memento_fn.fn is not None, callable_obj(memento_fn.fn) and has_attr(memento_fn.fn, '__module__'))",
                         # admissible name parts (module / function without ':' and '#', cluster without '::'); versions are arbitrary
                         "implies(module_name is not None, NAME_PART(module_name))", "implies(function_name is not None, NAME_PART(function_name))",
                         "implies(cluster_name is not None, '::' not in cluster_name)"],
               ensures=["self.external == external",
                        "self._cluster_name == (cluster_name if cluster_name is not None else (None if external else memento_fn.cluster_name))",
                        "self._module == (module_name if module_name is not None else memento_fn.fn.__module__)",
                        "self._function_name == (function_name if function_name is not None else memento_fn.fn.__name__)",
                        # the qualified name: [cluster ::] module : function [# version] -- the cluster prefix is present whenever a cluster is given
                        "implies(memento_fn.fn is None, self._qualified_name == BUILD(cluster_name, module_name, function_name, VERSION_OF(memento_fn, version)))",
                        "implies(memento_fn.fn is not None and cluster_name is None, self._qualified_name == memento_fn.qualified_name_without_version + '#' + VERSION_OF(memento_fn, version))",
                        "same(self.parameter_names, parameter_names if parameter_names is not None else aslist(keys_of(sig_of(memento_fn.fn).parameters)))",
                        "same(self._memento_fn, memento_fn)"],
               labels={"asserts_assumed": False}, modifies=["self.*"])


def load_lookup(R):
    """from_qualified_name and the external stub it falls back to."""
    FRE = TEnt("FunctionReference")
    MFT = TObj("nn:MementoFunctionType")
    GP = {"c": TOpt(TStr), "m": TStr, "f": TStr, "v": TOpt(TStr)}
    R.entity("UnboundExternalMementoFunction", ("external", "UnboundExternalMementoFunction"), dict(
        _fn_reference=TOpt(FRE), _version=TOpt(TStr), context=TObj(), qualified_name_without_version=TStr, code_hash=TObj(), function_type=TStr, _hash_rules=TObj()))
    UE = TEnt("UnboundExternalMementoFunction")
    R.func_hooks["base:MementoFunctionBase.__init__"] = lambda ex, args, kwargs: VNone
    R.constructors["InvocationContext"] = lambda ex, args, kwargs: VObj(ex.fresh_obj("InvocationContext"), "InvocationContext")
    R.plain_truthy.add("InvocationContext")
    R.contract("reference:FunctionReference._find_function", assumed=True,
               types={"module": TStr, "function_name": TStr, "version": TOpt(TStr), "partial_args": TObj(), "partial_kwargs": TObj()}, returns=MFT,
               raises={"ModuleNotFoundError": [], "ValueError+": [], "AttributeError": [], "Exception+": []},
               ensures=["isinstance(result, MementoFunctionType)", "result.fn is not None and callable_obj(result.fn) and has_attr(result.fn, '__module__')",
                        "implies(version is not None, version_of(result) == version)"],
               notes="the lookup imports the module named in the stored string (user code: ImportError, SyntaxError, anything its top level raises, TypeError for a relative name) "
                     "and walks attributes: it may raise ANY exception; a found function is a live memento function of that version")
    E = "external:"
    R.contract(E + "UnboundExternalMementoFunction.__init__", prop="C12", ghost_params=GP,
               inline_callees=["external:ExternalMementoFunctionBase.__init__"],
               types={"self": UE, "context": TObj("InvocationContext"), "cluster_name": TOpt(TStr), "module_name": TOpt(TStr), "function_name": TOpt(TStr), "version": TOpt(TStr),
                      "partial_args": TObj(), "partial_kwargs": TObj(), "parameter_names": TObj(), "fn_reference": TOpt(FRE)},
               requires=["fn_reference is None", "ADMISSIBLE(ghost('c'), ghost('m'), ghost('f'), ghost('v'))",
                         "cluster_name == ghost('c') and module_name == ghost('m') and function_name == ghost('f') and version == ghost('v')",
                         "module_name is not None and function_name is not None and version is not None and parameter_names is not None"],
               ensures=["self._fn_reference is not None and self._fn_reference.external",
                        # the stub's reference carries exactly the name it was asked for -- in the default cluster as well as in a named one
                        "self._fn_reference._qualified_name == BUILD(cluster_name, module_name, function_name, version)",
                        "self._version == version",
                        # ... and the parameter names that were recorded with the stored reference
                        "same(self._fn_reference.parameter_names, parameter_names)",
                        # the stub's reference points back at the stub: a reference reported as external still has a function object behind it
                        "implies(fn_reference is None, same(self._fn_reference._memento_fn, self))"],
               modifies=["self.*"])
    R.contract("reference:FunctionReference.from_qualified_name", prop="C12", ghost_params=GP,
               types={"qualified_name": TStr, "partial_args": TObj(), "partial_kwargs": TObj(), "parameter_names": TObj(), "external": TBool}, returns=TOpt(FRE),
               requires=["ADMISSIBLE(ghost('c'), ghost('m'), ghost('f'), ghost('v'))", "ghost('v') is not None", "qualified_name == BUILD(ghost('c'), ghost('m'), ghost('f'), ghost('v'))"],
               # reading a stored name never raises, whichever of {module missing, attribute missing, not a memento function, version mismatch} happens
               ensures=["result is not None",
                        # "reported as external references": a reference always has a function object behind it -- the one found, or the unbound external stub -- never nothing
                        "result._memento_fn is not None",
                        "implies(result.external, result._qualified_name == qualified_name)",
                        "implies(external, result.external)",
                        # from the property ("an entry whose own version is current is served ... references to versions that no longer exist are reported as
                        # external references"): the parameter names recorded with a stored reference are the names its stored arguments bind to -- a function found
                        # under the same name and version but with another signature is not the recorded one
                        "implies(parameter_names is not None and truthy(parameter_names), same(result.parameter_names, parameter_names) or py_eq(result.parameter_names, parameter_names))"])
