"""Contracts for the code hash (properties C01 -- completeness of the hash input -- and C03 -- independence of the process hash seed):
fn_code_hash and its nested hash_if_code_object.

Ghost 'hashed' : the set of objects serialised into the text that is hashed (json.dumps of the attribute list records every
element).  Completeness (C01): for every behavioural attribute named by the property, (an injective view of) its value is in
'hashed'.  Determinism (C03): the text does not depend on the process hash seed -- repr() is modelled per value class, only the
listed classes have a seed-independent repr.
"""
import z3

from pyvc.ty import *  # noqa
from pyvc.engine import PyRaise, Unsupported

CODE_ATTRS = ["co_exceptiontable", "co_posonlyargcount", "co_argcount", "co_code", "co_cellvars", "co_consts", "co_flags", "co_freevars", "co_kwonlyargcount", "co_name", "co_names", "co_nlocals", "co_stacksize", "co_varnames"]
# the behavioural attributes named by property C01
BEH_CODE = ["co_code", "co_consts", "co_names", "co_varnames", "co_freevars", "co_cellvars", "co_argcount", "co_kwonlyargcount", "co_flags",
            # not in the list fn_code_hash hashes, but behavioural ("edits to function bodies"): the exception table decides which handler an instruction
            # jumps to (try/except vs try/except/else can share one co_code), co_posonlyargcount decides how arguments bind
            "co_exceptiontable", "co_posonlyargcount"]
BEH_FN = ["__defaults__", "__kwdefaults__"]


def load(R):
    for a in CODE_ATTRS + ["__code__", "__wrapped__", "fn"] + BEH_FN:
        R.attr(a, TObj())
    for n, (a, r) in dict(b64=([TObj()], TObj()), decoded=([TObj()], TObj()), hashrel=([TObj(), TObj()], TBool), stable_repr=([TObj()], TStr), repr_seeded=([TObj(), TObj()], TStr),
                          json_text=([TObj()], TStr), utf8=([TStr], TObj()), sha256hex=([TObj()], TStr), bytes_concat=([TObj(), TObj()], TObj()), empty_bytes=([], TObj()),
                          has_attr=([TObj(), TObj()], TBool), aslist=([TObj()], TObj()), astuple=([TObj()], TObj()), seed_free=([TObj()], TBool)).items():
        R.uf(n, a, r)
    ufs = {k: v[0] for k, v in R.ufs.items()}
    from .common import sequence_passthrough
    sequence_passthrough(R, ufs)
    R.attr("hashed_bytes", TObj(), mutable=True)
    HS = TSet(TObj())

    def sha256(ex, args, kwargs):
        h = ex.fresh_obj("sha256")
        ex.st.objheap["hashed_bytes"] = z3.Store(ex.heap_arr("hashed_bytes", TObj()), h, ufs["empty_bytes"]())
        return VObj(h, "sha256")
    R.constructors["hashlib.sha256"] = sha256

    def sha_update(ex, recv, args, kwargs):
        cur = ex.heap_arr("hashed_bytes", TObj())[recv.t]
        ex.st.objheap["hashed_bytes"] = z3.Store(ex.heap_arr("hashed_bytes", TObj()), recv.t, ufs["bytes_concat"](cur, ex.box(args[0])))
        return VNone
    R.obj_method_hooks["update"] = sha_update
    R.obj_method_hooks["hexdigest"] = lambda ex, recv, args, kwargs: VStr(ufs["sha256hex"](ex.heap_arr("hashed_bytes", TObj())[recv.t]))
    R.external("base64.b64encode", returns=TObj("nn:bytes"), ensures=["same(result, b64(arg0))"])
    R.obj_method_hooks["decode"] = lambda ex, recv, args, kwargs: VObj(ufs["decoded"](recv.t))

    def json_dumps(ex, args, kwargs):
        """json.dumps(values, sort_keys=True): the text is a function of the list object; every element of the list is recorded as hashed."""
        v = args[0]
        if not isinstance(v, VCont) or not isinstance(ex.cont(v), ListV):
            raise Unsupported("json.dumps of %r" % (v,))
        lst = ex.cont(v)
        h = ex.st.ghost.get("hashed")
        if h is not None:
            c = ex.cont(h)
            mem2 = ex.fresh("hashedmem", c.mem.sort())
            old, arr, n = c.mem, lst.arr, lst.n
            inv = ex.fresh("hashedsrc", z3.ArraySort(ObjSort, z3.IntSort()))
            ex.add_universal([TInt], lambda i: z3.Implies(z3.And(0 <= i, i < n), mem2[arr[i]]), "hashed-elements")
            ex.add_universal([TObj()], lambda x: z3.Implies(mem2[x], z3.Or(old[x], z3.And(0 <= inv[x], inv[x] < n, arr[inv[x]] == x))), "hashed-only-elements")
            ex.add_universal([TObj()], lambda x: z3.Implies(old[x], mem2[x]), "hashed-grows")
            cnt = ex.fresh("hashedcount", z3.IntSort())
            ex.assume(cnt >= 0)
            ex.set_cont(h, c.replace(mem=mem2, count=cnt))
        return VStr(ufs["json_text"](ex.box(v)))
    R.constructors["json.dumps"] = json_dumps
    R.assume("json.dumps(list, sort_keys=True) is an injective rendering of the list of plain values; base64 / utf-8 are injective; SHA-256 is treated as injective")

    def repr_hook(ex, args, kwargs):
        o = ex.box(args[0])
        ex.touch(TObj(), o)
        return VStr(ufs["repr_seeded"](o, z3.Const("the_hash_seed", ObjSort)))
    R.constructors["repr"] = repr_hook

    # C03 value table (domain of constants): everything except frozensets and tuples renders seed-independently; the empty frozenset too
    VALUE_TABLE = ["[C03] implies(not isinstance(o, frozenset) and not isinstance(o, tuple), seed_free(o))",
                   "[C03] implies(isinstance(o, frozenset) and not truthy(o), seed_free(o))",
                   "[C03] not (isinstance(o, frozenset) and isinstance(o, tuple))"]
    VALUE_TABLE_NONCODE = ["[C03] implies(not isinstance(o, CodeType) and not isinstance(o, frozenset) and not isinstance(o, tuple), seed_free(o))",
                           "[C03] implies(isinstance(o, frozenset) and not truthy(o), seed_free(o))",
                           "[C03] not (isinstance(o, frozenset) and isinstance(o, tuple))"]
    NESTED = "code_hash:fn_code_hash.<locals>.hash_if_code_object"
    GH = {"hashed": HS, "hash_seed": TObj()}
    R.spec("VIEWED", ["x"], "x in ghost('hashed')")
    R.spec("CONSTS_VIEW", ["t", "cs"], "t is not None and len(t) == len(cs) and forall(int, lambda j: implies(0 <= j and j < len(cs), hashrel(t[j], cs[j])))")
    views = {"co_code": "decoded(b64(o.co_code))", "co_consts": None}
    ens = []
    for a in BEH_CODE:
        if a == "co_consts":
            # constants, recursively: the tuple of what each constant hashes / renders to (nested code objects through this same function)
            # (the witness is named through the local list: the 4th entry; a reordering of the list makes this clause undecidable, not wrong)
            ens.append("[C01] implies(isinstance(o, CodeType), VIEWED(attr_values[3]) and CONSTS_VIEW(attr_values[3], o.co_consts))")
        else:
            ens.append("[C01] implies(isinstance(o, CodeType), VIEWED(%s))" % views.get(a, "o." + a))
    R.contract(NESTED, prop="C01", types={"o": TObj()}, returns=TStr, ghost_params=GH,
               requires=["implies(isinstance(o, CodeType), o.co_consts is not None)"],
               ensures=ens + [
                   # what is returned for a code object is the digest of: environment (if any), salt (if any), then the JSON text of the attribute list
                   "[effect] hashrel(result, o)",
                   # a constant that is not a code object is rendered by repr() of the constant itself (injective on constants: assumed), nothing coarser
                   "implies(not isinstance(o, CodeType), rendering_of(result, o))",
                   # C03: a non-code constant is rendered by repr(); the rendering must not depend on the process hash seed
                   "[C03] implies(not isinstance(o, CodeType), seed_independent(result))",
                   "forall(obj, lambda x: implies(old(x in ghost('hashed')), x in ghost('hashed')))"],
               labels={"free_vars": {"environment": TObj(), "salt": TOpt(TStr)}, "local_types": {}, "touch_result": False,
                       },
               modifies=["ghost:hashed"])

    # ---- the outer function: unwraps decorators, hashes the code object of the innermost function
    R.uf("innermost", [TObj()], TObj())
    R.uf("callable_obj", [TObj()], TBool)

    def unwrap_axioms(ex):
        inner, has = ufs_all()["innermost"], ufs_all()["has_attr"]
        w = z3.Function("attr___wrapped__", ObjSort, ObjSort)
        key = ex.box(VStr("__wrapped__"))
        ex.add_universal([TObj()], lambda x: z3.If(has(x, key), inner(x) == inner(w(x)), inner(x) == x), "innermost-definition")

    def ufs_all():
        return {k: v[0] for k, v in R.ufs.items()}
    R.path_init.append(unwrap_axioms)
    R.touch_attrs.update({"__wrapped__", "fn", "__code__"})
    R.spec("OUTER", ["fn"], "fn.fn if isinstance(fn, MementoFunctionType) else fn")
    R.spec("TARGET", ["fn"], "innermost(fn.fn if isinstance(fn, MementoFunctionType) else fn)")
    code_views = []
    for a in BEH_CODE:
        if a == "co_consts":
            continue
        v_ = views.get(a, "o." + a).replace("o.", "TARGET(fn).__code__.")
        code_views.append("implies(has_attr(TARGET(fn), '__code__') and isinstance(TARGET(fn).__code__, CodeType), VIEWED(%s))" % v_)
    R.contract("code_hash:fn_code_hash", prop="C01", types={"fn": TObj("nn:callable"), "salt": TOpt(TStr), "environment": TObj()}, returns=TStr, ghost_params=GH,
               requires=["callable_obj(fn) and implies(isinstance(fn, MementoFunctionType), fn.fn is not None and callable_obj(fn.fn))",
                         "forall(obj, lambda x: implies(isinstance(x, CodeType), x.co_consts is not None))",
                         "forall(obj, lambda x: implies(has_attr(x, '__wrapped__'), x.__wrapped__ is not None))"],
               ensures=code_views + [
                   # default values of positional and keyword-only parameters are behaviour: they must be part of what is hashed
                   "implies(has_attr(TARGET(fn), '__code__'), VIEWED(TARGET(fn).__defaults__))",
                   "implies(has_attr(TARGET(fn), '__code__'), VIEWED(TARGET(fn).__kwdefaults__))",
                   # every layer of a functools.wraps chain is code that runs when the function is called ("edits to function bodies" of plain helper
                   # functions of the program): the body of the outermost layer must be part of what is hashed, not only that of the innermost one
                   "implies(has_attr(OUTER(fn), '__code__') and isinstance(OUTER(fn).__code__, CodeType), VIEWED(decoded(b64(OUTER(fn).__code__.co_code))))"],
               loops={1: ["same(innermost(fn), TARGET(fn0))", "fn is not None", "forall(obj, lambda x: implies(old(x in ghost('hashed')), x in ghost('hashed')))"]},
               labels={"asserts_assumed": True, "entry_snapshot": {"fn0": "fn"}},
               modifies=["ghost:hashed"])

    # ================================================================== C03: independence of the process hash seed
    R.list_terms = True
    for n_, (a_, r_) in dict(iter_seeded=([TObj(), TObj()], TObj()), sortedl=([TObj()], TObj()), maplist=([TObj(), TObj()], TObj()), sortedbag=([TObj(), TObj()], TObj())).items():
        R.uf(n_, a_, r_)

    def iter_term(ex, objterm):
        """Iterating a frozenset yields its elements in an order that depends on the hash seed; every other collection iterates in its own order."""
        s_ = z3.Const("the_hash_seed", ObjSort)
        ex.touch(TObj(), objterm)
        return z3.If(ex.class_pred("frozenset")(objterm), ufs_all()["iter_seeded"](objterm, s_), objterm)
    R.iter_term = iter_term

    def seed_axioms(ex):
        u = ufs_all()
        # sorting the image of a hash-ordered collection under any map gives the same list whatever the seed (the iterations are permutations of each other)
        S1, S2 = z3.Const("the_hash_seed", ObjSort), z3.Const("the_other_hash_seed", ObjSort)     # this run's seed and any other one
        ex.add_universal([TObj(), TObj()], lambda f, o: z3.And(*[u["sortedl"](u["maplist"](f, u["iter_seeded"](o, s))) == u["sortedbag"](f, o) for s in (S1, S2)]), "sorting-removes-iteration-order")
        ex.add_universal([TObj()], lambda x: z3.Implies(u["seed_free"](x), u["repr_seeded"](x, S1) == u["repr_seeded"](x, S2)), "repr-of-plain-constants")
    R.path_init.append(seed_axioms)
    R.assume("C03 value table: repr() of int / float / complex / str / bytes / bool / None / Ellipsis constants does not depend on the hash seed (seed_free); "
             "iteration order of a frozenset does; sorting the image of a collection removes the dependence on its iteration order")
    R.uf("rendering_of", [TStr, TObj()], TBool)
    R.contracts[NESTED].requires.extend(["[C03] implies(isinstance(o, CodeType), True)"] and [c_.replace("(o)", "(o)") for c_ in VALUE_TABLE_NONCODE])
    SR = "code_hash:_stable_repr"
    R.contract(SR, prop="C03", types={"o": TObj()}, returns=TStr, ghost_params={"hash_seed": TObj()},
               requires=VALUE_TABLE,
               ensures=["[C03] seed_independent(result)", "[effect] rendering_of(result, o)"],
               labels={"C03_note": "recursive calls through the function's own contract (results of callees are seed independent)"})

    # ---- the version is a function of the SET of collected rules (their keys and hashes), not of the order in which they were met
    R.entity("MementoFunction", ("memento", "MementoFunction"), dict(qualified_name_without_version=TStr, src_fn=TObj(), _hash_rules=TList(TObj("nn:HashRule"))))
    MF = TEnt("MementoFunction")
    R.attr("rule_hash", TObj(), mutable=True)
    R.attr("__package__", TObj())
    for n_, (a_, r_) in dict(rule_hash_of=([TObj()], TObj()), py_str=([TObj()], TStr)).items():
        R.uf(n_, a_, r_)
    R.uf("module_of", [TObj()], TObj())
    R.external("inspect.getmodule", returns=TObj("nn:module"), ensures=["same(result, module_of(arg0))"])

    def mfh_rule(ex, args, kwargs):
        return VObj(ex.fresh_obj("MementoFunctionHashRule"), "MementoFunctionHashRule")
    R.constructors["MementoFunctionHashRule"] = mfh_rule

    def collect(ex, recv, args, kwargs):
        """collect_transitive_dependencies(result=set, ...): fills the set with the collected rules -- an arbitrary finite set (ghost 'rules');
        which rules belong to it is C14's (unclaimed) subject, what is done with the set is proved here."""
        tgt = kwargs.get("result")
        # C14 ("plain helper functions of the same package"): the collection is scoped to THE package of the function's module as the import system
        # knows it -- module.__package__ -- and to nothing else (a package name derived from the dotted module name differs for __main__, for a
        # package's own __init__ module, for modules run as scripts)
        scope = kwargs.get("package_scope")
        src = ex.get_attr(ex.st.env["self"], "src_fn") if "self" in ex.st.env else None
        if scope is not None and src is not None and isinstance(scope, VCont):
            sc = ex.cont(scope)
            pk = z3.Function("attr___package__", ObjSort, ObjSort)(ufs_all()["module_of"](ex.box(src)))
            ok = z3.BoolVal(False)
            if isinstance(sc, SetV) and sc.ty.e is TStr:
                # a set of strings: its only member must be the string module.__package__ is
                x = ex.fresh("scope_member", z3.StringSort())
                bs = z3.Function("box_str", z3.StringSort(), ObjSort)
                ok = z3.And(sc.count == 1, z3.Implies(sc.mem[x], bs(x) == pk))
            elif isinstance(sc, SetV):
                x = ex.fresh("scope_member", ObjSort)
                ok = z3.And(sc.mem[pk], z3.Implies(sc.mem[x], x == pk))
            ex.oblige("dependency-collection-is-scoped-to-the-package-of-the-function's-module", ok, kind="post",
                      info={"clause": "package_scope == {inspect.getmodule(self.src_fn).__package__}", "tags": ["C03", "C14"]})
        c = ex.materialize(tgt, TSet(TObj("nn:HashRule")))
        mem2 = ex.fresh("collected", c.mem.sort())
        cnt = ex.fresh("ncollected", z3.IntSort())
        ex.assume(cnt >= 0)
        ex.add_universal([TObj()], lambda r: z3.Implies(mem2[r], r != PyNone), "rules-are-objects")
        ex.set_cont(tgt, c.replace(mem=mem2, count=cnt))
        ex.st.ghost["rules"] = ex.new_box(SetV(TSet(TObj("nn:HashRule")), mem2, cnt))
        return VNone
    R.obj_method_hooks["collect_transitive_dependencies"] = collect
    def compute_hash(ex, recv, args, kwargs):
        ex.touch(TObj(), recv.t)
        return VObj(ufs_all()["rule_hash_of"](recv.t))
    R.obj_method_hooks["compute_hash"] = compute_hash
    R.obj_method_hooks["encode"] = lambda ex, recv, args, kwargs: VObj(ufs_all()["utf8"](ex.to_term(recv, TStr)))

    def sp_fold(ex, n):
        """fold(lst, i): the bytes accumulated after hashing the first i rules of lst in order (rules without a hash are skipped)."""
        lst, i = ex.cont(ex.ev(n.args[0])), ex.ev(n.args[1])
        F = z3.Function("hash_fold", lst.arr.sort(), z3.IntSort(), ObjSort)
        u = ufs_all()
        arr = lst.arr
        key = ("fold", arr.get_id())
        done = ex.st.ghost.setdefault("$fold_axioms", set())
        if key not in done and not ex.bound_ids and ex.collector is None:
            ex.st.ghost["$fold_axioms"] = set(done) | {key}
            ex.assume(F(arr, 0) == u["empty_bytes"]())
            us = z3.Function("unbox_str", ObjSort, z3.StringSort())
            ex.add_universal([TInt], lambda j: z3.Implies(j >= 0, F(arr, j + 1) == z3.If(u["rule_hash_of"](arr[j]) == PyNone, F(arr, j),
                                                                                            u["bytes_concat"](F(arr, j), u["utf8"](us(u["rule_hash_of"](arr[j])))))), "fold-step")
        ex.touch(TInt, i.t)
        return VObj(F(arr, i.t))
    R.spec_builtins["fold"] = sp_fold
    R.contract("memento:MementoFunction._recompute_version", prop="C03", types={"self": MF}, returns=TStr, ghost_params={"rules": TSet(TObj())},
               requires=["forall(obj, lambda r: implies(True, rule_hash_of(r) is None or isinstance(rule_hash_of(r), str)))"],
               ensures=[
                   # the digest of the rule hashes in the canonical order of the collected SET: two runs that collect the same rules in a different order get the same version
                   "result == sha256hex(fold(ordered_hash_rules, len(ordered_hash_rules)))[0:16]",
                   "forall(obj, lambda r: (r in ordered_hash_rules) == (r in ghost('rules')))", "len(self._hash_rules) == len(ordered_hash_rules)"],
               loops={1: ["same(sha256.hashed_bytes, fold(ordered_hash_rules, loop_i))", "sha256 is not None",
                          "same(self.src_fn, old(self.src_fn)) and self.qualified_name_without_version == old(self.qualified_name_without_version)",
                          ]},
               labels={"loop_havoc_heap": ["hashed_bytes", "rule_hash"], "loop_keep": ["_hash_rules", "rules", "src_fn", "qualified_name_without_version"]},
               modifies=["self._hash_rules", "heap:rule_hash", "heap:hashed_bytes", "ghost:rules"])

    # ---------------------------------------------------------------- C03: rule keys identify what a rule hashes; rules are ordered and compared by key
    # code_hash.py documents HashRule.key as "a string used to uniquely identify, and canonically order, this hash rule".  The version is the digest
    # of the rule hashes in key order; it is a function of the collected SET of rules only if (1) rules are compared / hashed / ordered by key
    # (HashRule.__eq__ / __hash__ / __lt__), so a set never holds two rules with one key and sorted() is total on it (obligation
    # `sort-order-is-total-on-the-set-members` in _recompute_version), and (2) the key names the hashed entity unambiguously: kind, the
    # parent symbol's namespace and the entity's identity in the program text -- module and QUALIFIED name for a plain function, the qualified name
    # without version for a memento function, the (dotted) symbol for a variable or an undefined symbol.
    R.set_identity_attr = "key"
    R.set_order_attr = "key"
    for a in ("__module__", "__qualname__", "__name__"):
        R.attr(a, TStr)
    R.attr("key", TStr)
    rule_fields = dict(key=TStr, parent_symbol=TOpt(TStr), symbol=TStr, first_level=TBool, rule_hash=TObj())
    R.entity("HashRule", ("code_hash", "HashRule"), dict(rule_fields))
    R.entity("NonMementoFunctionHashRule", ("code_hash", "NonMementoFunctionHashRule"), dict(rule_fields, src_fn=TObj(), resolver=TObj()))
    R.entity("MementoFunctionHashRule", ("code_hash", "MementoFunctionHashRule"), dict(rule_fields, memento_fn=TObj(), resolver=TObj()))
    R.entity("GlobalVariableHashRule", ("code_hash", "GlobalVariableHashRule"), dict(rule_fields, var=TObj(), resolver=TObj(), last_value=TObj()))
    R.entity("UndefinedSymbolHashRule", ("code_hash", "UndefinedSymbolHashRule"), dict(rule_fields, ref=TObj(), ref_is_global_table=TBool))
    R.spec("NS", ["parent_symbol"], "'None' if parent_symbol is None else parent_symbol")
    COMMON = ["self.parent_symbol == parent_symbol", "self.symbol == symbol", "self.first_level == first_level", "self.rule_hash is None"]
    C = "code_hash:"
    R.contract(C + "NonMementoFunctionHashRule.__init__", prop="C03",
               types={"self": TEnt("NonMementoFunctionHashRule"), "parent_symbol": TOpt(TStr), "symbol": TStr, "resolver": TObj(), "obj": TObj("nn:function"), "first_level": TBool},
               ensures=["self.key == 'Function;' + NS(parent_symbol) + ';' + obj.__module__ + ':' + obj.__qualname__", "same(self.src_fn, obj)"] + COMMON,
               modifies=["self.*"])
    R.attr("qualified_name_without_version", TStr)
    R.contract(C + "MementoFunctionHashRule.__init__", prop="C03",
               types={"self": TEnt("MementoFunctionHashRule"), "parent_symbol": TOpt(TStr), "symbol": TStr, "resolver": TObj(), "obj": TObj("nn:MementoFunctionType"), "first_level": TBool},
               ensures=["self.key == 'MementoFunction;' + NS(parent_symbol) + ';' + obj.qualified_name_without_version", "same(self.memento_fn, obj)"] + COMMON,
               modifies=["self.*"])
    R.contract(C + "GlobalVariableHashRule.__init__", prop="C03",
               types={"self": TEnt("GlobalVariableHashRule"), "parent_symbol": TOpt(TStr), "symbol": TStr, "resolver": TObj(), "ref": TObj(), "last_value": TObj(), "first_level": TBool},
               ensures=["self.key == 'GlobalVariable;' + NS(parent_symbol) + ';' + symbol"] + COMMON, modifies=["self.*"])
    R.contract(C + "UndefinedSymbolHashRule.__init__", prop="C03",
               types={"self": TEnt("UndefinedSymbolHashRule"), "ref": TObj(), "parent_symbol": TOpt(TStr), "symbol": TStr, "first_level": TBool, "ref_is_global_table": TBool},
               ensures=["self.key == 'UndefinedSymbol;' + NS(parent_symbol) + ';' + symbol",
                        # what the rule watches (used by the traversal's contract, contracts/traversal.py): the place and the name where the symbol would appear
                        "same(self.ref, ref)", "self.ref_is_global_table == ref_is_global_table"] + COMMON, modifies=["self.*"])
    HR = TEnt("HashRule")
    R.uf("py_hash_str", [TStr], TInt)
    R.constructors["hash"] = lambda ex, args, kwargs: VInt(R.ufs["py_hash_str"][0](ex.to_term(args[0], TStr)))
    R.contract(C + "HashRule.__eq__", prop="C03", types={"self": HR, "other": HR}, returns=TBool, ensures=["result == (self.key == other.key)"])
    R.contract(C + "HashRule.__lt__", prop="C03", types={"self": HR, "other": HR}, returns=TBool, ensures=["result == (self.key < other.key)"])
    R.contract(C + "HashRule.__hash__", prop="C03", types={"self": HR}, returns=TInt, ensures=["result == py_hash_str(self.key)"])
