"""Per-property wording for MANIFEST.json."""
WIP = "check not built yet (work in progress); see DESIGN.md"
NOT_APPLICABLE = {p: WIP for p in ["C%02d" % i for i in range(1, 20)]}
NOT_APPLICABLE["C09"] = "every clause quantifies over thread interleavings; a sequential contract verifier has no thread semantics (DESIGN.md section 6, C09)"

TEXT = {
    "C06": {
        "level": "Every method of the real MemoryCache is symbolically executed from an arbitrary state satisfying the representation invariant "
                 "(usage = sum of resident sizes, 0 <= usage <= budget, recency order = key set without duplicates) and proved, for all inputs and unboundedly many "
                 "loop iterations (loop invariants), to re-establish it and to meet its postcondition: evictions are exactly a least-recent set and happen only when room "
                 "is needed, hits move the key to most-recent and are served from the entry, forget-* leave usage equal to what remains (0 when empty). "
                 "The history quantifier follows by induction over these per-operation contracts.",
        "note": "Assumed: _estimate_object_size returns a non-negative int; weak references are not cleared while a cache method runs; the induction lemma over histories is "
                "a stated meta-argument; the AST->SMT translation, the finite-map/recency-order rule set and the SMT solvers are trusted.",
        "technique": "contract-based deductive verification: own VC generator over the real source + z3/cvc5",
    },
    "C05": {
        "level": "Every public operation of the real StorageBackendBase (lookup, read result, is-memoized, memoize with or without key override, forget call / function / everything, "
                 "listings, custom metadata) is proved to refine one dictionary keyed by 'function-with-version/argument-hash' held by the abstract metadata source, and to preserve "
                 "cache/store coherence (whatever the write-through MemoryCache or its weak references hold is exactly what the store holds, for any cache budget or no cache); "
                 "every MemoryCache method is proved against its own contract. The history quantifier follows by induction over these per-operation contracts. The metadata source's path scheme (_get_function_path, _get_path, _get_metadata_path, _get_metadata_key) is proved to be the documented layout m/<qualified name>/<argument hash>.memento.json / .metadata.<key>[.with_data]; forget_call is proved to make one non-recursive listing of the call's directory with the call's file name as prefix and to delete every listed key with all its versions and nothing else, forget_function / forget_everything to delete the function's directory / the root recursively, put_memento / write_metadata to write exactly one object under the call's memento path / metadata key. The _FilesystemDataSource functions proved for C08 (versioned objects, link files) are verified in this check as well.",
        "note": "The memory backend (storage_memory.MemoryStorageBackend: nested defaultdict/dict objects modelled as mutable mapping objects on the heap) is proved against the same dictionary view for "
                "__init__, lookups, is-memoized, read result, memoize, forget call / everything, custom metadata and list_functions (nothing without a live entry is listed -- D5, repaired); its forget_function, "
                "list_mementos and the 'every live function is listed' direction are not under contract. Partial: DataSourceMetadataSource is not proved against the interface contract (assumed; "
                "_FilesystemDataSource's write and read path is proved under C08). Assumed: qualified names contain no '/'; "
                "no I/O fault inside an operation; read_result is given the current memento; pickle round trip preserves the abstract value.",
        "technique": "contract-based deductive verification: own VC generator over the real source + z3/cvc5",
    },
    "C07": {
        "level": "Codec.BlobStrategy.store and NullStrategy.store are proved, for all inputs, against the abstract DataSource: the returned key is 'c/'+SHA-256(bytes) when no override is given, "
                 "the bytes under the returned version are the serialized bytes, an existing content key is reused without any write (deduplication), every previously readable version "
                 "keeps its bytes (immutability), and the store-wide integrity invariant J (bytes under a content key hash to it) is preserved, also on I/O errors. StorageBackendBase.memoize "
                 "is proved (in this check, with C05's coherence clauses assumed) to keep every old version readable with the same content, forget_call / forget_function / forget_everything to leave the "
                 "data source untouched (no write, no version removed or changed, no content key re-pointed), and read_result to return what is stored under the memento's own content key.",
        "note": "Assumed: SHA-256 injective; the DataSource interface contract (output creates a fresh version, versions immutable) -- _FilesystemDataSource is not proved against it; "
                "override keys do not start with 'c/'; encode() is a function of the object.",
        "technique": "contract-based deductive verification: own VC generator over the real source + z3/cvc5",
    },
    "C19": {
        "level": "With read_only set, every mutating operation of the real StorageBackendBase is proved to leave the ghost write counters of the metadata and data sources, the store view and the "
                 "memory cache unchanged: memoize returns silently, forget_* and write_metadata raise ValueError before any callee runs; the flag is proved to come from the argument if given, "
                 "else from the configuration, else False. NullStorageBackend methods are proved to report nothing memoized; NullRunnerBackend.batch_run is proved to raise without invoking "
                 "any opaque callable.",
        "note": "Assumed: every mutating method of the abstract sources increments the ghost write counter (interface contract); the memory backend's memoize / forget_call / forget_everything / write_metadata are proved to change nothing (or raise) when read_only is set; its forget_function, FilesystemStorageBackend.__init__ and the frame scan "
                "of _FilesystemDataSource read methods are not covered yet.",
        "technique": "contract-based deductive verification: own VC generator over the real source + z3/cvc5",
    },
    "C02": {
        "level": "memento_run_local and process_existing_memento (the real source) are proved, for every store state consistent with the functions' outcomes, every context and every call-stack shape: "
                 "a call whose memento is stored and readable runs no body, memoizes nothing and returns the stored outcome (a stored MementoException converted back); a call that is not stored runs "
                 "the body exactly once, under the per-call lock and with exactly the effective keyword arguments, returns what the body returned (key-override wrapper removed) or the exception it raised, "
                 "memoizes at most once with result_type = from_object(value) and the body's override key; RemoteCallException / NonMemoizedException (and subclasses) are re-raised and never memoized; "
                 "an IOError while reading falls back to recomputation and an IOError while writing is swallowed. MementoFunctionBase.call is proved to dispatch exactly one reference (this function, the call's own positional and keyword arguments) and to return the single slot of the runner's list when it is a value and raise it when it is an exception object. ResultType.from_object is proved against the table of result kinds and Python's class hierarchy: every supported value gets exactly its kind, the more specific kind wins where one class is a subclass of another (bool before int, datetime before date), and complex numbers, arrays of other element types and other classes raise ValueError.",
        "note": "Partial: ResultType.from_object, forget and the storage/codec value round trip are assumed contracts here (storage side proved under C05/C07). The exception name round trip is proved: "
                "MementoException.from_exception records language::module:qualified-name, __init__ accepts exactly such names (regex from the source, translated mechanically), to_exception rebuilds an instance of the "
                "class reached by walking the qualified name from the module, from the recorded message, or returns itself (other language / not a class / constructor needs other arguments). "
                "Assumed: deterministic bodies; bodies do not forget; store reads return the memoized value of the key. Observation (not claimed): with ignore_result a memoized exception is replayed as None.",
        "technique": "contract-based deductive verification: own VC generator over the real source + z3/cvc5",
    },
    "C10": {
        "level": "propagate_dependencies is proved to append exactly the callee's reference-with-arguments to the caller's invocation list and to extend the caller's dependency set by the callee and the callee's "
                 "recorded dependencies, changing no other memento. memento_run_local is proved to perform exactly one such propagation into the calling frame on every exit (hit, computed, exception result, re-raised "
                 "exception) and to restore the call stack; LocalRunnerBackend.batch_run is proved (loop invariant, any batch length) to propagate once per element, in element order, whichever branch serves it; "
                 "dependencies recorded in a stored memento flow to the caller like freshly computed ones. ResourceFunction.__call__ is proved to append the handle the wrapped function returns to the resources of the "
                 "calling frame's memento, after the existing ones, and to change no other record (nothing when there is no calling frame or the wrapped function raises).",
        "note": "Partial: equality with the real call tree of an arbitrary program is the stated induction lemma over these contracts; the wrapped resource function is opaque user code (assumed not to touch the call stack). "
                "Dependency sets are compared by object identity of references.",
        "technique": "contract-based deductive verification: own VC generator over the real source + z3/cvc5",
    },
    "C15": {
        "level": "LocalRunnerBackend.batch_run is proved with a loop invariant over any batch length: the result list has one slot per element, slot j holds the outcome of element j (value, or the exception object "
                 "for a failing element, including non-memoized and remote-call exceptions), at most one body call per element and none for elements already stored and readable. MementoFunctionBase.call_batch is proved to hand the runner one reference per "
                 "element of kwargs_list, in order, for this function, with no positional arguments and the element's keyword arguments, to return the runner's list slot by slot, and -- when asked to -- to raise "
                 "the FIRST exception in it (and to return only exception-free lists).",
        "note": "Partial: map_over_range / call (base.py) are not under contract; call_batch uses memento_run_batch through its contract (C16) and the documented interface of RunnerBackend.batch_run (one slot per reference); 'at most once per distinct element' relies on memento_run_local's contract plus the assumption that bodies only add to the store.",
        "technique": "contract-based deductive verification: own VC generator over the real source + z3/cvc5",
    },
    "C16": {
        "level": "memento_run_batch is proved for all inputs and call-stack shapes: under a calling frame with prevent_further_calls it raises RuntimeError before any runner is invoked; otherwise exactly one dispatch, "
                 "to the local runner iff force_local; the dispatched context carries the call's own context arguments when attached (also an empty dict) and otherwise the calling frame's, with the caller's correlation id; "
                 "the dispatched references are rebuilt with exactly those context arguments (same function, args, kwargs), so the argument hash includes them. memento_run_local is proved (C02) to pass the body only "
                 "effective_kwargs. with_context_args / with_prevent_further_calls are proved to give the clone a context that carries exactly the given context-argument dict / flag and is otherwise the original's, "
                 "leaving the original function's context unchanged.",
        "note": "Partial: RecursiveContext.update / InvocationContext.update_recursive are modelled (records), not proved, and clone_with is abstract (the proof is about the context handed to it); that effective_kwargs excludes the context arguments is C04's subject.",
        "technique": "contract-based deductive verification: own VC generator over the real source + z3/cvc5",
    },
    "C18": {
        "level": "For every documented option of the filesystem backend (path, metadata path, memory cache size, read-only flag) the real FilesystemStorageBackend.__init__ (with the StorageBackendBase / "
                 "StorageBackend / MemoryCache constructors it runs) is proved, for every configuration dictionary and every combination of explicit arguments, to put exactly the effective value "
                 "(explicit argument if given, else the configuration's value, else the default) into the state that governs behaviour: the data source's base path, the metadata source's data source "
                 "(shared iff the two paths are equal), the existence and byte budget of the memory cache, the read-only flag. FilesystemStorageBackend/MemoryStorageBackend/NullStorageBackend.to_dict are proved "
                 "to dump a dictionary whose effective options, read back with no explicit arguments, equal the current ones. StorageBackend.create / RunnerBackend.create are proved to instantiate exactly the "
                 "class registered for the type with the given configuration (ValueError iff unregistered). FunctionCluster.__init__ is proved to let explicit arguments override the configuration for every field "
                 "and to ask the registry with exactly the configured type and sub-configuration; FunctionCluster / ConfigurationRepository / Environment.to_dict are proved to dump every field, every cluster under "
                 "the key it is registered under, every repository in order; Environment.get_cluster is proved (loop invariant, any number of repositories) to return the cluster of the first repository in priority "
                 "order that defines the name, else None; append_repo / prepend_repo add at lowest / highest priority.",
        "note": "Partial: the loops of ConfigurationRepository.__init__ / Environment.__init__ / _DefaultFunctionCluster and the JSON/YAML/Jinja loaders are not under contract; nested dumps are linked by the "
                "uninterpreted dump_of(object) (each object's own to_dict is proved separately, the composition is the stated round-trip lemma). Assumed: configuration values have the documented types; "
                "pathlib operations are functions of the path strings.",
        "technique": "contract-based deductive verification: own VC generator over the real source + z3/cvc5",
    },
    "C13": {
        "level": "MementoFunction._update_dependencies (the real source, with version / fn_reference / hash_rules / _update_fn_reference and increment_global_fn_generation) is proved, for every state of the "
                 "global generation counter and version cache, every set of collected rules and every combination of their change reports, to raise nothing on any path and to leave either the FRESH state "
                 "(version = what the from-scratch computation returns, recorded in the cache at the current generation) or the coherent CACHED state (entry of the current generation, no collected rule reports "
                 "a change, version = the entry's); an entry of an older generation or a reporting rule always forces recomputation, a reporting rule additionally bumps the generation; explicitly versioned "
                 "functions and locked clusters leave everything untouched. MementoFunction.__init__ is proved to bump the generation by exactly one on every registration. did_change of the four rule kinds "
                 "is proved exact (undefined symbol: now defined; global variable: serialisation differs from the recorded one; plain function: resolves to a different object; memento function: no longer "
                 "resolves to a memento function). HashRule._visit_dependency is proved to leave, for a name that does not resolve yet, the rule that watches exactly where it will appear (so that defining the "
                 "symbol later is reported).",
        "note": "Partial: coherence with a fresh process across a whole history is the stated lemma over these per-call contracts under environment assumption E (every in-process event that changes the "
                "from-scratch version is a registration or makes a collected rule report change) -- E is not provable from the code. Assumed: _recompute_version returns the from-scratch version; within one call "
                "rule answers do not change. In __init__ the function's own run-time asserts are taken as preconditions.",
        "technique": "contract-based deductive verification: own VC generator over the real source + z3/cvc5",
    },
    "C14": {
        "level": "MementoFunction._validate_dependency (the real source) is proved, for every call-stack state, caller and callee, to raise UndeclaredDependencyError exactly when a calling frame exists, the "
                 "caller has no explicit version, the callee is not the caller itself, the callee's qualified name is not the name of any member of the caller's transitive memento dependencies and is not "
                 "among the function references nested in the caller's arguments / keyword arguments / context arguments -- and to return normally in every other case. MementoFunction.call and call_batch are "
                 "proved to validate before anything is dispatched on every path (the base-class dispatch has the validation as a precondition; a refused call dispatches nothing). "
                 "DependencyGraph.transitive_memento_fn_dependencies / direct_memento_fn_dependencies are proved to be exactly the stated filters of the collected rule list (memento rules other than the "
                 "function itself; additionally first-level for the direct ones). The traversal that collects the rules is under contract too (real bodies): HashRule._visit_dependency is proved "
                 "to resolve a dotted name left to right from the containing function's globals, to start the traversal of the rule of the FIRST resolvable prefix with this traversal's result set / root / "
                 "package scope / blacklist, to raise DependencyNotFoundError exactly for a required name that ends without a rule, and to leave for an optional name that stops at something missing an "
                 "undefined-symbol rule watching exactly the place where the name will appear; the collect_transitive_dependencies methods of memento-function and plain-function rules are proved (loop "
                 "invariants, any number of names) not to descend into a rule already collected, otherwise to record it and visit every declared / detected name of its function (as many visits as names), from that function's "
                 "globals, under its own name, marking dependencies of the root as direct, and to neither record nor look into a plain function outside the package scope. The three try_resolve strategies are proved to recognise a memento function behind any functools.wraps chain (the rule is for the first one), a callable with a global scope, and a value that can be serialised (the rule records the serialisation) -- and nothing else.",
        "note": "Partial: the AST visitor list_dotted_names and the strategy loop resolve_symbol / try_resolve are summarised by uninterpreted functions (assumed); df()/graph linking is not covered; "
                "exactness w.r.t. the reference graph of an arbitrary program is the induction over these per-call contracts, not a machine-checked theorem; _extract_fn_ref_args (recursive walk) is an assumed summary.",
        "technique": "contract-based deductive verification: own VC generator over the real source + z3/cvc5",
    },
    "C12": {
        "level": "FunctionReference.parse_qualified_name is proved, with its regular expression read from the real source and translated mechanically into an SMT encoding of backtracking "
                 "(greedy / lazy priority) matching, to split BUILD(cluster, module, function, version) back into exactly its four parts for every module / function without ':' or '#', every single-line "
                 "version string (including ':' , '::' and '#'), and every cluster without '::' that does not contain both ':' and '#' -- an unbounded statement over strings (cvc5, case split on the optional "
                 "groups). FunctionReference.__init__ is proved to build exactly that name (cluster prefix present whenever a cluster is given, also when the version contains '::'), to raise nothing, and to "
                 "take the parameter names it is given (an empty list included). from_qualified_name is proved never to raise on a well-formed stored name whichever of {module missing, attribute missing, "
                 "not a memento function, version mismatch} happens, in the default as in a named cluster, and to fall back to an external reference carrying exactly the stored name; "
                 "UnboundExternalMementoFunction.__init__ is proved for clusters None and named. DataSourceMetadataSource.get_mementos is proved to return one slot per request and to let neither an unknown function nor an I/O error escape (the slot is None).",
        "note": "Partial: DataSourceMetadataSource.get_mementos/list_functions and the memory backend listing are not under contract; _find_function's exception set is assumed (importlib / getattr). "
                "Known finding (format-inherent): a cluster that itself reads as 'module:function#...' is indistinguishable from a cluster-less name whose version contains '::'. Clusters containing both ':' and '#' "
                "in other shapes are unambiguous but outside the proved domain. Three genuine defects found by these contracts were repaired in /repo (see known_findings.json).",
        "technique": "contract-based deductive verification: own VC generator over the real source (incl. mechanical regex->SMT translation) + z3/cvc5",
    },
    "C11": {
        "level": "All twenty encode_* / decode_* functions of the real MementoCodec are proved against one wire predicate per document kind (memento, invocation metadata, function reference with arguments / "
                 "with argument hash, function reference, resource handle, recursive context, versioned key, datetime, argument): every encoder emits a dictionary with exactly the pinned field names whose "
                 "fields carry the object's fields (lists element-wise and in order, mappings key-wise, nested documents through the nested predicate), every decoder returns an object whose fields are what the "
                 "document's fields carry -- both directions against the SAME predicate text, for documents and values of any size. encode_arg / decode_arg are proved against the typed {type, value} "
                 "specification with the documented tag priority over the real subclass facts (bool before number, datetime before date, memento function references, 1-d arrays by dtype), recursive "
                 "calls through their own contract. decode_versioned_data_source_key is proved to split 'key#version' at the LAST '#' (any key, version without '#'); decode_datetime is proved to take the "
                 "date branch exactly on strings of the shape dddd-dd-dd (regex read from the source).",
        "note": "Partial: the round trip decode(encode(x)) ~ x is the stated structural-induction lemma over the two proved directions; equality of the recomputed argument hash follows from C04 and is not "
                "re-proved; dateutil / isoformat / base64 / numpy construction / from_qualified_name are assumed relations (their round trips are not proved); termination of the recursive codecs is not "
                "proved; field names are pinned from the current code. Malformed documents make decoders raise (KeyError, TypeError, ...): nothing is claimed about which.",
        "technique": "contract-based deductive verification: own VC generator over the real source + z3/cvc5",
    },
    "C04": {
        "level": "FunctionReferenceWithArguments._compute_effective_kwargs (the real source, two loops and a filter, loop invariants) is proved equal to the binding specification for every parameter list of distinct "
                 "names, every partial application (positional and keyword) and every call (positional and keyword): a name is bound iff it is a call keyword, a partial keyword, one of the leading partially "
                 "bound parameters, or the r-th parameter left free by the partial application for r < number of positional arguments; its value is the call keyword's, else the positional argument's, else "
                 "the partial positional's, else the partial keyword's -- so the result is a function of the bound values as a MAP, not of how they were passed."
                 " FunctionReferenceWithArguments.__init__ is proved to normalise args / kwargs / context args first, to bind and hash only the normalised values, to hash exactly the effective kwargs plus the "
                 "context arguments under their reserved key (present iff there are any) and to keep the context out of the effective kwargs the body receives (with C02's obligation that the body is called with "
                 "effective_kwargs). ArgumentHasher.compute_hash is proved to be hex(sha256(utf8(normalised-json(encode(kwargs))))). ArgumentHasher._encode is proved against its one-level specification: primitives "
                 "unchanged, datetime / date / function references as tagged objects with exactly their fields (datetime before date), lists element-wise in order, dicts key-wise -- recursive calls through the "
                 "function's own contract.",
        "note": "Partial: _normalized_json (sorted keys => independence of dict insertion order; injectivity of the text across types), _decode / normalize idempotence, validate_args and MementoFunctionBase.partial "
                "are not under contract (assumed summaries nj, normalized). Termination of the recursive encoder is not proved.",
        "technique": "contract-based deductive verification: own VC generator over the real source + z3/cvc5",
    },
    "C17": {
        "level": "DefaultCodec.PicklePartitionStrategy.store (the real source, both loops with invariants, any number of keys) is proved to write the overlay index: every own key of the partition with a fresh, "
                 "non-inherited entry (type = from_object of the value the partition returns, content key = what the codec stored for it, under '<override>/<key>' when an override is given), every parent "
                 "key that is not overridden inherited with the parent's type and content key and from_parent = True, nothing else; parent entries are referenced from the data source the parent was written to; "
                 "a stored partition remembers its output keys and the data source they were written to (so it can later be a merge parent), and storing never re-points the partition's own data source "
                 "(an on-disk partition keeps reading its staged values). get / list_keys of InMemoryPartition, OnDiskPartition and the loaded PicklePartition are proved to obey the overlay law: own value if "
                 "the key is own, else the parent's; list_keys = sorted, duplicate-free union of own and (when requested) parent keys, list_keys(False) = own (resp. non-inherited) keys.",
        "note": "Partial: the index's JSON (de)serialisation (_serialize_index / _deserialize_index) and PicklePartition.__init__ are assumed to carry the entries unchanged; pickle of values is assumed; the parent "
                "chain is handled by induction on the parent link (a parent is summarised by parent_has / parent_value). One genuine defect found by these contracts was repaired in /repo (D8).",
        "technique": "contract-based deductive verification: own VC generator over the real source + z3/cvc5",
    },
    "C01": {
        "level": "Hash-input completeness: fn_code_hash and its nested hash_if_code_object (the real source) are proved to serialise into the hashed text, for the innermost function behind any decorator "
                 "chain, every behavioural attribute of the code object that the property names -- bytecode (base64), names, variable / free / cell names, argument counts, flags, and the constants "
                 "recursively (nested code objects through the same function, other constants by their own rendering, in order) -- so two functions differing in any of them feed different text to the "
                 "hash. In-process staleness: MementoFunction._update_dependencies uses a cached version only when NO collected rule reports a change and did_change of the four rule kinds is exact "
                 "(contracts of C13). Version in the key: FunctionReference.__init__ puts '#version' into the qualified name under which results are stored (contracts of C12). In this check _recompute_version, _validate_dependency, the dependency traversal (HashRule._visit_dependency, the two collect_transitive_dependencies) and the three try_resolve strategies are verified as well (contracts described under C03 / C14).",
        "note": "Partial: 'equals un-memoized execution' for whole programs and the exactness of the collected rule set (dependency analysis) are not claimed. Known finding (genuine, not repaired): default "
                "values of positional and keyword-only parameters are not hashed. Assumed: json.dumps / base64 / utf-8 / repr of constants / SHA-256 injective.",
        "technique": "contract-based deductive verification: own VC generator over the real source + z3/cvc5",
    },
    "C03": {
        "level": "MementoFunction._recompute_version (the real source, loop invariant over any number of rules) is proved to return the digest of the rule hashes taken in the canonical order of the collected "
                 "SET of rules (sorted), skipping rules without a hash -- a function of the set, not of the order in which rules were met. _stable_repr, the rendering of non-code constants in the code "
                 "hash, is proved independent of the process hash seed under the stated value table (repr of plain constants is seed free, iteration order of a frozenset is not, sorting the image "
                 "removes the dependence), tuples and frozensets recursively through the function's own contract; hash_if_code_object is proved to render every non-code constant through it. The "
                 "environment salt is checked (syntactically, on the module constant) to be sha256(json.dumps(<dict of literals>, sort_keys=True)).",
        "note": "Partial: seed independence is checked on value terms (lists built by comprehensions / sorted carry their value) by substituting a second seed -- a relational argument encoded in one run; "
                "the bag lemma and the repr value table are trusted. HashRule._visit_dependency is under contract here as well (what a name that does or does not resolve yet leaves in the result set: see C14); order-independence of the whole "
                "recursive traversal is not a machine-checked theorem; cross-process reuse follows only given the same collected rule set. One genuine defect found by this contract was repaired in /repo (D10).",
        "technique": "contract-based deductive verification: own VC generator over the real source + z3/cvc5 (plus one syntactic obligation on a module constant)",
    },
}

TEXT["C08"] = {
    "level": "Crash-invariant proof over the real _FilesystemDataSource write path: output and _write_non_versioned_link are symbolically executed against a stated contract for the "
             "file-system primitives (open-for-write truncates in one step, write / copyfileobj, close, os.replace, makedirs, each with its OSError outcome), and the store invariant "
             "'every link file that exists is complete and names a complete version file of its own key; complete version files never change; no other link changes; the written key's "
             "link is the old one or the new complete version' is proved in EVERY intermediate state (after each primitive's normal or exceptional outcome = every crash point and every "
             "reported I/O error), not only at exit. Under that invariant exists_nonversioned, get_versioned_key, _read_non_versioned_link, input_nonversioned / input_versioned are proved to "
             "answer exactly 'the link exists', to return a complete version and to raise OSError only when the file is absent. One level up, the same step obligation is proved for "
             "BlobStrategy.store (integrity invariant J, links, old versions after every data-source call) and StorageBackendBase.memoize (every stored memento stays readable after the cache put, "
             "the data write and the memento write, whichever of them fails: the data-before-memento write order), and DataSourceMetadataSource.get_mementos is proved never to let an I/O error escape.",
    "note": "Partial. Assumed (the OS model and path algebra are the trusted base): the primitive contracts in contracts/crash.py; link / version-file / temporary paths are disjoint families of the "
            "(escaped) key and version (memento's key space), uuid4 is fresh; the step from the file-system view to the abstract DataSource view used by BlobStrategy.store / memoize is a stated refinement "
            "argument; real process death is represented by 'stop after a primitive'. Not covered here: memento_run_local's handlers (proved under C02/C10), is_memoized's list comprehension over "
            "exists_nonversioned, delete paths, the JSON decode of a complete memento file, concurrent writers (C09). Found and repaired: D11 (link files were created empty and filled in place).",
    "technique": "contract-based deductive verification: own VC generator over the real source + z3/cvc5",
}

# ---- additions after the audit round (appended to the texts above)
TEXT["C01"]["note"] += (" Further known findings (genuine, tied to their clauses, not repaired for the same reason): co_exceptiontable and co_posonlyargcount are not hashed. "
                        "Reproduced by an audit and outside every contract: rule-key collisions of same-named functions (lambdas), the limits of the dependency analysis "
                        "(decorator arguments, closure cells, lru_cache / un-wrapped helpers, local imports), non-injective serialisation of tracked variables (DESIGN 9.4).")
TEXT["C02"]["note"] += (" to_exception is proved never to raise (whatever fails while rebuilding, the MementoException itself is the result -- D20, repaired); with ignore_result a memoized "
                        "exception is still converted back and propagated, only values are dropped (D24, repaired).")
TEXT["C03"]["note"] += (" Rule keys are now under contract: each HashRule constructor is proved to build the key from kind, parent namespace and the entity's identity (module and QUALIFIED name for a "
                        "plain function), HashRule.__eq__/__hash__/__lt__ go by key, and sorted(<set of rules>[, key=f]) carries the obligation that the order is total on the set's members; that two "
                        "different functions never share a qualified name (lambdas do) remains an assumption.")
TEXT["C04"]["level"] += (" The binding specification is the law the property states: positional arguments -- those of the partial application first, then those of the call -- fill, in order, the parameters "
                         "no partial keyword binds, so moving an argument of a call into a partial application changes neither the binding nor the key (D14, repaired).")
TEXT["C04"]["note"] += (" Known finding (tied to its clause): a user dict with a '_mementoType' key is indistinguishable from a tagged encoding (D15). Not claimed: default values are not part of the key.")
TEXT["C06"]["note"] = TEXT["C06"]["note"].replace("Assumed: _estimate_object_size returns a non-negative int;",
                        "Assumed: _estimate_object_size returns a non-negative int (its pandas branch _pd_linreg_mem_usage is proved non-negative -- D23, repaired; sys.getsizeof and pandas memory_usage are assumed "
                        "non-negative; how close the estimate is to the real size is not claimed);")
TEXT["C08"]["level"] += (" After an I/O error anywhere in memoize the memory cache is proved coherent with the store (it must not report a call the store lacks -- D19, repaired: the cache is written through after the store).")
TEXT["C11"]["note"] += (" Known finding (tied to its clause): NaN / Infinity arguments are emitted as bare tokens, which is not plain JSON (D17).")
TEXT["C17"]["level"] += (" A stored partition is proved to record its WHOLE stored index, so it can be the merge parent of a later one (chains of any length, D13 repaired); a partition read back from the store "
                         "and returned again is stored with all of its keys, inherited ones included (D21, repaired).")
TEXT["C19"]["note"] += (" NullStorageBackend.list_mementos is proved to return an empty list (D22, repaired).")
# ---- audit round 2
TEXT["C02"]["note"] += " from_exception is proved total also when the exception's own __str__ raises (str() of a user object is modelled as user code -- D26, repaired)."
TEXT["C04"]["level"] += " Every value that is presented is in the binding or the call is refused: a keyword naming a positionally filled parameter raises (D30, repaired)."
TEXT["C06"]["level"] += " A look-up served from the cache (get_mementos) counts as a use: the last key hit is the most recent entry afterwards (D27, repaired)."
TEXT["C12"]["note"] += " The look-up of a stored name imports user modules and may raise anything: from_qualified_name is proved to fall back to an external reference whatever it raises (D29, repaired)."
TEXT["C13"]["level"] += (" A rule whose symbol no longer resolves, or resolves to another memento function, reports a change instead of raising or staying silent (D25, D28, repaired); the cached exit of "
                         "_update_dependencies is only open to an object that holds its own validated rules (D32, repaired).")
TEXT["C18"]["level"] += " FilesystemStorageBackend.to_dict is proved to carry the codec options of the storage configuration (D31, repaired)."
TEXT["C14"]["level"] += (" The caller whose closure decides is the function a modifier clone was made from (a clone carries its original's version as an explicit one -- D33, repaired), and the "
                         "package scope handed to the dependency collection is proved to be exactly the module's __package__.")
TEXT["C04"]["note"] += " The scalar case of _normalized_json is under contract (json.dumps of that value, computed afresh); functools.lru_cache on a helper is modelled as 'served for an equal earlier argument'."
TEXT["C12"]["level"] += " A stored reference is rebuilt with the parameter names recorded with it: a function found under the same name and version but with another signature gives an external reference (D34, repaired)."
TEXT["C08"]["level"] += (" memento_run_local and process_existing_memento are verified in this check too (C08's view, clauses of C02 / C10 / C15 assumed): no OSError of "
                         "memoize or read_result escapes them.")
TEXT["C18"]["level"] += (" ConfigurationRepository.__init__ is proved (for configurations that name no clusters) to take every field from the explicit argument when one is given and otherwise from the "
                         "configuration, to replace the cluster map by an explicit one, to default the module list to an empty list and to refuse a repository without a name.")
TEXT["C18"]["note"] += " The loop of ConfigurationRepository.__init__ that loads the clusters named by the configuration, is not under contract; inside Environment.__init__ the constructors of ConfigurationRepository / _DefaultFunctionCluster and _load_config are summarised by uninterpreted functions."
TEXT["C18"]["level"] += (" Environment.__init__ is proved to take name and base directory from the explicit arguments, else from the configuration ('default' when it names none), to replace the "
                         "repository list by an explicit one and otherwise to build one repository per configured entry, in the configured order, each loaded relative to the configured base directory.")
TEXT["C12"]["level"] += (" A reference returned by from_qualified_name always has a function object behind it (the function found, or the external stub whose own reference points back at it); "
                         "MementoCodec.decode_fn_reference is proved to hand that on and MementoCodec.decode_arg never to raise FunctionNotFoundError for a stored function-valued argument (both decoders run in this check as well as in C11's).")
TEXT["C14"]["level"] += " DependencyGraph.parse_key, by which the graph is linked, is proved to be the inverse of the rule-key construction 'kind;namespace;name' (kind and namespace without ';')."
TEXT["C14"]["note"] += " The worklist DependencyGraph._rules_until_first_memento_fn that links the graph (df() / graph()) is not under contract."
TEXT["C05"]["level"] += (" DataSourceMetadataSource.list_mementos is proved to make exactly one listing -- of the function's own directory, not recursive, no name prefix, only '.memento.json' files, "
                         "with the caller's limit -- and to return the memento read from every listed key, in the order listed, nothing dropped or added (reading one memento is an assumed function of source and key).")
TEXT["C05"]["level"] += (" DataSourceMetadataSource.list_functions is proved to make one listing of the metadata root 'm' (not recursive, no prefix) and to return, in the order listed, the reference "
                         "for exactly the qualified name each key 'm/<name>' carries (from_qualified_name is an assumed function of the name here; C12 proves it).")
TEXT["C12"]["note"] += " (Since then DataSourceMetadataSource.get_mementos is under contract in this check, and list_functions / list_mementos of the metadata source in C05's.)"
TEXT["C05"]["level"] += " DataSourceMetadataSource.all_mementos_exist is proved to answer true exactly when the memento file of every requested call exists, each call asked about under its own memento path."
