"""Per-property wording for MANIFEST.json."""
WIP = "check not built yet (work in progress); see DESIGN.md"
NOT_APPLICABLE = {p: WIP for p in ["C%02d" % i for i in range(1, 20)]}
NOT_APPLICABLE["C09"] = "every clause quantifies over thread interleavings; a sequential contract verifier has no thread semantics (DESIGN.md section 6, C09)"

TEXT = {
    "C06": {
        "level": "Every method of the real MemoryCache is symbolically executed from an arbitrary state satisfying the representation invariant "
                 "(usage = sum of resident sizes, 0 <= usage <= budget, recency order = key set without duplicates) and proved, for all inputs and unboundedly many "
                 "loop iterations (loop invariants), to re-establish it and to meet its postcondition: evictions are exactly a least-recent set and happen only when room "
                 "is needed, hits move the key to most-recent and are served from the entry, forget-* leave usage equal to what remains (0 when empty). "
                 "The history quantifier follows by induction over these per-operation contracts.",
        "note": "Assumed: _estimate_object_size returns a non-negative int; weak references are not cleared while a cache method runs; the induction lemma over histories is "
                "a stated meta-argument; the AST->SMT translation, the finite-map/recency-order rule set and the SMT solvers are trusted.",
        "technique": "contract-based deductive verification: own VC generator over the real source + z3/cvc5",
    },
}
