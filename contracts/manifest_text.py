"""Per-property wording for MANIFEST.json."""
WIP = "check not built yet (work in progress); see DESIGN.md"
NOT_APPLICABLE = {p: WIP for p in ["C%02d" % i for i in range(1, 20)]}
NOT_APPLICABLE["C09"] = "every clause quantifies over thread interleavings; a sequential contract verifier has no thread semantics (DESIGN.md section 6, C09)"

TEXT = {
    "C06": {
        "level": "Every method of the real MemoryCache is symbolically executed from an arbitrary state satisfying the representation invariant "
                 "(usage = sum of resident sizes, 0 <= usage <= budget, recency order = key set without duplicates) and proved, for all inputs and unboundedly many "
                 "loop iterations (loop invariants), to re-establish it and to meet its postcondition: evictions are exactly a least-recent set and happen only when room "
                 "is needed, hits move the key to most-recent and are served from the entry, forget-* leave usage equal to what remains (0 when empty). "
                 "The history quantifier follows by induction over these per-operation contracts.",
        "note": "Assumed: _estimate_object_size returns a non-negative int; weak references are not cleared while a cache method runs; the induction lemma over histories is "
                "a stated meta-argument; the AST->SMT translation, the finite-map/recency-order rule set and the SMT solvers are trusted.",
        "technique": "contract-based deductive verification: own VC generator over the real source + z3/cvc5",
    },
    "C05": {
        "level": "Every public operation of the real StorageBackendBase (lookup, read result, is-memoized, memoize with or without key override, forget call / function / everything, "
                 "listings, custom metadata) is proved to refine one dictionary keyed by 'function-with-version/argument-hash' held by the abstract metadata source, and to preserve "
                 "cache/store coherence (whatever the write-through MemoryCache or its weak references hold is exactly what the store holds, for any cache budget or no cache); "
                 "every MemoryCache method is proved against its own contract. The history quantifier follows by induction over these per-operation contracts.",
        "note": "Partial: the memory backend and DataSourceMetadataSource/_FilesystemDataSource are not yet proved against the interface contracts (assumed). Assumed: qualified names contain no '/'; "
                "no I/O fault inside an operation; read_result is given the current memento; pickle round trip preserves the abstract value.",
        "technique": "contract-based deductive verification: own VC generator over the real source + z3/cvc5",
    },
    "C07": {
        "level": "Codec.BlobStrategy.store and NullStrategy.store are proved, for all inputs, against the abstract DataSource: the returned key is 'c/'+SHA-256(bytes) when no override is given, "
                 "the bytes under the returned version are the serialized bytes, an existing content key is reused without any write (deduplication), every previously readable version "
                 "keeps its bytes (immutability), and the store-wide integrity invariant J (bytes under a content key hash to it) is preserved, also on I/O errors. StorageBackendBase.memoize "
                 "is proved (under C05) to keep every old version readable with the same content.",
        "note": "Assumed: SHA-256 injective; the DataSource interface contract (output creates a fresh version, versions immutable) -- _FilesystemDataSource is not proved against it; "
                "override keys do not start with 'c/'; encode() is a function of the object.",
        "technique": "contract-based deductive verification: own VC generator over the real source + z3/cvc5",
    },
    "C19": {
        "level": "With read_only set, every mutating operation of the real StorageBackendBase is proved to leave the ghost write counters of the metadata and data sources, the store view and the "
                 "memory cache unchanged: memoize returns silently, forget_* and write_metadata raise ValueError before any callee runs; the flag is proved to come from the argument if given, "
                 "else from the configuration, else False. NullStorageBackend methods are proved to report nothing memoized; NullRunnerBackend.batch_run is proved to raise without invoking "
                 "any opaque callable.",
        "note": "Assumed: every mutating method of the abstract sources increments the ghost write counter (interface contract); the memory backend, FilesystemStorageBackend.__init__ and the frame scan "
                "of _FilesystemDataSource read methods are not covered yet.",
        "technique": "contract-based deductive verification: own VC generator over the real source + z3/cvc5",
    },
}
