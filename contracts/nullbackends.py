"""Contracts for the null storage / null runner back ends and the read-only flag of StorageBackend (property C19)."""
from pyvc.ty import *  # noqa
from . import storage


def load(R):
    storage.load(R)
    R.entity("NullStorageBackend", ("storage_null", "NullStorageBackend"), dict(read_only=TBool))
    R.entity("NullRunnerBackend", ("runner_null", "NullRunnerBackend"), dict())
    R.entity("StorageBackend", ("storage", "StorageBackend"), dict(storage_type=TStr, config=TDict(TStr, TBool), read_only=TBool))
    NS, NR = TEnt("NullStorageBackend"), TEnt("NullRunnerBackend")
    M = TObj("nn:Memento")
    FWH = TObj("nn:FunctionReferenceWithArgHash")
    FWA = TObj("nn:FunctionReferenceWithArguments")
    FR = TObj("nn:FunctionReference")
    N = "storage_null:NullStorageBackend."
    R.contract(N + "get_mementos", prop="C19", types={"self": NS, "fns": TList(FWH)}, returns=TList(TObj("Memento")),
               ensures=["len(result) == len(fns)", "forall(int, lambda j: implies(0 <= j and j < len(fns), result[j] is None))"])
    R.contract(N + "is_memoized", prop="C19", types={"self": NS, "fn_reference": FR, "arg_hash": TStr}, returns=TBool, ensures=["not result"])
    R.contract(N + "is_all_memoized", prop="C19", types={"self": NS, "fns": TList(FWA)}, returns=TBool, ensures=["not result"])
    R.contract(N + "list_functions", prop="C19", types={"self": NS, "cluster_name": TOpt(TStr)}, returns=TList(TObj()), ensures=["len(result) == 0"])
    # "the null storage never reports anything as memoized": the listing of a function's mementos is an empty LIST (the declared return type), like list_functions
    R.contract(N + "list_mementos", prop="C19", types={"self": NS, "fn": FR, "limit": TOpt(TInt)}, returns=TOpt(TList(TObj())), ensures=["result is not None", "len(result) == 0"])
    R.contract(N + "read_result", prop="C19", types={"self": NS, "memento": M}, returns=TObj(), ensures=["False"], raises={"ValueError": ["forall(obj, lambda m: m.content_key == old(m.content_key))"]})
    R.contract(N + "read_metadata", prop="C19", types={"self": NS, "fn_with_arg_hash": FWH, "key": TStr, "retry_on_none": TBool}, returns=TObj(), ensures=["result is None"])
    R.contract(N + "memoize", prop="C19", modifies=["heap:content_key"], types={"self": NS, "key_override": TOpt(TStr), "memento": M, "result": TObj()},
               ensures=["memento.content_key is None", "forall(obj, lambda m: implies(not same(m, memento), m.content_key == old(m.content_key)))"])
    # the null runner never executes anything: it raises, and no opaque callable (a function body) is invoked on the way
    R.contract("runner_null:NullRunnerBackend.batch_run", prop="C19",
               types={"self": NR, "context": TObj(), "storage_backend": TObj(), "fn_reference_with_args": TList(FWA), "log_runner_backend": TObj(), "caller_memento": TObj()},
               returns=TList(TObj()), ghost_params={"opaque_calls": TInt},
               ensures=["False"], raises={"RuntimeError": ["ghost('opaque_calls') == old(ghost('opaque_calls'))"]})
    # the read-only flag comes from the argument when given, else from the configuration, else False
    R.contract("storage:StorageBackend.__init__", prop="C19",
               types={"self": TEnt("StorageBackend"), "storage_type": TStr, "config": TOpt(TDict(TStr, TBool)), "read_only": TOpt(TBool)},
               ensures=["self.read_only == (read_only if read_only is not None else ((config['readonly'] if 'readonly' in config else False) if config is not None else False))",
                        "self.storage_type == storage_type"],
               modifies=["self.*"])
